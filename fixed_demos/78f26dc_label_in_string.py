"""Exit 1 on the parent of 78f26dc, 0 after it: remove_labels does not rewrite a function name inside HASH("...")."""
import sys
from stationeers_pytrapic.compiler import compile_code, CompileOptions
H = "from stationeers_pytrapic.symbols import *\n"
src = H + '''def update():
    db.Setting = HASH("update")
    db.On = HASH("my update x")
while True:
    update()
    update()
'''
r = compile_code(src, CompileOptions(append_version=False, remove_labels=True))
print(r.get("code") or r)
sys.exit(0 if 'HASH("update")' in r["code"] and 'HASH("my update x")' in r["code"] else 1)
