"""Exit 1 on the parent of 7b8256a, 0 after it: the register holding a computed device id is not reused while the device is accessed."""
import sys
from stationeers_pytrapic.compiler import compile_code, CompileOptions
H = "from stationeers_pytrapic.symbols import *\n"
src = H + '''
def f():
    n = db.Setting
    dev = GrowLight(ref_id=n + 1)
    a = db.Setting * 2
    dev.On = a

f()
'''
r = compile_code(src, CompileOptions(append_version=False, inline_functions=False))
print(r.get("code") or r)
lines = [l.split() for l in r["code"].splitlines()]
dev = next(l[1] for l in lines if l[0] == "add")        # the id n + 1
a = next(l[1] for l in lines if l[0] == "mul")
store = next(l for l in lines if l[0] == "s" and l[2] == "On")
sys.exit(0 if a != dev and store[1] == dev and store[3] == a else 1)
