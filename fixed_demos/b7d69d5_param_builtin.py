"""Exit 1 on the parent of b7d69d5, 0 after it: 'def f(sp)' is rejected whether or not f is inlined (inlined it compiled to 's db Setting sp')."""
import sys
from stationeers_pytrapic.compiler import compile_code, CompileOptions
H = "from stationeers_pytrapic.symbols import *\n"
src = H + "def f(sp):\n    db.Setting = sp\nf(db.On)\n"
v = []
for inl in (True, False):
    r = compile_code(src, CompileOptions(append_version=False, inline_functions=inl))
    v.append(bool(r.get("error")))
    print("inline" if inl else "noinline", r.get("error", {}).get("description") if r.get("error") else r["code"])
sys.exit(0 if v[0] == v[1] else 1)
