"""Inputs that failed before /repo commit defb719 (property C01, also C04).  Run with PYTHONPATH=<tree>/src; exits 1 on failure."""
import sys
from stationeers_pytrapic.compiler import compile_code, CompileOptions

H = "from stationeers_pytrapic.symbols import *\n"
A = H + '''
def f():
    x = d0.Setting
    y = x
    z = d1.Setting
    d2.Setting = y + z

f()
f()
'''
B = H + '''
def f():
    x = d0.Setting
    y = x
    x = x + 1
    d2.Setting = y + x

f()
f()
'''
bad = 0
for name, src in (("lifetime of the shared register", A), ("source reassigned", B)):
    code = compile_code(src, CompileOptions(append_version=False))["code"]
    add = [l.split() for l in code.splitlines() if l.strip().startswith("add") and l.split()[2] != l.split()[3] or l.strip().startswith("add") and "1" not in l.split()[3:]]
    same = [l for l in code.splitlines() if l.strip().startswith("add") and len(l.split()) == 4 and l.split()[2] == l.split()[3]]
    print(name); print(code)
    if same:
        print("FAIL: both operands of the sum are the same register:", same)
        bad = 1
sys.exit(bad)
