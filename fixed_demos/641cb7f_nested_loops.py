"""Input that failed before /repo commit 641cb7f (property C04): 'a' (r0) was overwritten by the temporary of the second
inner loop ('l r0 d3 On') and the next iteration of the outer loop stored the clobbered value to d2.
Run with PYTHONPATH=<tree>/src; exits 1 when 'a' shares its register with another value of f()."""
import re
import sys
from stationeers_pytrapic.compiler import compile_code, CompileOptions

SRC = '''
from stationeers_pytrapic.symbols import *

def f():
    a = d0.Setting
    while True:
        while d1.On > 0:
            d2.Setting = a
        while d3.On > 0:
            t = d4.Setting
            d5.Setting = t + 1
        yield_()

f()
f()
'''
code = compile_code(SRC, CompileOptions())["code"]
reg = re.search(r"l (r\d+) d0 Setting", code).group(1)
writes = [l for l in code.splitlines() if re.match(rf"\s*\w+ {reg}\b", l) and "d0 Setting" not in l]
print(code)
if writes:
    print(f"FAIL: {reg} holds 'a' and is also written by: {writes}")
    sys.exit(1)
print(f"ok: {reg} is reserved for 'a' in the whole outer loop")
