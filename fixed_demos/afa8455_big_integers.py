from stationeers_pytrapic.compiler import compile_code, CompileOptions
src = '''
from stationeers_pytrapic.symbols import *
db.Setting = 1e20
d0.Setting = 2**60
d1.Setting = 12345678901234567890
d2.Setting = 1e300
d3.Setting = -1e20
'''
r = compile_code(src, CompileOptions(append_version=False))
print(r.get("code")); print(r.get("error"))
