from stationeers_pytrapic.compiler import compile_code, CompileOptions
src = '''
from stationeers_pytrapic.symbols import *

g = d0.Setting

def f(a):
    global g
    g = g + 1
    d1.Setting = a

f(g)
g = g + 2
'''
for inl in (True, False):
    r = compile_code(src, CompileOptions(append_version=False, inline_functions=inl))
    print(inl); print(r.get("code")); print(r.get("error"))
