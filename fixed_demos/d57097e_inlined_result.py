"""Exit 1 on the parent of d57097e, 0 after it: the result register of f (inlined into g) is not a register the main code keeps a value in across 'jal g'."""
import sys
from stationeers_pytrapic.compiler import compile_code, CompileOptions
H = "from stationeers_pytrapic.symbols import *\n"
src = H + '''
def f():
    return db.Setting * 2

def g():
    v = f()
    return v + 1

db.Setting = g() + g()
'''
r = compile_code(src, CompileOptions(append_version=False))
print(r.get("code") or r)
lines = [l.split() for l in r["code"].splitlines()]
i = next(k for k, l in enumerate(lines) if l[0] == "g:")
main, g = lines[:i], lines[i:]
first = next(l[1] for l in main if l[0] == "get")      # result of the first g()
written_in_g = {l[1] for l in g if l[0] in ("l", "mul", "move", "add")}
sys.exit(1 if first in written_in_g else 0)
