from stationeers_pytrapic.compiler import compile_code, CompileOptions
src = '''
from stationeers_pytrapic.symbols import *

def f(a):
    db.Setting = a * 2

f(0.00001)
'''
r = compile_code(src, CompileOptions(append_version=False))
print(r.get("code")); print(r.get("error"))
src = '''
from stationeers_pytrapic.symbols import *
p = SolarPanel()
p.Horizontal = 5
x = d0.Setting
db.Setting = 3 if x else None
'''
r = compile_code(src, CompileOptions(append_version=False))
print(r.get("code")); print(r.get("error"))
