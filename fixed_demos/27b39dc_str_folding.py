"""Exit 1 on the parent of 27b39dc, 0 after it: an expression over STR("..") folds to the same value, and compiles, in verbose and compact mode."""
import sys
from stationeers_pytrapic.compiler import compile_code, CompileOptions
H = "from stationeers_pytrapic.symbols import *\n"
bad = 0
for src in ['db.Setting = STR("AB") + 1\n', 'x = STR("AB")\ndb.Setting = x * 2\n', 'if STR("AB") == 16706:\n    db.Setting = 1\nelse:\n    db.Setting = 2\n']:
    out = []
    for c in (False, True):
        r = compile_code(H + src, CompileOptions(append_version=False, compact=c))
        out.append(r["error"]["description"].splitlines()[0] if r.get("error") else r["code"].strip())
    print(src.strip().replace("\n", " / "), "->", out)
    if out[0] != out[1]:
        bad += 1
sys.exit(1 if bad else 0)
