"""Exit 1 on the parent of 8e91354, 0 after it: in 'x = y; z = x' the register of y stays in use while z is read."""
import re, sys
from stationeers_pytrapic.compiler import compile_code, CompileOptions
H = "from stationeers_pytrapic.symbols import *\n"
src = H + '''
def f():
    y = db.Setting + 1
    x = y
    z = x
    c = db.Setting * 5
    db.Setting = c + z

f()
'''
r = compile_code(src, CompileOptions(append_version=False, inline_functions=False))
print(r.get("code") or r)
lines = [l.split() for l in r["code"].splitlines()]
y = next(l[1] for l in lines if l[0] == "add")          # y = Setting + 1
c = next(l[1] for l in lines if l[0] == "mul")          # c = Setting * 5
last = [l for l in lines if l[0] == "add"][-1]           # c + z
ok = c != y and set(last[2:4]) == {c, y}
sys.exit(0 if ok else 1)
