"""Exit 1 on the parent of 1ba7e74, 0 after it: a call with the wrong number of arguments is rejected under every option vector."""
import sys
from stationeers_pytrapic.compiler import compile_code, CompileOptions
H = "from stationeers_pytrapic.symbols import *\n"
bad = 0
for call in ("f(1, 2)", "f()"):
    src = H + "def f(a):\n    db.Setting = a\n" + call + "\n"
    verdicts = {}
    for inl in (True, False):
        for pp in (True, False):
            r = compile_code(src, CompileOptions(append_version=False, inline_functions=inl, use_push_pop_functions=pp))
            verdicts[(inl, pp)] = bool(r.get("error"))
            if not r.get("error"):
                print(call, "inline" if inl else "noinline", "push/pop" if pp else "slots", "compiled:\n" + r["code"])
    if len(set(verdicts.values())) != 1 or not all(verdicts.values()):
        bad += 1
sys.exit(1 if bad else 0)
