"""Exit 1 on the parent of 079f520, 0 after it: tail_call_optimization must not reject a program whose function ends in a built-in call,
and must not leave the stack pointer changed (push/pop convention, result of the tail call not used)."""
import sys
from stationeers_pytrapic.compiler import compile_code
from stationeers_pytrapic.compile_pass import CompileOptions
H='from stationeers_pytrapic.symbols import *\n'
bad=0
# (a) the option must not turn a valid program into an error
progs = {
 'builtin last': H+'def f():\n    db.Setting = 1\n    yield_()\nwhile True:\n    f()\n    f()\n',
 'intrinsic last': H+'def f():\n    db.Setting = 1\n    sleep(1)\nwhile True:\n    f()\n    f()\n',
 'constexpr last': H+'@constexpr\ndef k():\n    return 3\ndef f():\n    db.Setting = 1\n    k()\nwhile True:\n    f()\n    f()\n',
 'math last': H+'def f():\n    db.Setting = 1\n    sqrt(4)\nwhile True:\n    f()\n    f()\n',
}
for name, src in progs.items():
    r0=compile_code(src, CompileOptions(append_version=False))
    r1=compile_code(src, CompileOptions(append_version=False, tail_call_optimization=True))
    if bool(r0.get('error')) != bool(r1.get('error')):
        bad+=1; print('VERDICT DIFFERS', name, r0.get('error'), '|', r1.get('error'))
# (b) push/pop: the value g pushes must be popped by somebody
src=H+'''def g(a):
    return a+1
def f(a):
    db.Setting = a
    g(a)
while True:
    f(1)
    f(2)
    db.On = g(3)
'''
r=compile_code(src, CompileOptions(tail_call_optimization=True, use_push_pop_functions=True, inline_functions=False, append_version=False))
code=r['code'].splitlines()
# run one iteration of the main loop on a tiny machine (stack, ra)
labels={l[:-1]:i for i,l in enumerate(code) if l.endswith(':')}
pc=0; ra=None; steps=0; stack=[]
while steps<500:
    steps+=1
    l=code[pc].split()
    if l[0].endswith(':'): pc+=1; continue
    if l[0]=='push': stack.append(ra if l[1]=='ra' else l[1])
    elif l[0]=='pop':
        v=stack.pop()
        if l[1]=='ra': ra=v
    if l[0]=='jal': ra=pc+1; pc=labels[l[1]]; continue
    if l[0]=='j':
        if l[1]=='ra': pc=ra; continue
        if l[1]=='lbwhile1': break
        pc=labels[l[1]]; continue
    pc+=1
sp=len(stack)
if sp!=0:
    bad+=1; print('sp after one iteration of the main loop:', sp); print(r['code'])
sys.exit(1 if bad else 0)
