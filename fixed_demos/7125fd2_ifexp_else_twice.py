from stationeers_pytrapic.compiler import compile_code, CompileOptions
H = "from stationeers_pytrapic.symbols import *\n"
for src in ['''
def bump():
    db.Setting = db.Setting + 1
    return 7

def g():
    return 3
x = d0.Setting
y = g() if x > 0 else bump()
d1.Setting = y
bump()
g()
''', '''
i = d0.Setting
i = [10, 20, 30][i]
d1.Setting = i
''']:
    r = compile_code(H + src, CompileOptions(append_version=False, inline_functions=False))
    print(r.get("code")); print(r.get("error")); print("-----")
