from stationeers_pytrapic.compiler import compile_code, CompileOptions
H = "from stationeers_pytrapic.symbols import *\n"
for src in ['''
p = SolarPanel()
p.Horizontal = 5
''', '''
def f():
    db.Setting = 1
x = f()
db.Setting = x
f()
''']:
    r = compile_code(H + src, CompileOptions(append_version=False))
    print(r.get("code")); print(r.get("error")); print("-----")
