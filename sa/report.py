"""E10: rule instances, findings, known-findings matching, evidence, exit codes."""
from __future__ import annotations

import json
import os
import sys
import time
from pathlib import Path

from .model import AnalysisError

VERIF = Path(__file__).resolve().parent.parent
KNOWN = VERIF / "known_findings.json"


def load_known():
    if not KNOWN.is_file():
        return []
    return json.loads(KNOWN.read_text())["findings"]


def _jsonable(x, depth=0):
    if depth > 6:
        return str(x)
    if x is None or isinstance(x, (bool, int, float, str)):
        return x
    if isinstance(x, dict):
        return {str(k): _jsonable(v, depth + 1) for k, v in x.items()}
    if isinstance(x, (list, tuple, set, frozenset)):
        items = list(x)
        try:
            items = sorted(items, key=repr) if isinstance(x, (set, frozenset)) else items
        except Exception:
            pass
        return [_jsonable(v, depth + 1) for v in items]
    return repr(x)


class Check:
    def __init__(self, pid: str, tier: str = "quick", seed: int = 0, repo_root="/repo", quiet=False):
        self.pid = pid
        self.tier = tier
        self.seed = seed
        self.repo_root = str(repo_root)
        self.t0 = time.time()
        self.instances = []  # (rule, key, ok, facts)
        self.findings = []  # dict(rule,key,msg,facts,where)
        self.rules = {}  # rule -> description
        self.floors = {}  # rule -> minimum number of instances
        self.assumptions = []
        self.functions_analysed = set()
        self.extra = {}
        self.quiet = quiet
        self.anchor_error = None
        self.rule_map = {}      # while a rule of a sibling property runs here: its rule ids -> the id it is reported under

    def shared(self, mapping, fn, *args, **kw):
        """Run a rule function that was written for another property, reporting its instances under this property's rule ids."""
        old = self.rule_map
        self.rule_map = dict(old, **mapping)
        try:
            return self.guarded(fn, *args, **kw)
        finally:
            self.rule_map = old

    # ---------------------------------------------------------------- recording
    def rule(self, rid: str, text: str, floor: int = 1):
        self.rules[rid] = text
        self.floors[rid] = floor

    def saw(self, module: str, qual: str):
        self.functions_analysed.add(f"{module}.{qual}")

    def ok(self, rule: str, key: str, facts=None, vacuous=False):
        rule = self.rule_map.get(rule, rule)
        self.instances.append((rule, key, True, _jsonable(facts), vacuous))

    def bad(self, rule: str, key: str, msg: str, facts=None, where: str = ""):
        rule = self.rule_map.get(rule, rule)
        self.instances.append((rule, key, False, _jsonable(facts), False))
        self.findings.append(
            {"rule": rule, "key": key, "msg": msg, "facts": _jsonable(facts), "where": where}
        )

    def judge(self, rule, key, cond, msg, facts=None, where=""):
        if cond:
            self.ok(rule, key, facts)
        else:
            self.bad(rule, key, msg, facts, where)
        return cond

    def guarded(self, fn, *args, **kw):
        """Run one rule; a lost anchor in it must not hide the other rules' findings."""
        try:
            return fn(*args, **kw)
        except AnalysisError as e:
            if not self.anchor_error:
                self.anchor_error = str(e)
            return None

    def unresolved(self, rule, key, msg, where=""):
        """The construct at *key* could not be evaluated: neither held nor violated.  The run ends in ANALYSIS-ERROR unless
        some rule found a concrete violation."""
        rule = self.rule_map.get(rule, rule)
        if not self.anchor_error:
            self.anchor_error = f"{rule} {key}: {msg}" + (f" ({where})" if where else "")

    def assume(self, text):
        if text not in self.assumptions:
            self.assumptions.append(text)

    # ---------------------------------------------------------------- finishing
    def finish(self, evidence_path=None, level="other", exhaustive=False, write=True, only_key=None):
        # floors
        counts = {}
        for rule, key, ok, facts, vac in self.instances:
            counts[rule] = counts.get(rule, 0) + 1
        floor_errors = [self.anchor_error] if self.anchor_error else []
        for rid, floor in self.floors.items():
            if self.anchor_error:
                break
            if counts.get(rid, 0) < floor and only_key is None:
                floor_errors.append(
                    f"rule {rid} matched {counts.get(rid, 0)} instance(s), fewer than the {floor} "
                    f"confirmed by hand: the rule lost its anchor"
                )
        known = [k for k in load_known() if k.get("property") == self.pid and k.get("status") == "known"]
        kmap = {(k["rule"], k["key"]): k for k in known}
        reported_known, violations = [], []
        seen = set()
        for f in self.findings:
            fk = (f["rule"], f["key"])
            if fk in seen:
                continue
            seen.add(fk)
            if fk in kmap:
                reported_known.append((f, kmap[fk]))
            else:
                violations.append(f)
        # a concrete violation is reported as such; a rule that lost its anchor
        # without any violation being found must not pass silently
        if floor_errors and not violations:
            raise AnalysisError("; ".join(floor_errors))
        out = []
        for fe_ in floor_errors:
            out.append(f"  note: {fe_}")
        for f, k in reported_known:
            out.append(f"KNOWN-FINDING: property={self.pid} {f['rule']} {f['key']} :: {k.get('what', f['msg'])}")
        replay_dir = VERIF / "replay"
        for f in violations:
            replay_dir.mkdir(exist_ok=True)
            name = f"{self.pid}-{_slug(f['rule'] + '-' + f['key'])}.json"
            p = replay_dir / name
            p.write_text(json.dumps({
                "property": self.pid, "rule": f["rule"], "key": f["key"], "message": f["msg"],
                "where": f["where"], "facts": f["facts"], "rule_text": self.rules.get(f["rule"], ""),
                "repo_root": self.repo_root,
                "replay": f"./check {self.pid} --replay {p}",
            }, indent=1))
            out.append(f"  violation: {f['rule']} {f['key']} at {f['where']}: {f['msg']}")
            out.append(f"VIOLATION property={self.pid} replay={p}")
        wall = time.time() - self.t0
        distinct = {(r, k) for r, k, ok, facts, vac in self.instances if not vac}
        samples = []
        per_rule = {}
        for r, k, ok, facts, vac in self.instances:
            per_rule.setdefault(r, []).append((k, ok, facts))
        for r in sorted(per_rule):
            for k, ok, facts in per_rule[r][:2]:
                samples.append({"rule": r, "instance": k, "verdict": "holds" if ok else "VIOLATED", "facts": facts})
        cov = {
            "explanation": "static analysis of /repo sources (ast, no execution). Rules applied: "
            + "; ".join(f"{r}: {t}" for r, t in sorted(self.rules.items())),
            "evaluations": len(self.instances),
            "distinct_nontrivial": len(distinct),
            "rule": "one evaluation = one rule instance (a source construct of the transpiler: emission site, table row, "
            "guard, call site, class); distinct = distinct (rule, construct) pairs; non-trivial = the construct was "
            "resolved (opcode/value set not TOP, table non-empty)",
            "samples": samples[:40],
            "instances_per_rule": {r: len(v) for r, v in sorted(per_rule.items())},
            "units_parsed": self.extra.get("units_parsed", 0),
            "functions_analysed": sorted(self.functions_analysed),
            "known_findings": [f"{f['rule']} {f['key']}" for f, _ in reported_known],
            "violation_keys": [f"{f['rule']} {f['key']}" for f in violations],
        }
        if exhaustive:
            cov["exhaustive"] = True
        for k, v in self.extra.items():
            cov.setdefault(k, v)
        ev = {
            "property_id": self.pid,
            "tier": self.tier,
            "seed": int(self.seed),
            "level": level,
            "coverage": cov,
            "assumptions": self.assumptions,
            "wall_s": round(wall, 3),
            "violations": len(violations),
        }
        if write:
            p = Path(evidence_path) if evidence_path else VERIF / "evidence" / f"{self.pid}.json"
            p.parent.mkdir(exist_ok=True)
            p.write_text(json.dumps(ev, indent=1))
        if not self.quiet:
            print(
                f"[{self.pid}] tier={self.tier} rules={len(self.rules)} instances={len(self.instances)} "
                f"distinct={len(distinct)} known={len(reported_known)} violations={len(violations)} wall={wall:.2f}s"
            )
            for line in out:
                print(line)
        return (1 if violations else 0), ev, violations, reported_known


def _slug(s):
    import re

    return re.sub(r"[^A-Za-z0-9_.-]+", "_", s)[:150]
