"""E4 ETE: emission-template extraction.

Every call of the instruction constructor (``IC10Instruction`` and the names
bound to it: ``IC10``, ``_IC10``) is an emission site.  For each site the
opcode value set (E3), the operand list, the output expression, the section it
is added to and its guards are recorded.
"""
from __future__ import annotations

import ast
from .model import Repo, Module, AnalysisError, norm, enclosing_def, enclosing_function, enclosing_stmt
from .consteval import FnEval, TOP, Pattern, Hole

CTOR_CLASS = "IC10Instruction"


def ctor_signature(repo: Repo):
    m = repo.mod("types")
    init = m.func(CTOR_CLASS + ".__init__")
    params = [a.arg for a in init.args.args][1:]
    for need in ("op", "inputs", "output"):
        if need not in params:
            raise AnalysisError(f"anchor vanished: {CTOR_CLASS}.__init__ parameter {need}")
    return params


def is_ctor_name(repo: Repo, mod: Module, name: str, _depth=0) -> bool:
    if _depth > 5:
        return False
    got = repo.lookup(mod, name)
    if not got or got[1] is None:
        return False
    m, node = got
    if isinstance(node, ast.ClassDef):
        return node.name == CTOR_CLASS and m.name == "types"
    if isinstance(node, ast.Assign) and isinstance(node.value, ast.Name):
        return is_ctor_name(repo, m, node.value.id, _depth + 1)
    return False


class Site:
    def __init__(self, repo, mod, call, params):
        self.mod = mod
        self.call = call
        self.fn = enclosing_def(call)
        self.in_lambda = isinstance(enclosing_function(call), ast.Lambda)
        bound = {}
        for i, a in enumerate(call.args):
            if i < len(params):
                bound[params[i]] = a
        for kw in call.keywords:
            if kw.arg:
                bound[kw.arg] = kw.value
        self.op_expr = bound.get("op")
        self.inputs_expr = bound.get("inputs")
        self.output_expr = bound.get("output")
        self.indent_expr = bound.get("indent")
        self.comment_expr = bound.get("comment")
        self.qual = self.fn.qual if self.fn is not None else "<module>"
        # how the instruction is used
        self.how, self.section = self._how()
        self.opcodes = TOP
        self._fe = None

    def _how(self):
        p = getattr(self.call, "parent", None)
        if isinstance(p, ast.Call) and isinstance(p.func, ast.Attribute) and self.call in p.args:
            a = p.func.attr
            if a in ("add", "_add"):
                return "add", ""
            if a == "add_end":
                return "add", "end"
            if a == "add_else":
                return "add", "else"
            if a == "add_line":
                return "add", "line"
            if a == "insert":
                return "insert", ""
            if a == "append":
                return "append", ""
        if isinstance(p, ast.Return):
            return "return", ""
        if isinstance(p, ast.Lambda):
            return "lambda", ""
        if isinstance(p, ast.Tuple):
            return "tuple", ""
        if isinstance(p, ast.Assign):
            return "assign", ""
        return "other", ""

    def sinks(self):
        """[(receiver expression, method name, call)] where the constructed instruction is handed to a fragment:
        directly  <recv>.add(IC10(..)) , or through a local  v = IC10(..); <recv>.add_end(v)."""
        ADD = ("add", "_add", "add_end", "add_else", "add_line", "insert", "append")
        out = []
        p = getattr(self.call, "parent", None)
        if isinstance(p, ast.Call) and isinstance(p.func, ast.Attribute) and self.call in p.args and p.func.attr in ADD:
            out.append((p.func.value, p.func.attr, p))
            return out
        st = p
        while st is not None and not isinstance(st, ast.stmt):
            st = getattr(st, "parent", None)
        if isinstance(st, ast.Assign) and len(st.targets) == 1 and isinstance(st.targets[0], ast.Name) and self.fn is not None:
            v = st.targets[0].id
            for c in ast.walk(self.fn):
                if isinstance(c, ast.Call) and isinstance(c.func, ast.Attribute) and c.func.attr in ADD and any(isinstance(a, ast.Name) and a.id == v for a in c.args):
                    out.append((c.func.value, c.func.attr, c))
        return out

    @property
    def n_inputs(self):
        e = self.inputs_expr
        if e is None:
            return 0
        if isinstance(e, (ast.List, ast.Tuple)):
            if any(isinstance(x, ast.Starred) for x in e.elts):
                return None
            return len(e.elts)
        if isinstance(e, ast.Constant) and e.value is None:
            return 0
        return None

    @property
    def input_exprs(self):
        e = self.inputs_expr
        if isinstance(e, (ast.List, ast.Tuple)):
            return list(e.elts)
        return []

    @property
    def has_output(self):
        e = self.output_expr
        if e is None:
            return False
        if isinstance(e, ast.Constant) and e.value is None:
            return False
        return True

    def key(self):
        return f"{self.mod.name}:{self.qual}:{norm(self.call)[:110]}"

    def stable_key(self):
        """key() with the function's local names blanked: a finding keeps its identity when a local is renamed"""
        if self.fn is None:
            return self.key()
        a = self.fn.args
        local = {n.id for n in ast.walk(self.fn) if isinstance(n, ast.Name) and isinstance(n.ctx, ast.Store)}
        local -= {x.arg for x in a.args + a.kwonlyargs + a.posonlyargs}
        from .inline import _clone
        c = _clone(self.call)
        for n in ast.walk(c):
            if isinstance(n, ast.Name) and n.id in local:
                n.id = "_"
        return f"{self.mod.name}:{self.qual}:{norm(c)[:110]}"

    def where(self):
        return f"{self.mod.path}:{self.call.lineno} in {self.qual}"

    def evaluator(self, repo, overrides=None):
        if self.fn is None:
            return None
        return FnEval(repo, self.mod, self.fn, overrides)

    def eval_op(self, repo, overrides=None):
        fe = self.evaluator(repo, overrides)
        if fe is None or self.op_expr is None:
            return TOP
        if self.in_lambda:
            # evaluate inside the lambda at the node holding the lambda
            return fe.eval_at(self.op_expr)
        return fe.eval_at(self.op_expr)


def label_def(v) -> bool:
    """Is opcode value *v* a label definition (text ending in ':')?"""
    if isinstance(v, str):
        return v.endswith(":")
    if isinstance(v, Pattern):
        return v.endswith(":")
    return False


def collect_sites(repo: Repo, modules=None):
    params = ctor_signature(repo)
    sites = []
    names = modules or [n for n in repo.module_names()]
    for mn in names:
        p = repo.pkg / (mn + ".py")
        try:
            txt = p.read_text(encoding="utf-8")
        except OSError:
            continue
        if "IC10" not in txt:
            continue
        m = repo.mod(mn)
        cache = {}
        seen_calls = set()
        roots = [f for f in m.funcs.values() if isinstance(f, (ast.FunctionDef, ast.AsyncFunctionDef))]
        # statements outside any function (module level, class bodies) are walked on the raw tree, without descending into defs
        def outside(node):
            for ch in ast.iter_child_nodes(node):
                if isinstance(ch, (ast.FunctionDef, ast.AsyncFunctionDef)):
                    continue
                yield ch
                yield from outside(ch)
        nodes_iter = [c for f in roots for c in ast.walk(f)] + list(outside(m.tree))
        for c in nodes_iter:
            if id(c) in seen_calls:
                continue
            seen_calls.add(id(c))
            if isinstance(c, ast.Call) and isinstance(c.func, ast.Name):
                nm = c.func.id
                if nm not in cache:
                    cache[nm] = is_ctor_name(repo, m, nm)
                if cache[nm]:
                    sites.append(Site(repo, m, c, params))
            elif isinstance(c, ast.Call) and isinstance(c.func, ast.Attribute) and c.func.attr in (CTOR_CLASS, "IC10"):
                sites.append(Site(repo, m, c, params))
    for s in sites:
        s.opcodes = s.eval_op(repo)
    return sites
