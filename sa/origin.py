"""Where does a value come from?  Field-origin tracking through local names.

For an expression inside a handler, ``tags`` returns the set of AST *fields of
the node being compiled* that the value derives from, following reaching
definitions of local names, tuple unpacking, the pass-through calls of the
repository (``self.compile_node(x)``, ``is_constant(x, data)``) and attribute /
subscript chains.  Tags are field names of astroid nodes as the repository
spells them: ``left right operand test body orelse target value iter slice
func args[i] op`` (``ops[0][1]`` is reported as ``right``, ``ops[0][0]`` as
``op``; the two children of ``get_children()`` as ``left``/``right``).
Literal constants give ``const:<repr>``.
"""
from __future__ import annotations

import ast
from .model import norm
from .cfg import CFG, ReachingDefs

PASS_THROUGH = {"compile_node", "is_constant", "_visit_node", "get_sym_data", "int", "float", "bool", "str", "_e"}
FIELDS = {"left", "right", "operand", "test", "body", "orelse", "target", "value", "iter", "slice", "func", "expr", "op", "targets", "args", "ops", "elts", "values"}


class Origin:
    _cache: dict = {}

    def __init__(self, fn):
        self.fn = fn
        if id(fn) not in Origin._cache:
            cfg = CFG(fn)
            Origin._cache[id(fn)] = (cfg, ReachingDefs(cfg), fn)
        self.cfg, self.rd, _ = Origin._cache[id(fn)]

    def node_id(self, expr):
        ns = [n.id for n in self.cfg.nodes_of(expr) if n.id in self.cfg.reachable()]
        return ns[0] if ns else None

    def tags(self, expr, nid=None, depth=0):
        if nid is None:
            nid = self.node_id(expr)
        return self._tags(expr, nid, depth)

    def _tags(self, e, nid, depth):
        if depth > 12 or e is None:
            return {"?"}
        if isinstance(e, ast.Constant):
            return {f"const:{e.value!r}"}
        if isinstance(e, ast.Name):
            if nid is None:
                return {f"name:{e.id}"}
            ds = self.rd.at(nid, e.id)
            if not ds:
                return {f"name:{e.id}"}
            out = set()
            for d in ds:
                if d.kind == "param":
                    out.add(f"param:{e.id}")
                elif d.kind in ("assign", "walrus") and d.value is not None:
                    sub = self._tags(d.value, d.node, depth + 1)
                    if d.index:
                        sub = self._index(d.value, d.index, d.node, depth, sub)
                    out |= sub
                elif d.kind == "for":
                    out |= {"iter-of:" + t for t in self._tags(d.value, d.node, depth + 1)}
                else:
                    out.add(f"{d.kind}:{e.id}")
            return out
        if isinstance(e, ast.Attribute):
            # field access on the compiled node:  <x>.left  /  <x>.left._ndata.constant_value
            chain = []
            cur = e
            while isinstance(cur, (ast.Attribute, ast.Subscript)):
                chain.append(cur)
                cur = cur.value
            # the innermost field of the chain decides; a lone trailing '.value'
            # on a local that already denotes a field is the Const node's value
            field_links = [l for l in chain if isinstance(l, ast.Attribute) and l.attr in FIELDS
                           and l.attr not in ("ops", "args", "targets", "elts", "values")]
            if isinstance(cur, ast.Name) and len(field_links) == 1 and field_links[0] is chain[0] and chain[0].attr == "value":
                base = self._tags(cur, nid, depth + 1)
                if base and all(not b.startswith(("param:", "name:", "?")) for b in base):
                    return base
            for link in reversed(chain):
                if isinstance(link, ast.Attribute) and link in field_links:
                    return {link.attr}
                if isinstance(link, ast.Subscript):
                    got = self._subscript_tag(link)
                    if got:
                        return got
            if isinstance(cur, ast.Name):
                base = self._tags(cur, nid, depth + 1)
                return base
            return {"?"}
        if isinstance(e, ast.Subscript):
            got = self._subscript_tag(e)
            if got:
                return got
            if isinstance(e.value, ast.Name) and isinstance(e.slice, ast.Constant) and isinstance(e.slice.value, int) and nid is not None:
                ds = self.rd.at(nid, e.value.id)
                if ds and all(d.kind == "assign" and not d.index and isinstance(d.value, ast.Attribute) and d.value.attr == "args" for d in ds):
                    return {f"args[{e.slice.value}]"}
            return self._tags(e.value, nid, depth + 1)
        if isinstance(e, ast.Call):
            f = e.func
            fname = f.attr if isinstance(f, ast.Attribute) else (f.id if isinstance(f, ast.Name) else "")
            if fname in PASS_THROUGH and e.args:
                return self._tags(e.args[0], nid, depth + 1)
            if fname == "get_children":
                return {"children"}
            if fname in ("list", "tuple") and e.args:
                return self._tags(e.args[0], nid, depth + 1)
            return {f"call:{fname}"}
        if isinstance(e, ast.IfExp):
            return self._tags(e.body, nid, depth + 1) | self._tags(e.orelse, nid, depth + 1)
        if isinstance(e, ast.UnaryOp):
            return {"unary:" + type(e.op).__name__ + ":" + t for t in self._tags(e.operand, nid, depth + 1)}
        if isinstance(e, (ast.Tuple, ast.List)):
            out = set()
            for x in e.elts:
                out |= self._tags(x, nid, depth + 1)
            return out
        return {"?"}

    def _subscript_tag(self, s):
        """node.ops[0][1] -> right ; node.ops[0][0] -> op ; node.args[i] -> args[i] ; node.targets[0] -> target"""
        t = norm(s)
        if t.endswith(".ops[0][1]"):
            return {"right"}
        if t.endswith(".ops[0][0]"):
            return {"op"}
        if isinstance(s.value, ast.Attribute) and s.value.attr == "args" and isinstance(s.slice, ast.Constant):
            return {f"args[{s.slice.value}]"}
        if isinstance(s.value, ast.Attribute) and s.value.attr == "targets" and isinstance(s.slice, ast.Constant):
            return {"target"}
        if isinstance(s.value, ast.Call) and norm(s.value.func).endswith("get_children") and isinstance(s.slice, ast.Constant):
            return {("left", "right")[s.slice.value]} if s.slice.value in (0, 1) else None
        if isinstance(s.value, ast.Call) and norm(s.value.func) in ("list", "tuple") and s.value.args and isinstance(s.slice, ast.Constant) \
                and isinstance(s.value.args[0], ast.Call) and norm(s.value.args[0].func).endswith("get_children") and s.slice.value in (0, 1):
            return {("left", "right")[s.slice.value]}
        return None

    def _index(self, value, index, nid, depth, sub):
        """value is unpacked with tuple path *index*."""
        i = index[0]
        t = norm(value)
        if isinstance(value, ast.Call) and norm(value.func).endswith("get_children"):
            return {("left", "right")[i]} if i in (0, 1) else {"?"}
        if t.endswith(".ops[0]"):
            return {("op", "right")[i]} if i in (0, 1) else {"?"}
        if isinstance(value, (ast.Tuple, ast.List)) and i < len(value.elts):
            r = self._tags(value.elts[i], nid, depth + 1)
            if len(index) > 1:
                return self._index(value.elts[i], index[1:], nid, depth, r)
            return r
        if isinstance(value, ast.Call):
            f = value.func
            fname = f.attr if isinstance(f, ast.Attribute) else (f.id if isinstance(f, ast.Name) else "")
            if fname == "is_constant" and value.args:
                return self._tags(value.args[0], nid, depth + 1)
            return {f"call:{fname}[{i}]"}
        return {x + f"[{i}]" for x in sub}
