"""E2: per-function control-flow graph, guards, dominators, reaching definitions.

A hand-built CFG over the statement kinds the repository uses.  Nodes are
simple statements and the tests of compound statements; edges carry the branch
condition ``(test_expr, polarity)`` or an exception tag.  ``finally`` bodies are
copied once per continuation (normal / return / raise / break / continue), so
every path through the graph is a syntactic path of the function.
"""
from __future__ import annotations

import ast
from .model import AnalysisError, norm

CATCH_ALL = {"Exception", "BaseException"}


class N:
    __slots__ = ("id", "kind", "ast", "stmt")

    def __init__(self, id, kind, node=None, stmt=None):
        self.id = id
        self.kind = kind
        self.ast = node
        self.stmt = stmt if stmt is not None else node

    def __repr__(self):
        return f"<{self.id}:{self.kind}:{norm(self.ast)[:40] if self.ast is not None else ''}>"


def _may_raise(node) -> bool:
    for n in ast.walk(node):
        if isinstance(n, (ast.Call, ast.Subscript, ast.BinOp, ast.Raise, ast.Assert, ast.Attribute, ast.Await)):
            return True
    return False


def default_exc_model(node):
    """Which exception types may leave *node*: {'*'} unknown, set() none."""
    return {"*"} if _may_raise(node) else set()


def _handler_names(h: ast.ExceptHandler):
    if h.type is None:
        return None  # bare
    out = []
    elts = h.type.elts if isinstance(h.type, ast.Tuple) else [h.type]
    for e in elts:
        if isinstance(e, ast.Name):
            out.append(e.id)
        elif isinstance(e, ast.Attribute):
            out.append(e.attr)
        else:
            out.append("?")
    return out


class CFG:
    def __init__(self, fn, exc_model=default_exc_model):
        self.fn = fn
        self.nodes: list[N] = []
        self.succ: dict[int, list[tuple[int, object]]] = {}
        self.exc_model = exc_model
        self.entry = self._new("entry")
        self.exit = self._new("exit")  # normal return / fall off the end
        self.xexit = self._new("xexit")  # exception leaves the function
        body = fn.body if not isinstance(fn, ast.Lambda) else [ast.Expr(fn.body)]
        ctx = {"ret": self.exit.id, "exc": ("plain", self.xexit.id), "brk": None, "cont": None}
        first = self._block(body, self.exit.id, ctx)
        self._edge(self.entry.id, first, None)
        self._pred = None

    # ------------------------------------------------------------ construction
    def _new(self, kind, node=None, stmt=None) -> N:
        n = N(len(self.nodes), kind, node, stmt)
        self.nodes.append(n)
        self.succ[n.id] = []
        return n

    def _edge(self, a, b, label):
        if b is None:
            raise AnalysisError("cfg: jump without target in " + getattr(self.fn, "name", "<lambda>"))
        self.succ[a].append((b, label))

    def _raise_edges(self, nid, types, ctx):
        """Connect node *nid* to where exceptions of *types* go."""
        for t in types:
            for tgt in self._exc_targets(t, ctx["exc"]):
                self._edge(nid, tgt, ("exc", t))

    def _exc_targets(self, t, exc):
        kind = exc[0]
        if kind == "plain":
            return [exc[1]]
        # ('try', handlers[(names, entry)], outer_exc)
        _, handlers, outer = exc
        out = []
        for names, entry in handlers:
            if names is None or any(nm in CATCH_ALL for nm in names):
                out.append(entry)
                return out
            if t == "*":
                out.append(entry)  # may be caught here
            elif t in names:
                out.append(entry)
                return out
        out.extend(self._exc_targets(t, outer))
        return out

    def _block(self, stmts, nxt, ctx):
        for st in reversed(stmts):
            nxt = self._stmt(st, nxt, ctx)
        return nxt

    def _stmt(self, st, nxt, ctx):
        if isinstance(st, ast.If):
            t = self._new("test", st.test, st)
            self._edge(t.id, self._block(st.body, nxt, ctx), (st.test, True))
            self._edge(t.id, self._block(st.orelse, nxt, ctx), (st.test, False))
            self._raise_edges(t.id, self.exc_model(st.test), ctx)
            return t.id
        if isinstance(st, ast.While):
            t = self._new("test", st.test, st)
            c2 = dict(ctx, brk=nxt, cont=t.id)
            self._edge(t.id, self._block(st.body, t.id, c2), (st.test, True))
            if not (isinstance(st.test, ast.Constant) and st.test.value):
                self._edge(t.id, self._block(st.orelse, nxt, ctx), (st.test, False))
            self._raise_edges(t.id, self.exc_model(st.test), ctx)
            return t.id
        if isinstance(st, (ast.For, ast.AsyncFor)):
            it = self._new("iter", st.iter, st)
            head = self._new("for", st.target, st)
            self._edge(it.id, head.id, None)
            c2 = dict(ctx, brk=nxt, cont=head.id)
            self._edge(head.id, self._block(st.body, head.id, c2), (st, True))
            self._edge(head.id, self._block(st.orelse, nxt, ctx), (st, False))
            self._raise_edges(it.id, self.exc_model(st.iter), ctx)
            return it.id
        if isinstance(st, (ast.With, ast.AsyncWith)):
            w = self._new("with", st, st)
            self._edge(w.id, self._block(st.body, nxt, ctx), None)
            types = set()
            for item in st.items:
                types |= self.exc_model(item.context_expr)
            self._raise_edges(w.id, types, ctx)
            return w.id
        if isinstance(st, ast.Try) or type(st).__name__ == "TryStar":
            return self._try(st, nxt, ctx)
        if isinstance(st, ast.Match):
            raise AnalysisError("cfg: match statement not supported")
        if isinstance(st, ast.Return):
            n = self._new("return", st)
            self._edge(n.id, ctx["ret"], None)
            if st.value is not None:
                self._raise_edges(n.id, self.exc_model(st.value), ctx)
            return n.id
        if isinstance(st, ast.Raise):
            n = self._new("raise", st)
            t = "*"
            e = st.exc
            if isinstance(e, ast.Call):
                e = e.func
            if isinstance(e, ast.Name):
                t = e.id
            elif isinstance(e, ast.Attribute):
                t = e.attr
            if st.exc is None:
                t = ctx.get("reraise", "*")
            self._raise_edges(n.id, {t}, ctx)
            return n.id
        if isinstance(st, ast.Break):
            n = self._new("break", st)
            self._edge(n.id, ctx["brk"], None)
            return n.id
        if isinstance(st, ast.Continue):
            n = self._new("continue", st)
            self._edge(n.id, ctx["cont"], None)
            return n.id
        # simple statement (incl. nested def/class as a binding)
        n = self._new("stmt", st)
        self._edge(n.id, nxt, None)
        if not isinstance(st, (ast.FunctionDef, ast.AsyncFunctionDef, ast.ClassDef)):
            self._raise_edges(n.id, self.exc_model(st), ctx)
        return n.id

    def _try(self, st, nxt, ctx):
        if st.finalbody:
            memo = {}

            def fin(target):
                if target is None:
                    return None
                if target not in memo:
                    memo[target] = self._block(st.finalbody, target, ctx)
                return memo[target]

            # exceptions: run finally then continue to every outer target of '*'
            # (typed routing after a finally is approximated by the unknown type)
            outer_targets = self._exc_targets("*", ctx["exc"])
            fx = self._new("finally-exc", None, st)
            # one copy of the finally body whose continuation re-raises outward
            join = self._new("finally-reraise", None, st)
            for tg in outer_targets:
                self._edge(join.id, tg, ("exc", "*"))
            fx_body = self._block(st.finalbody, join.id, ctx)
            self._edge(fx.id, fx_body, None)
            inner = dict(
                ctx,
                ret=fin(ctx["ret"]),
                brk=fin(ctx["brk"]),
                cont=fin(ctx["cont"]),
                exc=("plain", fx.id),
            )
            after = fin(nxt)
        else:
            inner = ctx
            after = nxt
        handlers = []
        for h in st.handlers:
            hn = self._new("handler", h, st)
            names = _handler_names(h)
            hctx = dict(inner)
            if names and len(names) == 1:
                hctx["reraise"] = names[0]
            self._edge(hn.id, self._block(h.body, after, hctx), None)
            handlers.append((names, hn.id))
        body_ctx = dict(inner, exc=("try", handlers, inner["exc"])) if handlers else inner
        else_entry = self._block(st.orelse, after, inner)
        return self._block(st.body, else_entry, body_ctx)

    # ---------------------------------------------------------------- queries
    def pred(self):
        if self._pred is None:
            p = {n.id: [] for n in self.nodes}
            for a, outs in self.succ.items():
                for b, lab in outs:
                    p[b].append((a, lab))
            self._pred = p
        return self._pred

    def reachable(self, start=None, avoid_nodes=(), avoid_edges=(), follow_exc=True):
        start = self.entry.id if start is None else start
        avoid_nodes = set(avoid_nodes)
        avoid_edges = set(avoid_edges)
        seen = set()
        stack = [start]
        while stack:
            a = stack.pop()
            if a in seen or a in avoid_nodes:
                continue
            seen.add(a)
            for i, (b, lab) in enumerate(self.succ[a]):
                if (a, i) in avoid_edges:
                    continue
                if not follow_exc and isinstance(lab, tuple) and lab[0] == "exc":
                    continue
                stack.append(b)
        return seen

    def live_nodes(self):
        return self.reachable()

    def nodes_of(self, astnode):
        """CFG nodes whose statement/test contains *astnode* (finally copies
        give several)."""
        st = astnode
        out = []
        ids = set()
        target = None
        # find the innermost CFG-carrying ast
        carriers = {}
        for n in self.nodes:
            if n.ast is not None:
                carriers.setdefault(id(n.ast), []).append(n)
        cur = astnode
        while cur is not None:
            if id(cur) in carriers:
                return carriers[id(cur)]
            cur = getattr(cur, "parent", None)
            if cur is self.fn:
                break
        return []

    def dominators(self):
        live = self.reachable()
        pred = self.pred()
        dom = {n: set(live) for n in live}
        dom[self.entry.id] = {self.entry.id}
        changed = True
        order = sorted(live)
        while changed:
            changed = False
            for n in order:
                if n == self.entry.id:
                    continue
                ps = [p for p, _ in pred[n] if p in live]
                new = set(live)
                for p in ps:
                    new &= dom[p]
                new |= {n}
                if new != dom[n]:
                    dom[n] = new
                    changed = True
        return dom

    def edge_guards(self, nid, include_exc=False):
        """Atoms (text, polarity, expr) that hold on every path entry -> nid:
        labelled edges whose removal disconnects nid from the entry."""
        out = []
        live = self.reachable()
        if nid not in live:
            return out
        for a in live:
            for i, (b, lab) in enumerate(self.succ[a]):
                if not isinstance(lab, tuple) or lab[0] == "exc" and not include_exc:
                    continue
                if lab[0] == "exc":
                    continue
                if nid not in self.reachable(avoid_edges={(a, i)}):
                    out.append(lab)
        return out

    def guards(self, nid):
        """Decomposed atoms: list of (expr, polarity)."""
        atoms = []
        for test, pol in self.edge_guards(nid):
            if isinstance(test, ast.expr):
                atoms.extend(decompose(test, pol))
            else:
                atoms.append((test, pol))
        return atoms

    def must_pass(self, start, targets, through):
        """True iff every path start -> any of *targets* passes a node in
        *through* (start itself excluded)."""
        seen = set()
        stack = [b for b, _ in self.succ[start]]
        targets = set(targets)
        through = set(through)
        while stack:
            a = stack.pop()
            if a in seen or a in through:
                continue
            seen.add(a)
            if a in targets:
                return False
            stack.extend(b for b, _ in self.succ[a])
        return True

    def witness_path(self, start, targets, avoid):
        """A path start -> target avoiding *avoid*, as node list (or None)."""
        targets = set(targets)
        avoid = set(avoid)
        prev = {start: None}
        stack = [start]
        while stack:
            a = stack.pop()
            for b, _ in self.succ[a]:
                if b in prev or b in avoid:
                    continue
                prev[b] = a
                if b in targets:
                    path = [b]
                    while prev[path[-1]] is not None:
                        path.append(prev[path[-1]])
                    return list(reversed(path))
                stack.append(b)
        return None


def decompose(test, pol):
    """Split a condition into atoms that certainly hold: and/or/not."""
    if isinstance(test, ast.UnaryOp) and isinstance(test.op, ast.Not):
        return decompose(test.operand, not pol)
    if isinstance(test, ast.BoolOp):
        if isinstance(test.op, ast.And) and pol:
            out = []
            for v in test.values:
                out.extend(decompose(v, True))
            return out
        if isinstance(test.op, ast.Or) and not pol:
            out = []
            for v in test.values:
                out.extend(decompose(v, False))
            return out
    if isinstance(test, ast.Compare) and len(test.ops) > 1 and pol:
        # a < b < c  holds  ==  a < b  and  b < c
        out, left = [], test.left
        for op, right in zip(test.ops, test.comparators):
            part = ast.copy_location(ast.Compare(left=left, ops=[op], comparators=[right]), test)
            part.parent = getattr(test, "parent", None)
            out.append((part, True))
            left = right
        return out
    return [(test, pol)]


# ---------------------------------------------------------------- definitions
def _targets(t):
    if isinstance(t, ast.Name):
        yield t
    elif isinstance(t, (ast.Tuple, ast.List)):
        for e in t.elts:
            yield from _targets(e)
    elif isinstance(t, ast.Starred):
        yield from _targets(t.value)


class Def:
    __slots__ = ("name", "node", "kind", "value", "index", "target")

    def __init__(self, name, node, kind, value=None, index=None, target=None):
        self.name = name
        self.node = node  # CFG node id (or -1 for parameters)
        self.kind = kind  # 'assign' 'aug' 'for' 'param' 'with' 'except' 'import' 'def' 'walrus'
        self.value = value  # ast expr assigned (for tuple targets: the whole rhs)
        self.index = index  # path into a tuple target, e.g. (0,) ; None = whole
        self.target = target

    def __repr__(self):
        return f"Def({self.name}@{self.node}:{self.kind})"


def _tuple_paths(t, prefix=()):
    if isinstance(t, ast.Name):
        yield t, prefix
    elif isinstance(t, (ast.Tuple, ast.List)):
        for i, e in enumerate(t.elts):
            yield from _tuple_paths(e, prefix + (i,))


def defs_of_node(n: N):
    out = []
    st = n.ast
    if n.kind == "stmt":
        if isinstance(st, ast.Assign):
            for t in st.targets:
                for nm, path in _tuple_paths(t):
                    out.append(Def(nm.id, n.id, "assign", st.value, path or None, nm))
        elif isinstance(st, ast.AnnAssign) and st.value is not None:
            for nm in _targets(st.target):
                out.append(Def(nm.id, n.id, "assign", st.value, None, nm))
        elif isinstance(st, ast.AugAssign):
            for nm in _targets(st.target):
                out.append(Def(nm.id, n.id, "aug", st, None, nm))
        elif isinstance(st, (ast.Import, ast.ImportFrom)):
            for a in st.names:
                out.append(Def((a.asname or a.name).split(".")[0], n.id, "import", st))
        elif isinstance(st, (ast.FunctionDef, ast.ClassDef, ast.AsyncFunctionDef)):
            out.append(Def(st.name, n.id, "def", st))
    elif n.kind == "for":
        paths = {id(nm): path for nm, path in _tuple_paths(n.ast)}
        for nm in _targets(n.ast):
            out.append(Def(nm.id, n.id, "for", n.stmt.iter, paths.get(id(nm)) or None, nm))
    elif n.kind == "with":
        for item in n.ast.items:
            if item.optional_vars is not None:
                for nm in _targets(item.optional_vars):
                    out.append(Def(nm.id, n.id, "with", item.context_expr, None, nm))
    elif n.kind == "handler":
        if n.ast.name:
            out.append(Def(n.ast.name, n.id, "except", n.ast.type))
    # walrus anywhere in the node's expression
    if n.ast is not None and n.kind in ("stmt", "test", "iter", "return"):
        root = n.ast
        for w in ast.walk(root):
            if isinstance(w, ast.NamedExpr) and isinstance(w.target, ast.Name):
                out.append(Def(w.target.id, n.id, "walrus", w.value, None, w.target))
    return out


class ReachingDefs:
    def __init__(self, cfg: CFG):
        self.cfg = cfg
        fn = cfg.fn
        self.param_defs = []
        if not isinstance(fn, ast.Lambda) or True:
            a = fn.args
            for arg in list(a.posonlyargs) + list(a.args) + list(a.kwonlyargs):
                self.param_defs.append(Def(arg.arg, -1, "param", None, None, arg))
            if a.vararg:
                self.param_defs.append(Def(a.vararg.arg, -1, "param"))
            if a.kwarg:
                self.param_defs.append(Def(a.kwarg.arg, -1, "param"))
        self.gen = {n.id: defs_of_node(n) for n in cfg.nodes}
        self.all_defs = list(self.param_defs) + [d for ds in self.gen.values() for d in ds]
        self._solve()

    def _solve(self):
        cfg = self.cfg
        live = cfg.reachable()
        pred = cfg.pred()
        IN = {n: set() for n in live}
        OUT = {n: set() for n in live}
        IN[cfg.entry.id] = set(self.param_defs)
        work = sorted(live)
        changed = True
        while changed:
            changed = False
            for n in work:
                if n != cfg.entry.id:
                    s = set()
                    for p, _ in pred[n]:
                        if p in live:
                            s |= OUT[p]
                    IN[n] = s
                killed = {d.name for d in self.gen[n]}
                out = {d for d in IN[n] if d.name not in killed} | set(self.gen[n])
                if out != OUT[n]:
                    OUT[n] = out
                    changed = True
        self.IN, self.OUT = IN, OUT

    def at(self, nid, name):
        """Definitions of *name* reaching the entry of node *nid*."""
        return [d for d in self.IN.get(nid, ()) if d.name == name]

    def after(self, nid, name):
        return [d for d in self.OUT.get(nid, ()) if d.name == name]
