"""Symbolic evaluation of a small data-transformation function into a list of
codec stages (used for C18's encode_data / decode_data).

The function body is interpreted statement by statement over symbolic values:
the parameter, constants, calls of library functions (names resolved through
module-level and function-level imports), method calls, string concatenation,
``"=" * n`` repetitions, conditional values (``if``/``IfExp``), helper functions
of the same module (inlined, bounded depth) and module-level constants.  The
result is normalised to a linear list of stages applied to the parameter.
Statements that are not part of such a data flow (loops, in-place mutation, …)
are returned as *unknown* and judged by the caller.
"""
from __future__ import annotations

import ast
from .model import Repo, Module, AnalysisError, norm


class V:
    """Symbolic value."""
    __slots__ = ("kind", "a", "b", "c", "node")

    def __init__(self, kind, a=None, b=None, c=None, node=None):
        self.kind, self.a, self.b, self.c, self.node = kind, a, b, c, node

    def __repr__(self):
        if self.kind == "param":
            return f"<{self.a}>"
        if self.kind == "const":
            return repr(self.a)
        if self.kind == "call":
            return f"{self.a}({', '.join(map(repr, self.b))}{', ' if self.c else ''}{', '.join(f'{k}={v!r}' for k, v in (self.c or {}).items())})"
        if self.kind == "method":
            return f"{self.b!r}.{self.a}({', '.join(map(repr, self.c[0]))})"
        if self.kind == "concat":
            return f"({self.a!r} + {self.b!r})"
        if self.kind == "ite":
            return f"({self.b!r} if {self.a!r} else {self.c!r})"
        if self.kind == "binop":
            return f"({self.b!r} {self.a} {self.c!r})"
        return f"<{self.kind}>"


LIB = {"json", "zlib", "base64", "binascii", "str", "bytes"}


class Interp:
    def __init__(self, repo: Repo, mod: Module):
        self.repo, self.mod = repo, mod
        self.unknown = []

    # -------------------------------------------------------------- names
    def _imports(self, fn):
        """local name -> canonical dotted name, from module-level and function-level imports."""
        out = {}
        def take(st):
            if isinstance(st, ast.Import):
                for a in st.names:
                    out[a.asname or a.name.split(".")[0]] = a.name if a.asname else a.name.split(".")[0]
            elif isinstance(st, ast.ImportFrom) and st.level == 0 and st.module:
                for a in st.names:
                    out[a.asname or a.name] = f"{st.module}.{a.name}"
        for st in self.mod.tree.body:
            take(st)
        for st in ast.walk(fn):
            take(st)
        return out

    # -------------------------------------------------------------- evaluation
    def run(self, fn, args=None, depth=0):
        """Symbolic return value of *fn* (parameters bound to *args* or to themselves)."""
        params = [a.arg for a in fn.args.args]
        env = {}
        for i, p in enumerate(params):
            env[p] = args[i] if args is not None and i < len(args) else V("param", p)
        imports = self._imports(fn)
        ret = self._block(fn.body, env, imports, fn, depth)
        if ret is None:
            raise AnalysisError(f"{fn.name}: no return value on the straight-line path")
        return ret

    def _block(self, stmts, env, imports, fn, depth):
        for st in stmts:
            if isinstance(st, (ast.Import, ast.ImportFrom, ast.Pass)) or (isinstance(st, ast.Expr) and isinstance(st.value, ast.Constant)):
                continue
            if isinstance(st, ast.Assign) and len(st.targets) == 1 and isinstance(st.targets[0], ast.Name):
                env[st.targets[0].id] = self._expr(st.value, env, imports, fn, depth)
                continue
            if isinstance(st, ast.AnnAssign) and isinstance(st.target, ast.Name) and st.value is not None:
                env[st.target.id] = self._expr(st.value, env, imports, fn, depth)
                continue
            if isinstance(st, ast.AugAssign) and isinstance(st.target, ast.Name) and isinstance(st.op, ast.Add) and st.target.id in env:
                env[st.target.id] = V("concat", env[st.target.id], self._expr(st.value, env, imports, fn, depth), node=st)
                continue
            if isinstance(st, ast.Return) and st.value is not None:
                return self._expr(st.value, env, imports, fn, depth)
            if isinstance(st, ast.If):
                test = self._expr(st.test, env, imports, fn, depth)
                e1, e2 = dict(env), dict(env)
                r1 = self._block(st.body, e1, imports, fn, depth)
                r2 = self._block(st.orelse, e2, imports, fn, depth)
                if r1 is not None or r2 is not None:
                    if r1 is not None and r2 is not None:
                        return V("ite", test, r1, r2, node=st)
                    # one branch returns: the rest of the block is the other branch
                    rest = stmts[stmts.index(st) + 1:]
                    if r1 is not None:
                        r2 = self._block(rest, e2, imports, fn, depth)
                    else:
                        r1 = self._block(rest, e1, imports, fn, depth)
                    if r1 is None or r2 is None:
                        return None
                    return V("ite", test, r1, r2, node=st)
                for k in set(e1) | set(e2):
                    a, b = e1.get(k), e2.get(k)
                    if a is b:
                        env[k] = a
                    elif a is not None and b is not None:
                        env[k] = V("ite", test, a, b, node=st)
                continue
            self.unknown.append(st)
        return None

    def _expr(self, e, env, imports, fn, depth):
        if isinstance(e, ast.Constant):
            return V("const", e.value, node=e)
        if isinstance(e, ast.Name):
            if e.id in env:
                return env[e.id]
            if e.id in imports:
                return V("lib", imports[e.id], node=e)
            # module-level constant
            if e.id in self.mod.assigns and len(self.mod.assigns[e.id]) == 1:
                st = self.mod.assigns[e.id][0]
                return self._expr(st.value, {}, self._imports(fn), fn, depth + 1)
            if e.id in ("str", "bytes", "len", "int"):
                return V("lib", e.id, node=e)
            return V("unknown", norm(e), node=e)
        if isinstance(e, ast.Attribute):
            base = self._expr(e.value, env, imports, fn, depth)
            if base.kind == "lib":
                return V("lib", f"{base.a}.{e.attr}", node=e)
            return V("attr", e.attr, base, node=e)
        if isinstance(e, ast.BinOp):
            l, r = self._expr(e.left, env, imports, fn, depth), self._expr(e.right, env, imports, fn, depth)
            if isinstance(e.op, ast.Add):
                return V("concat", l, r, node=e)
            return V("binop", type(e.op).__name__, l, r, node=e)
        if isinstance(e, ast.UnaryOp):
            return V("binop", "U" + type(e.op).__name__, V("const", 0), self._expr(e.operand, env, imports, fn, depth), node=e)
        if isinstance(e, ast.Compare) and len(e.ops) == 1:
            return V("binop", type(e.ops[0]).__name__, self._expr(e.left, env, imports, fn, depth), self._expr(e.comparators[0], env, imports, fn, depth), node=e)
        if isinstance(e, ast.IfExp):
            return V("ite", self._expr(e.test, env, imports, fn, depth), self._expr(e.body, env, imports, fn, depth), self._expr(e.orelse, env, imports, fn, depth), node=e)
        if isinstance(e, ast.Call):
            args = [self._expr(a, env, imports, fn, depth) for a in e.args]
            kw = {k.arg: self._expr(k.value, env, imports, fn, depth) for k in e.keywords if k.arg}
            f = e.func
            if isinstance(f, ast.Name) and f.id not in env and f.id not in imports and f.id in self.mod.funcs and depth < 3:
                # helper of the same module: inline
                return self.run(self.mod.funcs[f.id], args, depth + 1)
            fv = self._expr(f, env, imports, fn, depth) if not isinstance(f, ast.Attribute) else None
            if isinstance(f, ast.Attribute):
                base = self._expr(f.value, env, imports, fn, depth)
                if base.kind == "lib":
                    return V("call", f"{base.a}.{f.attr}", args, kw, node=e)
                return V("method", f.attr, base, (args, kw), node=e)
            if fv is not None and fv.kind == "lib":
                return V("call", fv.a, args, kw, node=e)
            return V("call", norm(f), args, kw, node=e)
        if isinstance(e, ast.Dict) and e.keys and all(isinstance(k, ast.Constant) for k in e.keys) and all(isinstance(v, ast.Constant) for v in e.values):
            return V("const", {k.value: v.value for k, v in zip(e.keys, e.values)}, node=e)      # a literal table (e.g. for str.maketrans)
        if isinstance(e, ast.Dict) and any(k is None for k in e.keys):
            # {'tag': 1, **data}: the data merged with other entries -- a transformation of the data like any call
            unpacked = [self._expr(v, env, imports, fn, depth) for k, v in zip(e.keys, e.values) if k is None]
            extra = [norm(k) for k in e.keys if k is not None]
            return V("call", "{" + ", ".join(extra) + ", **data} (entries merged into the dictionary)", unpacked, {}, node=e)
        if isinstance(e, ast.BinOp) and isinstance(e.op, ast.BitOr):
            pass
        if isinstance(e, ast.JoinedStr):
            return V("unknown", norm(e), node=e)
        return V("unknown", norm(e)[:60], node=e)


class Stage:
    def __init__(self, name, args=None, kwargs=None, node=None, extra=None):
        self.name, self.args, self.kwargs, self.node, self.extra = name, args or [], kwargs or {}, node, extra

    def __repr__(self):
        a = ", ".join(map(repr, self.args))
        k = ", ".join(f"{k}={v!r}" for k, v in self.kwargs.items())
        return f"{self.name}({a}{', ' if a and k else ''}{k})" + (f" {self.extra}" if self.extra else "")


def contains_param(v: V, name) -> bool:
    if v is None or not isinstance(v, V):
        return False
    if v.kind == "param":
        return v.a == name
    for x in (v.a, v.b, v.c):
        if isinstance(x, V) and contains_param(x, name):
            return True
        if isinstance(x, (list, tuple)):
            for y in x:
                if isinstance(y, V) and contains_param(y, name):
                    return True
                if isinstance(y, (list, tuple)):
                    for z in y:
                        if isinstance(z, V) and contains_param(z, name):
                            return True
                if isinstance(y, dict):
                    for z in y.values():
                        if contains_param(z, name):
                            return True
        if isinstance(x, dict):
            for y in x.values():
                if contains_param(y, name):
                    return True
    return False


def linearise(v: V, param: str):
    """Stages applied to the parameter, innermost first.  Raises AnalysisError for
    shapes that are not a chain through the data."""
    stages = []

    def walk(x):
        if x.kind == "param":
            if x.a != param:
                raise AnalysisError(f"value flows from {x.a}, not from {param}")
            return
        if x.kind == "call":
            data = [a for a in x.b if _is_data(a, param)]
            if len(data) != 1 or x.b.index(data[0]) != 0:
                raise AnalysisError(f"call {x.a} does not take the data as its first argument")
            walk(data[0])
            stages.append(Stage(x.a, x.b[1:], x.c, x.node))
            return
        if x.kind == "method":
            recv = x.b
            # streaming (de)compressor used for one shot: zlib.decompressobj().decompress(data, n)
            if recv.kind == "call" and recv.a in ("zlib.decompressobj", "zlib.compressobj") and x.a in ("decompress", "compress") and x.c[0]:
                walk(x.c[0][0])
                stages.append(Stage("zlib." + x.a, list(x.c[0][1:]) + list(recv.b), dict(x.c[1], **(recv.c or {})), x.node))
                return
            if not _is_data(recv, param):
                raise AnalysisError(f"method {x.a} is not applied to the data")
            walk(recv)
            stages.append(Stage("." + x.a, x.c[0], x.c[1], x.node))
            return
        if x.kind == "concat":
            # padding:  data + "=" * n     (n may be conditional)
            if _is_data(x.a, param) and not _is_data(x.b, param):
                walk(x.a)
                stages.append(Stage("pad", [x.b], {}, x.node))
                return
            raise AnalysisError("concatenation that is not 'data + padding'")
        if x.kind == "ite":
            # conditional padding:  (data + pad) if cond else data
            t, a, b = x.a, x.b, x.c
            for with_pad, plain in ((a, b), (b, a)):
                if with_pad.kind == "concat" and repr(with_pad.a) == repr(plain):
                    walk(plain)
                    stages.append(Stage("pad", [with_pad.b], {"cond": t, "cond_selects_pad": with_pad is a}, x.node))
                    return
            raise AnalysisError("conditional value that is not the padding restoration: the data takes different routes")
        raise AnalysisError(f"value of kind {x.kind} ({x!r}) in the data path")

    walk(v)
    return stages


def _is_data(v, param):
    """Does *v* carry the data itself (not merely its length)?"""
    if v is None or not isinstance(v, V):
        return False
    if v.kind == "param":
        return v.a == param
    if v.kind == "call" and v.a == "len":
        return False
    if v.kind == "const":
        return False
    for x in (v.a, v.b, v.c):
        if isinstance(x, V) and _is_data(x, param):
            return True
        if isinstance(x, (list, tuple)):
            for y in x:
                if isinstance(y, V) and _is_data(y, param):
                    return True
                if isinstance(y, (list, tuple)) and any(isinstance(z, V) and _is_data(z, param) for z in y):
                    return True
                if isinstance(y, dict) and any(_is_data(z, param) for z in y.values()):
                    return True
        if isinstance(x, dict) and any(_is_data(z, param) for z in x.values()):
            return True
    return False


def int_eval(v: V, r: int):
    """Integer value of a padding-count expression when len(data) % 4 == r (None if not understood)."""
    if v.kind == "const" and isinstance(v.a, int) and not isinstance(v.a, bool):
        return v.a
    if v.kind == "call" and v.a == "len":
        return ("len", r)
    if v.kind == "ite":
        t = int_eval(v.a, r)
        t = _truth(t)
        if t is None:
            return None
        return int_eval(v.b if t else v.c, r)
    if v.kind == "binop":
        if v.a.startswith("U"):
            x = int_eval(v.c, r)
            if isinstance(x, tuple):
                return ("len", (-x[1]) % 4)  # -len is congruent to -r mod 4
            return None if x is None else -x
        a, b = int_eval(v.b, r), int_eval(v.c, r)
        if a is None or b is None:
            return None
        if v.a == "Mod" and isinstance(a, tuple) and b == 4:
            return a[1] % 4
        if isinstance(a, tuple) or isinstance(b, tuple):
            return None
        try:
            return {"Add": a + b, "Sub": a - b, "Mult": a * b, "Mod": a % b if b else None, "FloorDiv": a // b if b else None,
                    "NotEq": int(a != b), "Eq": int(a == b), "Gt": int(a > b), "Lt": int(a < b), "GtE": int(a >= b), "LtE": int(a <= b)}.get(v.a)
        except Exception:
            return None
    if v.kind == "concat":
        a, b = int_eval(v.a, r), int_eval(v.b, r)
        if isinstance(a, int) and isinstance(b, int):
            return a + b
    return None


def _truth(x):
    if x is None or isinstance(x, tuple):
        return None
    return bool(x)


def pad_count(v: V, r: int, cond=None, cond_selects_pad=True):
    """Number of '=' appended by a pad stage when len % 4 == r (None if not understood)."""
    if cond is not None:
        t = _truth(int_eval(cond, r))
        if t is None:
            return None
        if t != cond_selects_pad:
            return 0
    # "=" * n   |  "" | conditional of those
    if v.kind == "const" and isinstance(v.a, str):
        return len(v.a) if set(v.a) <= {"="} else None
    if v.kind == "binop" and v.a == "Mult":
        s, n = (v.b, v.c) if v.b.kind == "const" and isinstance(v.b.a, str) else (v.c, v.b)
        if s.kind == "const" and s.a == "=":
            k = int_eval(n, r)
            return k if isinstance(k, int) else None
        return None
    if v.kind == "ite":
        t = _truth(int_eval(v.a, r))
        if t is None:
            return None
        return pad_count(v.b if t else v.c, r)
    return None
