"""Own CRC-32 (IEEE 802.3, reflected, as zlib.crc32) — oracle for hash checks.
Cross-checked against zlib at import time so that a typo here cannot pass."""

_POLY = 0xEDB88320
_TABLE = []
for _i in range(256):
    _c = _i
    for _ in range(8):
        _c = (_c >> 1) ^ (_POLY if _c & 1 else 0)
    _TABLE.append(_c)


def crc32(data: bytes) -> int:
    crc = 0xFFFFFFFF
    for b in data:
        crc = _TABLE[(crc ^ b) & 0xFF] ^ (crc >> 8)
    return crc ^ 0xFFFFFFFF


def signed_crc32(text: str) -> int:
    v = crc32(text.encode("utf-8"))
    return v - (1 << 32) if v & 0x80000000 else v


def selftest():
    import zlib

    for s in (b"", b"a", b"StructureBattery", bytes(range(256))):
        if crc32(s) != zlib.crc32(s):
            raise RuntimeError("own CRC-32 disagrees with zlib")
    if signed_crc32("StructureAccessBridge") != 1298920475:
        raise RuntimeError("own signed CRC-32 self-test failed")


selftest()
