"""IC10 instruction signatures — trusted oracle data, written from the game's
instruction reference (Stationpedia "IC10" pages), NOT derived from the
repository.  opcode -> (number of input operands, writes an output register).
The output register, when present, is the first operand in IC10 text.

Cross-checked on every run against webapp/src/ic10.json (name set) so that it
cannot drift silently.
"""

ISA = {}


def _add(op, n_in, out):
    ISA[op] = (n_in, out)


# misc
_add("alias", 2, False)
_add("define", 2, False)
_add("hcf", 0, False)
_add("sleep", 1, False)
_add("yield", 0, False)
# arithmetic
for _op in ("abs", "ceil", "exp", "floor", "log", "round", "sqrt", "trunc",
            "acos", "asin", "atan", "cos", "sin", "tan", "move", "not"):
    _add(_op, 1, True)
for _op in ("add", "div", "pow", "max", "min", "mod", "mul", "sub", "atan2",
            "and", "nor", "or", "xor", "sla", "sll", "sra", "srl"):
    _add(_op, 2, True)
_add("rand", 0, True)
_add("lerp", 3, True)
_add("ext", 3, True)   # ext r? a b c
_add("ins", 3, True)   # ins r? a b c (r? is read and written)
_add("select", 3, True)
# stack
_add("clr", 1, False)
_add("clrd", 1, False)
_add("get", 2, True)
_add("getd", 2, True)
_add("peek", 0, True)
_add("poke", 2, False)
_add("pop", 0, True)
_add("push", 1, False)
_add("put", 3, False)
_add("putd", 3, False)
# device io
_add("l", 2, True)
_add("lr", 3, True)
_add("ls", 3, True)
_add("s", 3, False)
_add("ss", 4, False)
_add("rmap", 2, True)  # rmap r? d? reagentHash
_add("lb", 3, True)
_add("lbn", 4, True)
_add("lbns", 5, True)
_add("lbs", 4, True)
_add("sb", 3, False)
_add("sbn", 4, False)
_add("sbs", 4, False)
# set-on-condition
_add("sdns", 1, True)
_add("sdse", 1, True)
for _c in ("eq", "ge", "gt", "le", "lt", "ne"):
    _add("s" + _c, 2, True)
    _add("s" + _c + "z", 1, True)
    for _pre, _suf in (("b", ""), ("br", ""), ("b", "al")):
        _add(_pre + _c + _suf, 3, False)
        _add(_pre + _c + "z" + _suf, 2, False)
for _c in ("ap", "na"):
    _add("s" + _c, 3, True)
    _add("s" + _c + "z", 2, True)
    for _pre, _suf in (("b", ""), ("br", ""), ("b", "al")):
        _add(_pre + _c + _suf, 4, False)
        _add(_pre + _c + "z" + _suf, 3, False)
_add("snan", 1, True)
_add("snanz", 1, True)
_add("bnan", 2, False)
_add("brnan", 2, False)
# jumps
_add("j", 1, False)
_add("jal", 1, False)
_add("jr", 1, False)
# device-set branches: <device> <target>
for _op in ("bdns", "bdnsal", "bdse", "bdseal", "brdns", "brdse"):
    _add(_op, 2, False)
_add("bdnvl", 3, False)
_add("bdnvs", 3, False)

# opcodes after which execution never continues at the next line
NO_FALL_THROUGH = {"j", "jr", "hcf"}

# index (among the inputs) of the jump-target operand
def target_index(op):
    if op in ("j", "jal", "jr"):
        return 0
    if op in ISA and op.startswith("b") and not ISA[op][1]:
        return ISA[op][0] - 1
    return None


REGISTERS = ["r%d" % i for i in range(16)] + ["sp", "ra"]
DEVICES = ["d%d" % i for i in range(6)] + ["db"]


# Operand kinds of the device / slot / batch / stack access instructions, in the order IC10
# writes them after the output register (trusted data, from the game's instruction reference).
ACCESS_KINDS = {
    "l": ["device", "logicType"],
    "s": ["device", "logicType", "value"],
    "ls": ["device", "slotIndex", "slotType"],
    "ss": ["device", "slotIndex", "slotType", "value"],
    "lb": ["deviceHash", "logicType", "batchMode"],
    "lbn": ["deviceHash", "nameHash", "logicType", "batchMode"],
    "lbs": ["deviceHash", "slotIndex", "slotType", "batchMode"],
    "lbns": ["deviceHash", "nameHash", "slotIndex", "slotType", "batchMode"],
    "sb": ["deviceHash", "logicType", "value"],
    "sbn": ["deviceHash", "nameHash", "logicType", "value"],
    "sbs": ["deviceHash", "slotIndex", "slotType", "value"],
    "get": ["device", "address"],
    "getd": ["device", "address"],
    "put": ["device", "address", "value"],
    "putd": ["device", "address", "value"],
    "poke": ["address", "value"],
}
