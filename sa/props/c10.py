"""C10 — compile_code always returns a verdict, promptly, and cleans up (R10.a–e)."""
from __future__ import annotations

import ast
from ..model import Repo, AnalysisError, norm, enclosing_def
from ..report import Check
from ..cfg import CFG, ReachingDefs, default_exc_model

# calls that cannot raise for the stated input domain (src: str | dict[str,str] with key "", options:
# CompileOptions | dict of field names | None)
TOTAL_FUNCS = {"isinstance", "hasattr", "len", "str", "bool", "int", "copy.copy", "copy.deepcopy", "dataclasses.replace",
               "CompileOptions", "set_output_mode", "Compiler", "time", "list", "tuple", "dict", "set", "sorted", "reversed", "enumerate", "iter", "zip"}
TOTAL_METHODS = {"strip", "lstrip", "rstrip", "startswith", "endswith", "split", "splitlines", "replace", "lower", "upper",
                 "partition", "rpartition", "removeprefix", "removesuffix", "find", "get", "items", "keys", "values", "casefold"}
WAIT_METHODS = {"communicate", "wait"}
# functions / methods known to raise for some arguments of the stated input domain
PARTIAL_FUNCS = {"float", "open", "json.loads", "json.load", "next", "min", "max", "getattr", "eval", "exec", "ord", "chr", "base64.b64decode"}
PARTIAL_METHODS = {"index", "remove", "pop", "decode", "encode", "format", "join"}


def _ancestors(node):
    n = getattr(node, "parent", None)
    while n is not None:
        yield n
        n = getattr(n, "parent", None)


def _partial_ops_of_repo_function(repo, mod, name):
    """[text] of the operations in the body of the repository function *name* (as seen from *mod*) that can raise: calls that are not in the
    table of total functions, subscripts, arithmetic, raise.  None if *name* is not a function of the repository."""
    got = repo.lookup(mod, name)
    if not got or not isinstance(got[1], ast.FunctionDef):
        return None
    fn = got[1]
    out = []
    for x in ast.walk(fn):
        if isinstance(x, ast.Call):
            f = norm(x.func)
            if f in TOTAL_FUNCS and f not in ("CompileOptions", "Compiler") or isinstance(x.func, ast.Attribute) and x.func.attr in TOTAL_METHODS or f in ("print", "logger.info", "logger.debug"):
                continue
            if f == "time.time" or f.startswith("logger."):
                continue
            out.append(norm(x)[:40])
        elif isinstance(x, ast.Subscript) and isinstance(x.ctx, ast.Load) and not isinstance(getattr(x, "parent", None), (ast.AnnAssign, ast.arg)) \
                and not _in_annotation(x):
            out.append(norm(x)[:40])
        elif isinstance(x, ast.Raise):
            out.append("raise")
    return out


def _in_annotation(node):
    p = getattr(node, "parent", None)
    c = node
    while p is not None:
        if isinstance(p, ast.arg) and p.annotation is c:
            return True
        if isinstance(p, ast.AnnAssign) and p.annotation is c:
            return True
        if isinstance(p, (ast.FunctionDef, ast.AsyncFunctionDef)) and p.returns is c:
            return True
        c, p = p, getattr(p, "parent", None)
    return False


def catch_all(h: ast.ExceptHandler):
    if h.type is None:
        return True
    names = [norm(h.type)] if not isinstance(h.type, ast.Tuple) else [norm(e) for e in h.type.elts]
    return any(n in ("Exception", "BaseException") for n in names)


def run(repo: Repo, chk: Check):
    chk.rule("R10.a", "every call in compile_code outside a catch-all try is total on the stated input domain, setattr names are "
                      "proven dataclass fields, Compiler.compile is one try whose handlers (catch-all last) return error "
                      "dictionaries and do not dereference optional parts of the exception unguarded", floor=10)
    chk.rule("R10.b", "every child process is, on every path out of the creating function (returns and raises), reaped after "
                      "a normal wait or killed (not merely terminated) and then waited for", floor=1)
    chk.rule("R10.c", "every wait on a live child carries a positive literal timeout; an unbounded wait follows kill()", floor=1)
    chk.rule("R10.d", "some pass before code generation rejects unsupported node types while visiting the whole tree", floor=1)
    chk.rule("R10.e", "every while loop reachable from compile_code is a parent-chain walk or a progress-or-raise worklist (audited inventory)", floor=5)
    r10a(repo, chk)
    r10bc(repo, chk)
    r10d(repo, chk)
    r10e(repo, chk)
    chk.rule("R10.f", "an error reported for this text is made from this text: nothing cached across compilations holds an exception or syntax-tree node "
                      "(the constexpr cache stores decoded results only; shared with R11.f)", floor=1)
    from .c11 import cache_values
    chk.guarded(cache_values, repo, chk, "R10.f")


def _occurs(sep, x, guards, depth=0):
    """Do the guards (list of (test, polarity), already split over and/or/not) show that the string constant *sep* occurs in
    the expression *x*?"""
    if depth > 3 or not isinstance(sep, str) or not sep:
        return False
    xt = norm(x)
    norm_guards = []
    for t, p in guards:
        # 'a not in b' is False  ==  'a in b' is True;  'not e' is False == e is True
        if isinstance(t, ast.Compare) and len(t.ops) == 1 and isinstance(t.ops[0], ast.NotIn):
            t, p = ast.Compare(left=t.left, ops=[ast.In()], comparators=t.comparators), not p
        if isinstance(t, ast.UnaryOp) and isinstance(t.op, ast.Not):
            t, p = t.operand, not p
        norm_guards.append((t, p))
    guards = norm_guards
    for t, p in guards:
        if not p:
            continue
        if isinstance(t, ast.Compare) and len(t.ops) == 1 and isinstance(t.ops[0], ast.In) and isinstance(t.left, ast.Constant) and isinstance(t.left.value, str) \
                and sep in t.left.value and norm(t.comparators[0]) == xt and t.left.value == sep:
            return True
        if isinstance(t, ast.Call) and isinstance(t.func, ast.Attribute) and t.func.attr in ("startswith", "endswith") and norm(t.func.value) == xt and t.args \
                and isinstance(t.args[0], ast.Constant) and isinstance(t.args[0].value, str) and sep in t.args[0].value:
            return True
    # x = Y.split(s1, 1)[1] with Y.startswith(s1), s1 one character that sep does not begin with: x is Y without its first
    # character, and an occurrence of sep in Y cannot start at that character
    if isinstance(x, ast.Subscript) and isinstance(x.slice, ast.Constant) and x.slice.value == 1 and isinstance(x.value, ast.Call) and isinstance(x.value.func, ast.Attribute) \
            and x.value.func.attr == "split" and len(x.value.args) == 2 and isinstance(x.value.args[0], ast.Constant) and isinstance(x.value.args[0].value, str) \
            and isinstance(x.value.args[1], ast.Constant) and x.value.args[1].value == 1:
        s1, y = x.value.args[0].value, x.value.func.value
        if len(s1) == 1 and sep[0] != s1:
            starts = any(p and isinstance(t, ast.Call) and isinstance(t.func, ast.Attribute) and t.func.attr == "startswith" and norm(t.func.value) == norm(y) and t.args
                         and isinstance(t.args[0], ast.Constant) and t.args[0].value == s1 for t, p in guards)
            if starts and _occurs(sep, y, guards, depth + 1):
                return True
    # x = Y.strip(): whitespace is removed at the ends only; a sep without leading / trailing whitespace that occurs in Y occurs in x
    if isinstance(x, ast.Call) and isinstance(x.func, ast.Attribute) and x.func.attr in ("strip", "lstrip", "rstrip") and not x.args and sep == sep.strip():
        if _occurs(sep, x.func.value, guards, depth + 1):
            return True
    # x = Y[1:] with Y.startswith(c), c one character that sep does not begin with: same argument
    if isinstance(x, ast.Subscript) and isinstance(x.slice, ast.Slice) and x.slice.upper is None and x.slice.step is None \
            and isinstance(x.slice.lower, ast.Constant) and x.slice.lower.value == 1:
        y = x.value
        for t, p in guards:
            if p and isinstance(t, ast.Call) and isinstance(t.func, ast.Attribute) and t.func.attr == "startswith" and norm(t.func.value) == norm(y) and t.args \
                    and isinstance(t.args[0], ast.Constant) and isinstance(t.args[0].value, str) and len(t.args[0].value) == 1 and sep[0] != t.args[0].value:
                if _occurs(sep, y, guards, depth + 1):
                    return True
    return False


def _resolve_local(e, cfg, nid, depth=0):
    """a local bound once -> the expression it was bound to (for the occurrence proofs)"""
    if isinstance(e, ast.Name) and depth < 3:
        rd = ReachingDefs(cfg) if not hasattr(cfg, "_rd_cache") else cfg._rd_cache
        cfg._rd_cache = rd
        ds = rd.at(nid, e.id)
        if len(ds) == 1 and ds[0].kind == "assign" and not ds[0].index and ds[0].value is not None:
            return _resolve_local(ds[0].value, cfg, ds[0].node, depth + 1)
    if isinstance(e, ast.Subscript) and isinstance(e.value, ast.Name) and depth < 3:
        inner = _resolve_local(e.value, cfg, nid, depth + 1)
        if inner is not e.value:
            return ast.Subscript(value=inner, slice=e.slice, ctx=ast.Load())
    return e


def _split_index_safe(sub, guards):
    v = sub.value
    if not (isinstance(v, ast.Call) and isinstance(v.func, ast.Attribute) and v.args and isinstance(v.args[0], ast.Constant) and isinstance(v.args[0].value, str)):
        return False
    if v.func.attr in ("partition", "rpartition") and sub.slice.value in (0, 1, 2):
        return True       # always three parts
    if v.func.attr in ("split", "rsplit"):
        if sub.slice.value == 0:
            return True   # split always yields at least one part
        if sub.slice.value != 1:
            return False  # one proven occurrence gives two parts, not three
        return _occurs(v.args[0].value, v.func.value, guards)
    return False


# ---------------------------------------------------------------------- R10.a
def r10a(repo, chk):
    cm = repo.mod("compiler")
    fn = cm.anchor("compile_code")
    chk.saw("compiler", "compile_code")
    cfg = CFG(fn)
    from .c15 import option_fields

    fields = option_fields(repo)
    unknown = []
    guarded_try = set()
    for t in ast.walk(fn):
        if isinstance(t, ast.Try) and any(catch_all(h) for h in t.handlers):
            for st in t.body:
                for x in ast.walk(st):
                    guarded_try.add(id(x))
    for n in cfg.nodes:
        if n.ast is None or n.id not in cfg.reachable() or n.kind not in ("stmt", "test", "iter", "return", "with"):
            continue
        for c in ast.walk(n.ast):
            if id(c) in guarded_try:
                continue
            where = f"{cm.path}:{getattr(c, 'lineno', fn.lineno)} in compile_code"
            if isinstance(c, ast.Call):
                f = norm(c.func)
                key = f"compiler:compile_code:call {norm(c)[:70]}"
                if f == "setattr":
                    from .c15 import _is_field_set, Scanner
                    sc_ = Scanner(repo)
                    # where the (name, value) pair is decided: the call itself, or the statements that fill the dictionary it is applied from
                    eff = [vc for vn, vc in sc_.sites if getattr(vc, "virtual_for", None) is not None and norm(vc.virtual_for) == norm(c)]
                    places = []
                    for vc in eff:
                        ids_ = [x.id for x in cfg.nodes_of(vc.parent)]
                        if ids_:
                            places.append((ids_[0], vc))
                    if not places:
                        places = [(n.id, c)]
                    g, ok = [], True
                    for at, site in places:
                        g += [(norm(t), p) for t, p in cfg.guards(at) if isinstance(t, ast.expr)]
                        def same_value(tested, used, used_at):
                            """the name that was tested and the name that is used hold the same value: same name, or the used one is a copy
                            of the tested one taken while the tested definitions were still in force"""
                            if norm(tested) == norm(used):
                                return True
                            if isinstance(tested, ast.Name) and isinstance(used, ast.Name):
                                ds_u = sc_.rd.at(used_at, used.id)
                                tids = [x.id for x in sc_.cfg.nodes_of(tested)]
                                if len(ds_u) == 1 and ds_u[0].kind == "assign" and isinstance(ds_u[0].value, (ast.Name, ast.Tuple)) and tids:
                                    src = ds_u[0].value
                                    if isinstance(src, ast.Tuple) and ds_u[0].index and len(ds_u[0].index) == 1 and ds_u[0].index[0] < len(src.elts):
                                        src = src.elts[ds_u[0].index[0]]
                                    if isinstance(src, ast.Name) and src.id == tested.id:
                                        a_ = {id(d) for d in sc_.rd.at(ds_u[0].node, tested.id)}
                                        b_ = {id(d) for d in sc_.rd.at(tids[0], tested.id)}
                                        return bool(a_) and a_ == b_
                            return False
                        ok = ok and any(p and isinstance(t, ast.Compare) and len(t.ops) == 1 and isinstance(t.ops[0], ast.In) and same_value(t.left, site.args[1], at)
                                        and _is_field_set(repo, sc_, t.comparators[0], set(fields)) for t, p in cfg.guards(at))
                    hasattr_guard = any(p and t.startswith("hasattr(") for t, p in g)
                    if not ok and not hasattr_guard and not any(" in " in t for t, p in g):
                        unknown.append(f"setattr({norm(c.args[0])}, {norm(c.args[1])}, …) with guards {g}")
                        continue
                    chk.judge("R10.a", key, ok,
                              f"setattr with a name that is not proven to be a dataclass field can raise (e.g. '__class__'); guards: {g}", None, where)
                elif f in TOTAL_FUNCS or (isinstance(c.func, ast.Attribute) and c.func.attr in TOTAL_METHODS) or (
                        f == "map" and len(c.args) == 2 and norm(c.args[0]).startswith("str.") and norm(c.args[0])[4:] in TOTAL_METHODS):
                    if f == "CompileOptions" and c.keywords and any(k.arg is None for k in c.keywords):
                        chk.assume("compile_code(options=dict): the dict's keys are CompileOptions field names (stated input domain)")
                    # a function of the repository that the table calls total: its body must still be (assignments of its arguments, nothing
                    # that can raise for an argument of any type)
                    risky = _partial_ops_of_repo_function(repo, cm, f) if isinstance(c.func, ast.Name) else None
                    if risky:
                        chk.bad("R10.a", key, f"{f} is called outside any catch-all try, and its body does {risky}: for some values of the argument "
                                              f"(a 'compact' option that is not a bool, ...) it raises and the exception leaves compile_code", {"callee": f}, where)
                    else:
                        chk.ok("R10.a", key, {"callee": f})
                elif isinstance(c.func, ast.Attribute) and c.func.attr == "compile" and isinstance(c.func.value, ast.Call) and norm(c.func.value.func) == "Compiler":
                    chk.ok("R10.a", key, {"callee": "Compiler.compile (containment checked separately)"})
                elif isinstance(c.func, ast.Attribute) and c.func.attr in ("index", "rindex") and c.args and isinstance(c.args[0], ast.Constant) and isinstance(c.args[0].value, str) \
                        and _occurs(c.args[0].value, _resolve_local(c.func.value, cfg, n.id), [(t_, p_) for t_, p_ in cfg.guards(n.id) if isinstance(t_, ast.expr)]):
                    chk.ok("R10.a", key, {"callee": f, "why": "the tests on the path show that the text occurs"})
                elif f in PARTIAL_FUNCS or (isinstance(c.func, ast.Attribute) and c.func.attr in PARTIAL_METHODS):
                    chk.bad("R10.a", key, f"call of {f} outside any catch-all try can raise for some inputs (it is a partial function): the exception would leave compile_code", None, where)
                else:
                    unknown.append(f)
            elif isinstance(c, ast.Subscript) and isinstance(c.ctx, ast.Load):
                key = f"compiler:compile_code:subscript {norm(c)}"
                ok = False
                if isinstance(c.slice, ast.Slice):
                    ok = True
                elif isinstance(c.slice, ast.Constant) and isinstance(c.slice.value, int):
                    # guarded by len(x) < k -> continue
                    for t, p in cfg.guards(n.id):
                        if isinstance(t, ast.Compare) and norm(t.left) == f"len({norm(c.value)})" and len(t.ops) == 1 and isinstance(t.comparators[0], ast.Constant):
                            k = t.comparators[0].value
                            if isinstance(t.ops[0], ast.Lt) and not p and c.slice.value < k:
                                ok = True
                            if isinstance(t.ops[0], ast.GtE) and p and c.slice.value < k:
                                ok = True
                if not ok and isinstance(c.slice, ast.Constant) and c.slice.value in (0, 1, 2):
                    # <X>.split(sep, 1)[1] / .partition(sep)[..]: fine when the tests on the path show that sep occurs in X
                    ok = _split_index_safe(c, [(t, p) for t, p in cfg.guards(n.id) if isinstance(t, ast.expr)])
                elif isinstance(c.slice, ast.Constant) and c.slice.value == "":
                    par = getattr(c, "parent", None)
                    ok = isinstance(par, ast.IfExp) and (par.body is c and norm(par.test).startswith("isinstance(") or
                                                         par.orelse is c and norm(par.test).startswith("not isinstance("))
                    for t, p in cfg.guards(n.id):
                        if isinstance(t, ast.expr) and norm(t).startswith("isinstance(") and p:
                            ok = True
                    chk.assume("a dict passed as src has the key '' (stated input domain)")
                chk.judge("R10.a", key, ok, "subscript outside any catch-all try may raise IndexError/KeyError", None, where)
            elif isinstance(c, ast.Raise):
                chk.bad("R10.a", f"compiler:compile_code:raise {norm(c)[:50]}", "compile_code raises", None, where)
            elif isinstance(c, ast.Assign) and len(c.targets) == 1 and isinstance(c.targets[0], (ast.Tuple, ast.List)) and isinstance(c.value, ast.Call) \
                    and isinstance(c.value.func, ast.Attribute) and c.value.func.attr in ("split", "rsplit", "partition", "rpartition"):
                # a, b = X.split(sep): the number of parts must be fixed
                k = len(c.targets[0].elts)
                v = c.value
                key = f"compiler:compile_code:unpack {norm(c)[:70]}"
                if v.func.attr in ("partition", "rpartition"):
                    chk.judge("R10.a", key, k == 3, f"{v.func.attr} yields three parts, {k} names are bound", None, where)
                else:
                    maxsplit = v.args[1].value if len(v.args) > 1 and isinstance(v.args[1], ast.Constant) else None
                    sep = v.args[0].value if v.args and isinstance(v.args[0], ast.Constant) else None
                    gs = [(t_, p_) for t_, p_ in cfg.guards(n.id) if isinstance(t_, ast.expr)]
                    ok_ = maxsplit == k - 1 and k == 2 and isinstance(sep, str) and _occurs(sep, _resolve_local(v.func.value, cfg, n.id), gs)
                    chk.judge("R10.a", key, ok_,
                              f"'{norm(c)[:60]}' binds {k} names to the result of split" + (" without a limit on the number of parts" if maxsplit is None else f" limited to {maxsplit + 1} parts")
                              + ": a text with another number of separators raises ValueError outside any handler, compile_code does not return a verdict", None, where)
    if unknown and not chk.findings:
        raise AnalysisError(f"compile_code calls {sorted(set(unknown))} outside any catch-all try: not in the table of total / partial functions, cannot be classified")
    # Compiler.compile containment
    comp = cm.anchor("Compiler.compile")
    chk.saw("compiler", "Compiler.compile")
    wherec = f"{cm.path}:{comp.lineno} in Compiler.compile"
    tries = [st for st in comp.body if isinstance(st, ast.Try)]
    others = [st for st in comp.body if not isinstance(st, ast.Try) and not (isinstance(st, ast.Expr) and isinstance(st.value, ast.Constant))]
    other_bad = []
    for st in others:
        if isinstance(st, ast.Expr) and isinstance(st.value, ast.Call) and norm(st.value.func) in ("time",):
            continue
        other_bad.append(norm(st)[:50])
    ok = len(tries) == 1 and not other_bad and bool(tries[0].handlers) and catch_all(tries[0].handlers[-1]) and not tries[0].finalbody
    chk.judge("R10.a", "compiler:Compiler.compile:one try with a final catch-all", ok,
              f"body outside the try: {other_bad}; handlers: {[norm(h.type) if h.type is not None else 'bare' for t in tries for h in t.handlers]}", None, wherec)
    if tries:
        ccfg = CFG(comp)
        for h in tries[0].handlers:
            hname = norm(h.type) if h.type is not None else "bare"
            # returns an error dictionary
            rets = [r for r in ast.walk(h) if isinstance(r, ast.Return)]
            good = bool(rets)
            for r in rets:
                v = r.value
                if isinstance(v, ast.Name):
                    defs = [a for a in ast.walk(h) if isinstance(a, ast.Assign) and any(norm(t) == v.id for t in a.targets)]
                    v = defs[0].value if defs else v
                good = good and isinstance(v, ast.Dict) and any(isinstance(k, ast.Constant) and k.value == "error" for k in v.keys)
            chk.judge("R10.a", f"compiler:Compiler.compile:handler {hname} returns an error dictionary", good,
                      "handler does not end in returning {'error': ...}", None, f"{cm.path}:{h.lineno}")
            # positions taken from the exception may be None (SyntaxError.offset / lineno): no arithmetic or indexing without a None test
            if h.name:
                for op_ in ast.walk(h):
                    operands = []
                    if isinstance(op_, ast.BinOp):
                        operands = [op_.left, op_.right]
                    elif isinstance(op_, ast.UnaryOp) and isinstance(op_.op, ast.USub):
                        operands = [op_.operand]
                    elif isinstance(op_, ast.Call) and norm(op_.func) in ("int", "max", "min", "abs", "len", "range"):
                        operands = list(op_.args)
                    for x in operands:
                        if isinstance(x, ast.Attribute) and norm(x).startswith(h.name + ".") and x.attr in ("lineno", "offset", "end_lineno", "end_offset", "col_offset", "end_col_offset"):
                            ids = [y.id for y in ccfg.nodes_of(x)]
                            g = []
                            for i in ids:
                                g += [(norm(t), p) for t, p in ccfg.guards(i) if isinstance(t, ast.expr)]
                            from .shared import expr_guards
                            g += [(norm(t), p) for t, p in expr_guards(x, h)]
                            tx = norm(x)
                            okn = any((p and t in (f"{tx} is not None", f"isinstance({tx}, int)", tx)) or ((not p) and t == f"{tx} is None") for t, p in g)
                            chk.judge("R10.a", f"compiler:Compiler.compile:handler {hname} computes with {tx} under a None test", okn,
                                      f"{norm(op_)[:60]} computes with {tx}, which is None for some errors (e.g. a NUL byte in the source): the handler itself raises "
                                      f"TypeError and the error escapes compile_code", None, f"{cm.path}:{op_.lineno}")
            # positions reported for a SyntaxError: lineno / offset point into the text; end_lineno / end_offset are 0, -1 or None for several
            # kinds of errors (unclosed bracket, missing block, trailing backslash) and may only be passed on after they were looked at
            if h.name:
                from .shared import expr_guards
                for a in ast.walk(h):
                    if isinstance(a, ast.Attribute) and a.attr in ("end_lineno", "end_offset") and isinstance(a.ctx, ast.Load) and norm(a).startswith(h.name + ".") \
                            and "error" in norm(a):
                        ids = [x.id for x in ccfg.nodes_of(a)]
                        g = []
                        for i in ids:
                            g += [(t, p) for t, p in ccfg.guards(i) if isinstance(t, ast.expr)]
                        g += list(expr_guards(a, h))
                        tx = norm(a)
                        looked_at = any(isinstance(t, ast.Compare) and tx in norm(t) and any(isinstance(o, (ast.Gt, ast.GtE, ast.Lt, ast.LtE)) for o in t.ops) for t, p in g)
                        # used inside a test itself is not passing it on
                        in_test = any(isinstance(par, (ast.Compare, ast.If, ast.IfExp)) and not (isinstance(par, ast.IfExp) and (par.body is a or par.orelse is a))
                                      for par in [getattr(a, "parent", None)])
                        if in_test:
                            continue
                        chk.judge("R10.a", f"compiler:Compiler.compile:handler {hname} passes {tx} on only after a range check", looked_at,
                                  f"{tx} goes into the verdict as it is: for an unclosed bracket, a block header without body or a trailing backslash CPython reports 0 or -1 "
                                  f"there, the reported range ends before it starts or has a negative column, which is not a position inside the submitted text",
                                  None, f"{cm.path}:{a.lineno}")
            # optional parts of the exception are dereferenced only under a guard
            if h.name:
                for a in ast.walk(h):
                    if isinstance(a, ast.Attribute) and isinstance(a.value, ast.Attribute) and isinstance(a.value.value, ast.Name) and a.value.value.id == h.name \
                            and isinstance(a.ctx, ast.Load):
                        base = norm(a.value)
                        ids = [x.id for x in ccfg.nodes_of(a)]
                        g = []
                        for i in ids:
                            g += [(norm(t), p) for t, p in ccfg.guards(i) if isinstance(t, ast.expr)]
                        from .shared import expr_guards
                        g += [(norm(t), p) for t, p in expr_guards(a, h)]
                        okg = any(p and (t == base or t.startswith(f"isinstance({base},")) for t, p in g) or any((not p) and t == f"{base} is None" for t, p in g)
                        chk.judge("R10.a", f"compiler:Compiler.compile:handler {hname} reads {norm(a)} under a guard on {base}", okg,
                                  f"{norm(a)} is read without testing {base}: for exceptions without that part the handler itself raises and "
                                  f"the error escapes compile_code", None, f"{cm.path}:{a.lineno}")


# ------------------------------------------------------------------- R10.b / c
def r10bc(repo, chk):
    n_sites = 0
    for mn in repo.CORE:
        if not repo.has_mod(mn):
            continue
        m = repo.mod(mn)
        for c in ast.walk(m.tree):
            if isinstance(c, ast.Call) and norm(c.func) in ("subprocess.Popen", "Popen"):
                n_sites += 1
                fn = enclosing_def(c)
                if fn is None:
                    chk.bad("R10.b", f"{mn}:<module>:Popen", "child process created at import time", None, f"{m.path}:{c.lineno}")
                    continue
                chk.saw(mn, fn.qual)
                typestate(repo, chk, m, fn, c)
            elif isinstance(c, ast.Call) and norm(c.func) in ("subprocess.run", "subprocess.call", "subprocess.check_output", "subprocess.check_call", "os.system"):
                n_sites += 1
                kws = {k.arg: k.value for k in c.keywords}
                t = kws.get("timeout")
                ok = isinstance(t, ast.Constant) and isinstance(t.value, (int, float)) and t.value > 0
                chk.judge("R10.c", f"{mn}:{norm(c.func)}:timeout", ok, "child process is run without a positive literal timeout", None, f"{m.path}:{c.lineno}")
    if n_sites == 0:
        raise AnalysisError("no child-process creation site found (constexpr evaluation anchor vanished)")


def typestate(repo, chk, m, fn, popen_call):
    st = popen_call
    while not isinstance(st, ast.stmt):
        st = st.parent
    if not (isinstance(st, ast.Assign) and len(st.targets) == 1 and isinstance(st.targets[0], ast.Name) and st.value is popen_call):
        chk.bad("R10.b", f"{m.name}:{fn.qual}:Popen", "Popen object is not bound to a local name: it cannot be reaped", None, f"{m.path}:{popen_call.lineno}")
        return
    var = st.targets[0].id

    def proc_calls(node):
        out = []
        for c in ast.walk(node):
            if isinstance(c, ast.Call) and isinstance(c.func, ast.Attribute) and isinstance(c.func.value, ast.Name) and c.func.value.id == var:
                out.append(c)
        return out

    def timeout_of(c):
        kws = {k.arg: k.value for k in c.keywords}
        t = kws.get("timeout")
        if t is None and c.func.attr == "communicate" and len(c.args) > 1:
            t = c.args[1]
        if t is None and c.func.attr == "wait" and c.args:
            t = c.args[0]
        return t

    def exc_model(node):
        calls = [c for c in proc_calls(node) if c.func.attr in WAIT_METHODS]
        if calls and all(timeout_of(c) is not None for c in calls):
            return {"TimeoutExpired"}
        pc = proc_calls(node)
        if pc and isinstance(node, ast.Expr) and node.value in pc and (node.value.func.attr in ("kill", "terminate") or node.value.func.attr in WAIT_METHODS):
            return set()  # clean-up calls on the own child are assumed not to fail
        return default_exc_model(node)

    cfg = CFG(fn, exc_model)
    live = cfg.reachable()
    create = [n.id for n in cfg.nodes if n.ast is st and n.id in live]
    if not create:
        raise AnalysisError("Popen statement not in the CFG")
    NONE, LIVE, TERM, KILLED, REAPED = "none", "live", "terminated", "killed", "reaped"
    state_in = {n: set() for n in live}
    state_in[cfg.entry.id] = {NONE}
    problems = []

    def transfer(nid, s):
        """state after the normal completion of node nid"""
        node = cfg.nodes[nid]
        if nid in create:
            return LIVE
        if node.ast is None or node.kind not in ("stmt", "test", "return", "iter", "with"):
            return s
        for c in proc_calls(node.ast if node.kind != "with" else ast.Module(body=[], type_ignores=[])):
            a = c.func.attr
            if a == "kill":
                s = KILLED if s in (LIVE, TERM, KILLED) else s
            elif a == "terminate":
                s = TERM if s == LIVE else s
            elif a in WAIT_METHODS:
                t = timeout_of(c)
                if t is None:
                    if s in (LIVE, TERM):
                        problems.append((nid, c, s))
                    if s in (LIVE, TERM, KILLED):
                        s = REAPED
                else:
                    if s in (LIVE, TERM, KILLED):
                        s = REAPED
        return s

    work = [cfg.entry.id]
    while work:
        a = work.pop()
        for b, lab in cfg.succ[a]:
            is_exc = isinstance(lab, tuple) and lab[0] == "exc"
            outs = set()
            for s in state_in[a]:
                outs.add(s if is_exc and a not in create else (transfer(a, s) if not is_exc else s))
            if b in state_in and not outs <= state_in[b]:
                state_in[b] |= outs
                work.append(b)
    where = f"{m.path}:{popen_call.lineno} in {fn.qual}"
    key = f"{m.name}:{fn.qual}:child {var}"
    leaks = []
    for ex, nm in ((cfg.exit.id, "return"), (cfg.xexit.id, "raise")):
        for s in sorted(state_in.get(ex, ())):
            if s in (LIVE, TERM, KILLED):
                path = cfg.witness_path(create[0], {ex}, set())
                leaks.append(f"function exits by {nm} with the child {s}")
    chk.judge("R10.b", key + ":reaped on every exit", not leaks,
              "; ".join(sorted(set(leaks))) + ": the helper process keeps running (or stays a zombie) after compile_code returned",
              {"states_at_return": sorted(state_in.get(cfg.exit.id, ())), "states_at_raise": sorted(state_in.get(cfg.xexit.id, ()))}, where)
    # R10.c waits
    waits = [c for n in cfg.nodes if n.id in live and n.ast is not None and n.kind in ("stmt", "test", "return") for c in proc_calls(n.ast) if c.func.attr in WAIT_METHODS]
    if not waits:
        chk.bad("R10.c", key + ":wait", "the child is never waited for", None, where)
    seen_problem = {id(c): s for _, c, s in problems}
    for c in waits:
        t = timeout_of(c)
        if t is None:
            s = seen_problem.get(id(c))
            chk.judge("R10.c", key + f":{norm(c)} is bounded", s is None,
                      f"unbounded {norm(c)} on a child that is {s} (user code that loops, or ignores SIGTERM, makes compile_code hang)", None, f"{m.path}:{c.lineno}")
        else:
            tv = t.value if isinstance(t, ast.Constant) else None
            if isinstance(t, ast.Name):
                # a module-level constant bound once
                from ..modconst import module_constants
                tv = module_constants(m).get(t.id)
            ok = isinstance(tv, (int, float)) and not isinstance(tv, bool) and 0 < tv <= 60
            chk.judge("R10.c", key + f":{norm(c)} is bounded", ok, f"timeout {norm(t)} is not a positive literal (<= 60 s)", {"timeout": norm(t)}, f"{m.path}:{c.lineno}")


# ---------------------------------------------------------------------- R10.d
def class_attr(repo, mod, cls, name):
    for m, c in repo.class_mro(mod, cls):
        for st in c.body:
            if isinstance(st, ast.Assign) and any(isinstance(t, ast.Name) and t.id == name for t in st.targets):
                return st.value
            if isinstance(st, ast.AnnAssign) and isinstance(st.target, ast.Name) and st.target.id == name and st.value is not None:
                return st.value
    return None


def r10d(repo, chk):
    passes = repo.passes()
    if "CompilerPassGenerateCode" not in passes:
        raise AnalysisError("CompilerPassGenerateCode not in Compiler.passes")
    before = passes[:passes.index("CompilerPassGenerateCode")]
    rejecting = []
    for p in before:
        m, c = repo.pass_class(p)
        ign = class_attr(repo, m, c, "ignore_unimplemented_nodes")
        ignv = isinstance(ign, ast.Constant) and ign.value is True
        skip = class_attr(repo, m, c, "skip_unused_nodes")
        skipv = isinstance(skip, ast.Constant) and skip.value is True
        runm = repo.method(m, c, "run")
        visit = repo.method(m, c, "_visit_node")
        if runm is None or visit is None:
            continue
        rt = norm(runm[1])
        recursive = "_visit_node_recursive(self.tree)" in rt and "_visit_node_recursive(module)" in rt
        raises = any(isinstance(x, ast.Raise) for x in ast.walk(visit[1])) and "not in self._handlers" in norm(visit[1])
        if not ignv and recursive and raises and not skipv:
            rejecting.append(p)
    chk.judge("R10.d", "compiler:passes before code generation reject unsupported nodes", bool(rejecting),
              "no pass before CompilerPassGenerateCode visits the whole tree with ignore_unimplemented_nodes == False: unsupported "
              "constructs would reach code generation", {"rejecting_passes": rejecting}, str(repo.mod("compiler").path))


# ---------------------------------------------------------------------- R10.e
AUDITED_LOOPS = {
    ("generate_code", "CompilerPassGenerateCode.handle_continue"): "parent",
    ("generate_code", "CompilerPassGenerateCode.handle_break"): "parent",
    ("types", "IC10Register.lifetime"): "parent",
    ("utils", "get_scope_name"): "parent",
    ("register_assignment", "assign_registers"): "worklist",
}
NOT_REACHABLE = {"mod_daemon", "build_types", "stationpedia", "__main__"}  # not on the compile_code path


def _is_parent_walk(loop):
    """v = v.parent (directly or through one local) unconditionally in the body, no continue: bounded by the tree depth."""
    if any(isinstance(x, ast.Continue) for x in ast.walk(loop)) or loop.orelse:
        return False
    names = {x.id for x in ast.walk(loop.test) if isinstance(x, ast.Name)}
    locals_parent = {}
    for st in loop.body:
        if isinstance(st, ast.Assign) and len(st.targets) == 1 and isinstance(st.targets[0], ast.Name):
            tgt, val = st.targets[0].id, st.value
            t = norm(val)
            for v in names:
                if t == f"{v}.parent":
                    if tgt == v:
                        return True
                    locals_parent[tgt] = v
            if tgt in names and isinstance(val, ast.Name) and locals_parent.get(val.id) == tgt:
                return True
    return False


def _is_link_walk(loop, repo):
    """while v.L is not None: v = v.L  — a walk along a link L that cannot be cyclic: every store  x.L = o  in the package happens
    right after such a walk on o (so o.L is None: o is the end of its chain) and under  o is not x.  By induction every chain ends:
    a new edge x -> o starts at a node that is not o and ends at a chain end, so it closes no cycle."""
    t = loop.test
    if not (isinstance(t, ast.Compare) and len(t.ops) == 1 and isinstance(t.ops[0], ast.IsNot) and isinstance(t.comparators[0], ast.Constant)
            and t.comparators[0].value is None and isinstance(t.left, ast.Attribute) and isinstance(t.left.value, ast.Name)):
        return False
    v, link = t.left.value.id, t.left.attr
    if len(loop.body) != 1 or norm(loop.body[0]) != f"{v} = {v}.{link}" or loop.orelse:
        return False
    from .shared import fn_ctx, live_ids, guard_atoms
    n_stores = 0
    for mn in repo.module_names():
        if mn in ("structures_generated", "types_generated"):
            continue
        m = repo.mod(mn)
        for fn in m.funcs.values():
            if not isinstance(fn, (ast.FunctionDef, ast.AsyncFunctionDef)):
                continue
            stores = [st for st in ast.walk(fn) if isinstance(st, ast.Assign) and len(st.targets) == 1 and isinstance(st.targets[0], ast.Attribute)
                      and st.targets[0].attr == link and enclosing_def(st) is fn]
            if not stores:
                continue
            cfg, rd = fn_ctx(fn)
            for st in stores:
                n_stores += 1
                if isinstance(st.value, ast.Constant) and st.value.value is None:
                    continue
                if not isinstance(st.value, ast.Name):
                    return False
                o, x = st.value.id, norm(st.targets[0].value)
                ids = live_ids(cfg, st)
                if not ids:
                    continue
                atoms = {(norm(a), p) for a, p in guard_atoms(cfg, ids[0])}
                if (f"{o}.{link} is not None", False) not in atoms or (f"{o} is not {x}", True) not in atoms:
                    return False
    return n_stores > 0


def _is_progress_loop(loop):
    """while len(A) < len(B):  every pass through the body either leaves (raise / return / break) or appends to A at least once,
    and B is not changed: A grows by one or more per iteration, so the loop ends after at most len(B) iterations."""
    t = loop.test
    if not (isinstance(t, ast.Compare) and len(t.ops) == 1 and isinstance(t.ops[0], (ast.Lt, ast.NotEq)) and isinstance(t.left, ast.Call) and norm(t.left.func) == "len"
            and isinstance(t.comparators[0], ast.Call) and norm(t.comparators[0].func) == "len" and len(t.left.args) == 1 and len(t.comparators[0].args) == 1):
        return False
    a, b = norm(t.left.args[0]), norm(t.comparators[0].args[0])
    body = ast.Module(body=loop.body, type_ignores=[])
    # B (and A, except by append) untouched
    for x in ast.walk(body):
        if isinstance(x, (ast.Assign, ast.AugAssign)):
            tg = x.targets if isinstance(x, ast.Assign) else [x.target]
            if any(norm(y) in (a, b) for y in tg):
                return False
        if isinstance(x, ast.Call) and isinstance(x.func, ast.Attribute) and norm(x.func.value) == b and x.func.attr in ("add", "update", "append", "extend", "insert"):
            return False
        if isinstance(x, ast.Call) and isinstance(x.func, ast.Attribute) and norm(x.func.value) == a and x.func.attr in ("pop", "remove", "clear"):
            return False

    # elements that are added to a SET A count only if they are taken from a difference with A (so they are new)
    fresh_elements = any((isinstance(x, ast.For) or isinstance(x, ast.comprehension)) and f"- {a}" in norm(x.iter) for x in ast.walk(body))

    def progresses(stmts):
        """True if every path through *stmts* that falls off the end has appended to A; leaving paths are fine"""
        done = False
        for st in stmts:
            if isinstance(st, (ast.Raise, ast.Return, ast.Break)):
                return True
            if isinstance(st, ast.Continue):
                return done
            if isinstance(st, ast.Expr) and isinstance(st.value, ast.Call) and isinstance(st.value.func, ast.Attribute) and st.value.func.attr in ("append", "extend") \
                    and norm(st.value.func.value) == a:
                done = True
            elif isinstance(st, ast.Expr) and isinstance(st.value, ast.Call) and isinstance(st.value.func, ast.Attribute) and st.value.func.attr == "add" \
                    and norm(st.value.func.value) == a and fresh_elements:
                done = True     # a set grows when the element is new: it is drawn from  <..> - A
            elif isinstance(st, ast.If):
                if progresses(st.body) and progresses(st.orelse) and st.orelse:
                    done = True
                elif progresses(st.body) and not st.orelse and all(isinstance(x, (ast.Raise, ast.Return, ast.Break)) for x in st.body[-1:]):
                    pass    # a guard that leaves
            elif isinstance(st, ast.For):
                # for .. : if c: A.append(x); break   else: raise
                app_break = any(isinstance(i, ast.If) and progresses(i.body) and any(isinstance(x, ast.Break) for x in i.body) for i in ast.walk(st))
                if st.orelse and progresses(st.orelse) and app_break:
                    done = True
        return done
    return progresses(loop.body)


def r10e(repo, chk):
    for mn in repo.module_names():
        if mn in ("structures_generated", "types_generated") or mn in NOT_REACHABLE:
            continue
        m = repo.mod(mn)
        # the loops of the functions in canonical form (one shape for equivalent spellings), then those at module level
        found, seen_ = [], set()
        for q_, f_ in m.funcs.items():
            if isinstance(f_, (ast.FunctionDef, ast.AsyncFunctionDef)):
                for lp_ in ast.walk(f_):
                    if isinstance(lp_, ast.While) and id(lp_) not in seen_:
                        seen_.add(id(lp_))
                        found.append((q_, lp_))
        for lp_ in ast.walk(m.tree):
            if isinstance(lp_, ast.While) and enclosing_def(lp_) is None:
                found.append(("<module>", lp_))
        for q, loop in found:
            key = f"{mn}:{q}:while {norm(loop.test)[:60]}"
            where = f"{m.path}:{loop.lineno} in {q}"
            kind = AUDITED_LOOPS.get((mn, q))
            if kind is None and _is_parent_walk(loop):
                chk.ok("R10.e", key + " [recognised: walk up the parent chain]", {"kind": "parent (auto)"})
                continue
            if kind is None and _is_link_walk(loop, repo):
                chk.ok("R10.e", key + " [recognised: walk along a link that every store keeps acyclic]", {"kind": "link (auto)"})
                continue
            if kind is None and _is_progress_loop(loop):
                chk.ok("R10.e", key + " [recognised: grows a list towards a fixed length or leaves]", {"kind": "progress (auto)"})
                continue
            if kind is None:
                chk.bad("R10.e", key, "while loop on the compile_code path that is not in the audited inventory (termination not argued)", None, where)
                continue
            if kind == "parent":
                # some name in the test is reassigned in the body to <name>.parent[...]
                names = {x.id for x in ast.walk(loop.test) if isinstance(x, ast.Name)}
                ok = False
                for st in loop.body:
                    if isinstance(st, ast.Assign) and len(st.targets) == 1 and isinstance(st.targets[0], ast.Name) and st.targets[0].id in names:
                        t = norm(st.value)
                        v = st.targets[0].id
                        if t == f"{v}.parent" or t.startswith(f"{v}.parent.scope()") :
                            ok = True
                only_simple = all(isinstance(st, (ast.Assign, ast.Expr)) for st in loop.body)
                chk.judge("R10.e", key, ok and only_simple, "loop is no longer a plain walk up the parent chain (finite tree depth)", {"kind": kind}, where)
            else:
                # progress-or-raise: body is a for/else whose else raises and whose body appends+breaks
                ok = False
                for st in loop.body:
                    if isinstance(st, ast.For) and st.orelse and any(isinstance(x, ast.Raise) for x in ast.walk(ast.Module(body=st.orelse, type_ignores=[]))):
                        has_append = any(isinstance(x, ast.Call) and norm(x.func).endswith(".append") for x in ast.walk(st))
                        has_break = any(isinstance(x, ast.Break) for x in ast.walk(st))
                        ok = has_append and has_break
                if not (ok and len(loop.body) == 1) and _is_progress_loop(loop):
                    chk.ok("R10.e", key + " [recognised: grows a collection towards a fixed size or leaves]", {"kind": "progress (auto)"})
                    continue
                chk.judge("R10.e", key, ok and len(loop.body) == 1, "worklist loop no longer makes progress or raises on every iteration", {"kind": kind}, where)
