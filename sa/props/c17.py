"""C17 — size statistics describe the emitted program (R17.a–c)."""
from __future__ import annotations

import ast
from ..model import Repo, AnalysisError, norm
from ..report import Check
from ..cfg import CFG, ReachingDefs
from ..linnorm import lin, NotLinear


def run(repo: Repo, chk: Check):
    chk.rule("R17.a", "'code', the line count and the byte count are computed from the same final string (same reaching "
                      "definitions), num_lines = len(s.splitlines()) or s.count('\\n') + 1", floor=2)
    chk.rule("R17.b", "num_bytes normalises to len(s) + num_lines - 1 (two-byte line ends)", floor=1)
    chk.rule("R17.c", "every register written into the allocation map is added to the scope's used set on the same path, "
                      "the returned set is the union over all scopes, and num_registers is its size", floor=4)
    g = repo.mod("generate_code")
    fn = g.anchor("CompilerPassGatherCode.get_code")
    chk.saw("generate_code", "CompilerPassGatherCode.get_code")
    cfg = CFG(fn)
    rd = ReachingDefs(cfg)
    where = f"{g.path}:{fn.lineno} in get_code"
    # the result dict
    results = []
    for n in cfg.nodes:
        st = n.ast
        if n.kind == "stmt" and isinstance(st, ast.Assign) and isinstance(st.value, ast.Dict) and any(
                isinstance(t, ast.Attribute) and t.attr == "result" for t in st.targets):
            results.append((n, st.value))
    if len(results) != 1:
        raise AnalysisError(f"get_code: expected one store of the result dictionary, found {len(results)}")
    rn, d = results[0]
    fields = {}
    for k, v in zip(d.keys, d.values):
        if isinstance(k, ast.Constant):
            fields[k.value] = v
    for need in ("code", "num_lines", "num_bytes", "num_registers"):
        if need not in fields:
            chk.bad("R17.a", f"generate_code:get_code:result field {need}", f"result dictionary has no field {need!r}", None, where)
    if not all(k in fields for k in ("code", "num_lines", "num_bytes", "num_registers")):
        return
    code = fields["code"]
    if not isinstance(code, ast.Name):
        raise AnalysisError("get_code: 'code' is not a plain variable")
    sname = code.id
    sdefs_at_result = {id(x) for x in rd.at(rn.id, sname)}

    def single_def(name, nid):
        ds = rd.at(nid, name)
        if len(ds) == 1 and ds[0].kind == "assign" and not ds[0].index:
            return ds[0]
        return None

    def same_s(nid):
        return {id(x) for x in rd.at(nid, sname)} == sdefs_at_result

    # num_lines
    nl = fields["num_lines"]
    candidates = [(nl, rn.id)]
    if isinstance(nl, ast.Name):
        ds = rd.at(rn.id, nl.id)
        if not ds or any(dd.kind != "assign" or dd.index or dd.value is None for dd in ds):
            raise AnalysisError("get_code: a definition of num_lines is not a plain assignment")
        candidates = [(dd.value, dd.node) for dd in ds]
    for nl_expr, nl_node in candidates:
        # one level of local names: lines = s.splitlines(); num_lines = len(lines)
        if isinstance(nl_expr, ast.Call) and norm(nl_expr.func) == "len" and len(nl_expr.args) == 1 and isinstance(nl_expr.args[0], ast.Name) \
                and nl_expr.args[0].id != sname:
            dd = single_def(nl_expr.args[0].id, nl_node)
            if dd is not None and dd.value is not None:
                nl_expr = ast.parse(f"len({norm(dd.value)})", mode="eval").body
                nl_node = dd.node
        t = norm(nl_expr)
        forms = {f"len({sname}.splitlines())": "splitlines", f"{sname}.count('\\n') + 1": "count", f"1 + {sname}.count('\\n')": "count"}
        ok_form = t in forms
        chk.judge("R17.a", "generate_code:get_code:num_lines formula", ok_form,
                  f"num_lines is {t}, expected len({sname}.splitlines()) or {sname}.count('\\n') + 1 of the string stored under 'code'", {"expr": t}, where)
        chk.judge("R17.a", "generate_code:get_code:num_lines uses the final string", same_s(nl_node),
                  f"the string {sname} is reassigned between computing num_lines and storing it under 'code'", None, where)
    # num_bytes: every combination of reaching definitions (plain and augmented) must give the formula
    nb = fields["num_bytes"]

    def alternatives(name, nid, depth=0):
        """[(list of (expr, node) summands)] for the value of *name* on entry to node nid."""
        if depth > 6:
            raise AnalysisError("get_code: num_bytes definition chain too deep")
        out = []
        for dd in rd.at(nid, name):
            if dd.kind == "assign" and not dd.index and dd.value is not None:
                out.append([(dd.value, dd.node)])
            elif dd.kind == "aug" and isinstance(dd.value.op, ast.Add):
                for alt in alternatives(name, dd.node, depth + 1):
                    out.append(alt + [(dd.value.value, dd.node)])
            else:
                raise AnalysisError(f"get_code: definition of {name} has an unrecognised shape ({dd.kind})")
        return out

    def resolver(at):
        def r(nm):
            if nm.id == sname:
                return None
            dd = single_def(nm.id, at)
            return dd.value if dd is not None else None
        return r

    if isinstance(nb, ast.Name):
        alts = alternatives(nb.id, rn.id)
    else:
        alts = [[(nb, rn.id)]]
    if not alts:
        raise AnalysisError("get_code: num_bytes has no definition")
    try:
        exp_c, exp_k = lin(nl_expr, resolver(nl_node))
        exp = dict(exp_c)
        exp[f"len({sname})"] = exp.get(f"len({sname})", 0) + 1
        exp_k -= 1
    except NotLinear:
        exp, exp_k = None, None
    def canon(e, nd):
        """Replace the recognised spellings of 'number of line ends' by the atom LINE_ENDS:
        max(num_lines - 1, 0), max(0, num_lines - 1), s.count('\\n'), (num_lines - 1 if num_lines else 0)."""
        class T(ast.NodeTransformer):
            def visit_Call(self_, c):
                self_.generic_visit(c)
                if norm(c.func) == "max" and len(c.args) == 2:
                    for a, b in ((c.args[0], c.args[1]), (c.args[1], c.args[0])):
                        if isinstance(b, ast.Constant) and b.value == 0:
                            try:
                                if lin(a, resolver(nd)) == (exp_c, exp_k_lines - 1):
                                    return ast.Name(id="LINE_ENDS", ctx=ast.Load())
                            except NotLinear:
                                pass
                if norm(c) in (f"{sname}.count('\\n')",):
                    return ast.Name(id="LINE_ENDS", ctx=ast.Load())
                return c

            def visit_IfExp(self_, c):
                self_.generic_visit(c)
                try:
                    if isinstance(c.orelse, ast.Constant) and c.orelse.value == 0 and lin(c.body, resolver(nd)) == (exp_c, exp_k_lines - 1) \
                            and lin(c.test, resolver(nd))[0] == exp_c:
                        return ast.Name(id="LINE_ENDS", ctx=ast.Load())
                except NotLinear:
                    pass
                return c
        import copy as _copy
        return T().visit(_copy.deepcopy(e))

    try:
        exp_c, exp_k_lines = lin(nl_expr, resolver(nl_node))
    except NotLinear:
        exp_c, exp_k_lines = None, 0
    good = ({f"len({sname})": 1, "LINE_ENDS": 1}, 0)
    for i, alt in enumerate(alts):
        desc = " + ".join(norm(e) for e, _ in alt)
        try:
            tot, k = {}, 0
            for e, nd in alt:
                c1, k1 = lin(canon(e, nd), lambda nm, _r=resolver(nd): None if nm.id == "LINE_ENDS" else _r(nm))
                for a, v in c1.items():
                    tot[a] = tot.get(a, 0) + v
                k += k1
            tot = {a: v for a, v in tot.items() if v != 0}
            got = (tot, k)
            ok = got == good
            unclamped = (tot, k) == (exp, exp_k)
        except NotLinear:
            ok, got, unclamped = False, None, False
        if unclamped:
            # len(s) + num_lines - 1 : right for every non-empty result, -1 for the empty one — unless a guard excludes it
            nid0 = alt[0][1]
            guarded = False
            from ..linnorm import compare_upper_bound
            for tst, pol in cfg.guards(nid0):
                if isinstance(tst, ast.expr):
                    ub = compare_upper_bound(tst, pol, resolver(nid0))
                    if ub and exp_c is not None and ub[0] == {a: -v for a, v in exp_c.items()} and ub[1] <= -1 + exp_k_lines:
                        guarded = True
            ok = guarded
        chk.judge("R17.b", f"generate_code:get_code:num_bytes formula [{desc}]", ok and ok_form,
                  (f"num_bytes = {desc} charges 'num_lines - 1' line ends also for an empty result (0 lines): it reports -1 bytes" if unclamped else
                   f"num_bytes = {desc} does not normalise to len({sname}) + <number of line ends> (max(num_lines - 1, 0) or {sname}.count('\\n')); got {got}"),
                  {"normal_form": got}, where)
        fresh = all(same_s(nd) for e, nd in alt if sname in {x.id for x in ast.walk(e) if isinstance(x, ast.Name)} or
                    any(isinstance(x, ast.Name) and x.id != sname and single_def(x.id, nd) is not None for x in ast.walk(e)))
        chk.judge("R17.a", f"generate_code:get_code:num_bytes uses the final string [{desc}]", fresh,
                  f"the string {sname} is reassigned between computing num_bytes ({desc}) and storing it under 'code'", None, where)
    # num_registers
    nr = fields["num_registers"]
    nr_expr = nr
    if isinstance(nr, ast.Name):
        dd = single_def(nr.id, rn.id)
        nr_expr = dd.value if dd is not None else nr
    t = norm(nr_expr)
    chk.judge("R17.c", "generate_code:get_code:num_registers = len(self.used_registers)", t == "len(self.used_registers)",
              f"num_registers is {t}", {"expr": t}, where)
    runf = g.func("CompilerPassGatherCode.run")
    stores = [st for st in ast.walk(runf) if isinstance(st, ast.Assign) and any(norm(x) == "self.used_registers" for x in st.targets)]
    ok = len(stores) == 1 and isinstance(stores[0].value, ast.Call) and norm(stores[0].value.func) == "assign_registers"
    chk.judge("R17.c", "generate_code:run:used_registers = assign_registers(...)", ok,
              f"self.used_registers is not the value returned by assign_registers ({[norm(s) for s in stores]})", None, f"{g.path}:{runf.lineno} in run")
    other = [norm(st) for fnn in g.funcs.values() for st in ast.walk(fnn)
             if isinstance(st, (ast.Assign, ast.AugAssign)) and fnn is not runf and any(norm(x) == "self.used_registers" for x in (st.targets if isinstance(st, ast.Assign) else [st.target]))]
    chk.judge("R17.c", "generate_code:used_registers has one writer", not other, f"other writers of self.used_registers: {other}", None, str(g.path))

    # allocation side
    ra = repo.mod("register_assignment")
    af = ra.func("assign_registers")
    chk.saw("register_assignment", "assign_registers")
    acfg = CFG(af)
    wa = f"{ra.path}:{af.lineno} in assign_registers"
    from .shared import register_roles
    map_stores = []
    for n in acfg.nodes:
        st = n.ast
        if n.kind == "stmt" and isinstance(st, ast.Assign):
            for tg in st.targets:
                if isinstance(tg, ast.Subscript) and isinstance(tg.value, ast.Name) and tg.value.id == register_roles(ra).get("mapping", "mapping"):
                    map_stores.append((n, st))
    if not map_stores:
        raise AnalysisError("assign_registers: no store into 'mapping'")
    used_sets = set()
    for n, st in map_stores:
        v = st.value
        reg = None
        if isinstance(v, ast.JoinedStr) and len(v.values) == 2 and isinstance(v.values[0], ast.Constant) and v.values[0].value == "r" \
                and isinstance(v.values[1], ast.FormattedValue):
            reg = norm(v.values[1].value)
        if reg is None:
            chk.bad("R17.c", f"register_assignment:assign_registers:{norm(st)}", "stored register name is not f\"r{n}\"", None, wa)
            continue
        # the sets that receive this register number:  <S>.add(reg)
        add_nodes = [m for m in acfg.nodes if m.kind == "stmt" and isinstance(m.ast, ast.Expr) and isinstance(m.ast.value, ast.Call)
                     and isinstance(m.ast.value.func, ast.Attribute) and m.ast.value.func.attr == "add" and isinstance(m.ast.value.func.value, ast.Name)
                     and m.ast.value.args and norm(m.ast.value.args[0]) == reg]
        by_set = {}
        for m in add_nodes:
            by_set.setdefault(m.ast.value.func.value.id, []).append(m.id)
        # every path from the store to the loop head / exit passes an add(reg) of the same set; exception paths are errors, not results
        heads = [m.id for m in acfg.nodes if m.kind == "for"] + [acfg.exit.id]
        for sname, adds in by_set.items():
            seen, stack, ok = set(), [b for b, lab in acfg.succ[n.id] if not (isinstance(lab, tuple) and lab[0] == "exc")], True
            while stack:
                a = stack.pop()
                if a in seen or a in adds:
                    continue
                seen.add(a)
                if a in heads:
                    ok = False
                    break
                stack.extend(b for b, lab in acfg.succ[a] if not (isinstance(lab, tuple) and lab[0] == "exc"))
            if ok:
                used_sets.add(sname)
        chk.judge("R17.c", f"register_assignment:assign_registers:{norm(st)}", bool(used_sets & set(by_set)),
                  f"register {reg} is written into the map but not added to a set of used registers on every path", {"sets": sorted(by_set)}, wa)
    # registers_by_scope[scope] ⊇ the set of registers allocated in the scope ; return = union over data.symbols of registers_by_scope
    rbs = [st for st in ast.walk(af) if isinstance(st, ast.Assign) and any(isinstance(t, ast.Subscript) and norm(t.value) == "registers_by_scope" for t in st.targets)]

    def keeps(value, sname):
        """the set sname is part of the value: S, S | X, S.union(X), set(S)"""
        if isinstance(value, ast.Name):
            return value.id == sname
        if isinstance(value, ast.BinOp) and isinstance(value.op, ast.BitOr):
            return keeps(value.left, sname) or keeps(value.right, sname)
        if isinstance(value, ast.Call) and isinstance(value.func, ast.Attribute) and value.func.attr in ("union", "copy"):
            return keeps(value.func.value, sname) or any(keeps(a_, sname) for a_ in value.args)
        if isinstance(value, ast.Call) and norm(value.func) in ("set", "frozenset", "sorted", "list") and value.args:
            return keeps(value.args[0], sname)
        return False
    # (a store of the bare parent set on the path that allocates nothing is fine: it is the path without map stores)
    alloc_rbs = [st for st in rbs if any(keeps(st.value, sn) for sn in used_sets)]
    ok = bool(alloc_rbs)
    chk.judge("R17.c", "register_assignment:assign_registers:registers_by_scope includes the scope's used set", ok,
              f"registers_by_scope is assigned {[norm(s.value) for s in rbs]}, none of which contains the set the allocated registers are added to ({sorted(used_sets)})", None, wa)
    rets = [st for st in ast.walk(af) if isinstance(st, ast.Return) and st.value is not None]
    ok = False
    detail = [norm(r.value) for r in rets]
    if len(rets) == 1:
        names = {x.id for x in ast.walk(rets[0].value) if isinstance(x, ast.Name)}
        # the returned name must be accumulated by union over registers_by_scope in a loop over data.symbols
        for nm in names:
            for loop in ast.walk(af):
                if isinstance(loop, ast.For) and "data.symbols" in norm(loop.iter):
                    for st in ast.walk(loop):
                        if isinstance(st, (ast.Assign, ast.AugAssign)) and nm in norm(st) and "registers_by_scope" in norm(st):
                            tgt = st.targets[0] if isinstance(st, ast.Assign) else st.target
                            if norm(tgt) == nm and ("union" in norm(st) or "|" in norm(st) or "update" in norm(st)):
                                ok = True
                        if isinstance(st, ast.Expr) and isinstance(st.value, ast.Call) and norm(st.value.func) == f"{nm}.update" and "registers_by_scope" in norm(st):
                            ok = True
    chk.judge("R17.c", "register_assignment:assign_registers:returns the union over all scopes", ok,
              f"return value {detail} is not the union of registers_by_scope over data.symbols", None, wa)
