"""C12 — constexpr calls are replaced by what the function returns (R12.a–d)."""
from __future__ import annotations

import ast
import re
from ..model import Repo, AnalysisError, norm
from ..report import Check
from ..cfg import CFG, ReachingDefs, decompose

try:  # E7: regex syntax trees (CPython's own parser, nothing is matched)
    import re._parser as sre_parse
    import re._constants as sre_c
except ImportError:  # pragma: no cover
    import sre_parse
    import sre_constants as sre_c

BANNED = {"open", "eval", "exec"}


def regex_words(pattern: str):
    """For a pattern of the shape  [\\b] (w1|w2|...) [\\b]  return (words, leading_boundary, trailing items)."""
    tree = sre_parse.parse(pattern)
    items = list(tree)
    lead = bool(items) and items[0] == (sre_c.AT, sre_c.AT_BOUNDARY)
    if lead:
        items = items[1:]
    if not items:
        return None
    op, arg = items[0]
    words = set()

    def lit_seq(seq):
        out = ""
        for o, a in seq:
            if o is sre_c.LITERAL:
                out += chr(a)
            else:
                return None
        return out

    def branch_words(node):
        o, a = node
        if o is sre_c.BRANCH:
            ws = set()
            for alt in a[1]:
                w = lit_seq(list(alt))
                if w is None:
                    return None
                ws.add(w)
            return ws
        return None

    if op is sre_c.SUBPATTERN:
        inner = list(arg[3])
        if len(inner) == 1:
            ws = branch_words(inner[0])
            if ws is not None:
                words = ws
            else:
                return None
        else:
            w = lit_seq(inner)
            if w is None:
                return None
            words = {w}
    elif op is sre_c.BRANCH:
        ws = branch_words(items[0])
        if ws is None:
            return None
        words = ws
    else:
        return None
    rest = items[1:]
    return words, lead, rest


def run(repo: Repo, chk: Check):
    chk.rule("R12.a", "a decorated function's source is recorded only after check_constexpr_function, whose pattern rejects "
                      "every occurrence of the words open, eval, exec (word boundaries, re.search over the whole source)", floor=3)
    chk.rule("R12.b", "constexpr functions emit no code: body removed when recorded, skipped by the gather loop, calls "
                      "replaced by the constant before any call sequence is emitted", floor=3)
    chk.rule("R12.c", "in the evaluation script the last binding of HASH is calc_hash, the identity decorators precede the "
                      "user code, and writer/reader of the result are json partners for the same call expression", floor=5)
    chk.rule("R12.e", "a value that a constexpr call returned is shared by every call site with the same text (and by later compilations): no code on the "
                      "compile path changes a container it received in place (shared with R11.c/d)", floor=20)
    chk.rule("R12.d", "the result cache is keyed by the complete script text (see R11.a)", floor=1)
    from .c11 import r11cd
    chk.shared({"R11.c": "R12.e", "R11.d": "R12.e"}, r11cd, repo, chk)
    cp = repo.mod("compile_pass")
    # ---------------------------------------------------------------- R12.a
    chkfn = cp.func("CompilerPassHandleConstexpr.check_constexpr_function")
    chk.saw("compile_pass", chkfn.qual)
    searches = [c for c in ast.walk(chkfn) if isinstance(c, ast.Call) and norm(c.func) in ("re.search", "re.match", "re.fullmatch", "re.findall", "re.compile")]
    if not searches:
        # <compiled pattern>.search(text) with the pattern compiled at module level: rewritten to re.search(pattern, text)
        for c in ast.walk(chkfn):
            if isinstance(c, ast.Call) and isinstance(c.func, ast.Attribute) and c.func.attr in ("search", "match", "fullmatch", "findall") and isinstance(c.func.value, ast.Name):
                got = repo.lookup(cp, c.func.value.id)
                if got and isinstance(got[1], (ast.Assign, ast.AnnAssign)) and isinstance(got[1].value, ast.Call) and norm(got[1].value.func) == "re.compile" \
                        and got[1].value.args and len(got[1].value.args) == 1 and not got[1].value.keywords:
                    eq = ast.Call(func=ast.Attribute(value=ast.Name(id="re", ctx=ast.Load()), attr=c.func.attr, ctx=ast.Load()),
                                  args=[got[1].value.args[0]] + list(c.args), keywords=list(c.keywords))
                    ast.copy_location(eq, c)
                    ast.fix_missing_locations(eq)
                    eq.parent = getattr(c, "parent", None)
                    eq._original = c
                    searches.append(eq)
    if len(searches) == 0:
        chk.bad("R12.a", "compile_pass:check_constexpr_function:pattern covers open/eval/exec as whole words",
                "the function source is no longer searched as text for the words open, eval and exec: a check on selected syntax nodes misses other "
                "spellings (builtins.eval, io.open, 'from builtins import exec as e')", None, f"{cp.path}:{chkfn.lineno} in check_constexpr_function")
        searches = None
    elif len(searches) != 1:
        raise AnalysisError("check_constexpr_function: expected one regular-expression test")
    if searches is not None:
        sc = searches[0]
        where = f"{cp.path}:{sc.lineno} in check_constexpr_function"
        pat = sc.args[0].value if sc.args and isinstance(sc.args[0], ast.Constant) else None
        if not isinstance(pat, str):
            raise AnalysisError("check_constexpr_function: pattern is not a string literal")
        got = regex_words(pat)
        ok, why = False, f"pattern {pat!r} has an unrecognised shape"
        if got:
            words, lead, rest = got
            missing = BANNED - words
            trailing_ok = rest in ([], [(sre_c.AT, sre_c.AT_BOUNDARY)])
            ok = not missing and trailing_ok
            why = (f"pattern {pat!r}: " + (f"does not cover {sorted(missing)}; " if missing else "") +
                   ("" if trailing_ok else "requires more than the bare word (e.g. a following '('), so 'run = eval' passes"))
        chk.judge("R12.a", "compile_pass:check_constexpr_function:pattern covers open|eval|exec as whole words", ok, why, {"pattern": pat}, where)
        chk.judge("R12.a", "compile_pass:check_constexpr_function:searches the whole function source",
                  norm(sc.func) == "re.search" and len(sc.args) >= 2 and norm(sc.args[1]).endswith(".as_string()") and not sc.keywords,
                  f"test is {norm(sc)[:80]}", None, where)
        par = sc
        while par is not None and not isinstance(par, ast.If):
            par = getattr(par, "parent", None)
        raises = par is not None and any(isinstance(x, ast.Raise) and "CompilerError" in norm(x) for x in par.body) and any(sc is x or getattr(sc, "_original", None) is x for x in ast.walk(par.test)) \
            and not isinstance(par.test, ast.UnaryOp)
        chk.judge("R12.a", "compile_pass:check_constexpr_function:a match raises CompilerError", raises, "a match does not raise CompilerError", None, where)
    hd = cp.func("CompilerPassHandleConstexpr.handle_decorators")
    chk.saw("compile_pass", hd.qual)
    cfg = CFG(hd)
    dom = cfg.dominators()
    live = cfg.reachable()
    stores = [n for n in cfg.nodes if n.id in live and n.kind == "stmt" and isinstance(n.ast, ast.Assign) and any(
        isinstance(t, ast.Subscript) and norm(t.value).endswith("constexpr_functions") for t in n.ast.targets)]
    checks = [n for n in cfg.nodes if n.id in live and n.kind == "stmt" and any(
        isinstance(c, ast.Call) and norm(c.func) == "self.check_constexpr_function" for c in ast.walk(n.ast))]
    if not stores:
        raise AnalysisError("handle_decorators: store into constexpr_functions not found")
    for sN in stores:
        recorded = [x for x in ast.walk(sN.ast.value) if isinstance(x, ast.Call) and isinstance(x.func, ast.Attribute) and x.func.attr == "as_string"]
        subject = norm(recorded[0].func.value) if recorded else None
        ok = any(c.id in dom[sN.id] and any(norm(a) == subject for cc in ast.walk(c.ast) if isinstance(cc, ast.Call) and norm(cc.func) == "self.check_constexpr_function" for a in cc.args) for c in checks)
        chk.judge("R12.a", "compile_pass:handle_decorators:source recorded only after the check", ok,
                  f"the source of {subject} is stored without a dominating check_constexpr_function({subject})", None, f"{cp.path}:{sN.ast.lineno}")
        # R12.b body removal on the same node
        removal = [n for n in cfg.nodes if n.id in live and n.kind == "stmt" and isinstance(n.ast, ast.Assign) and any(
            norm(t) == f"{subject}.body" for t in n.ast.targets) and isinstance(n.ast.value, ast.List) and not n.ast.value.elts]
        okb = bool(removal) and all(cfg.must_pass(sN.id, {cfg.exit.id}, {r.id for r in removal}) for _ in [0]) if removal else False
        # the loop continues: accept "every path from the store to the next iteration/exit passes the removal"
        if removal and not okb:
            heads = [n.id for n in cfg.nodes if n.kind == "for"] + [cfg.exit.id]
            okb = cfg.must_pass(sN.id, heads, {r.id for r in removal})
        chk.judge("R12.b", "compile_pass:handle_decorators:body removed after recording", okb,
                  f"{subject}.body is not emptied on every path after its source was recorded: the function would also be compiled to IC10", None,
                  f"{cp.path}:{sN.ast.lineno}")
        # decorator names handled
        g = [(norm(t), p) for t, p in cfg.guards(sN.id) if isinstance(t, ast.expr)]
        from ..modconst import module_constants
        consts = module_constants(cp)
        okn = False
        for t_, p_ in cfg.guards(sN.id):
            if isinstance(t_, ast.Compare) and len(t_.ops) == 1 and isinstance(t_.ops[0], (ast.In, ast.NotIn)):
                member = isinstance(t_.ops[0], ast.In) == bool(p_)
                coll = t_.comparators[0]
                vals = None
                if isinstance(coll, (ast.List, ast.Tuple, ast.Set)) and all(isinstance(x, ast.Constant) for x in coll.elts):
                    vals = {x.value for x in coll.elts}
                elif isinstance(coll, ast.Name) and coll.id in consts and isinstance(consts[coll.id], (tuple, list, set, frozenset)):
                    vals = set(consts[coll.id])
                if member and vals is not None and "constexpr" in vals:
                    okn = True
        chk.judge("R12.a", "compile_pass:handle_decorators:applies to constexpr/emit_code decorators", okn, f"guards {g}", None, f"{cp.path}:{sN.ast.lineno}")
    # ---------------------------------------------------------------- R12.b gather loop and call replacement
    g = repo.mod("generate_code")
    runf = g.func("CompilerPassGatherCode.run")
    chk.saw("generate_code", runf.qual)
    from .shared import gather_model, emission_table
    _, ems = gather_model(repo)
    if not ems:
        raise AnalysisError("GatherCode.run: emission loop not found")
    for em in ems:
        rows, _free = emission_table(em)
        ok = not [a_ for a_, e_ in rows if e_ and a_["X"]]
        chk.judge("R12.b", "generate_code:GatherCode.run:constexpr functions are skipped", ok,
                  f"lines of a function are emitted without excluding is_constexpr (guards {em.guard_text()})", None, f"{g.path}:{em.stmt.lineno}")
    hc = g.func("CompilerPassGenerateCode.handle_call")
    chk.saw("generate_code", hc.qual)
    hcfg = CFG(hc)
    hdom = hcfg.dominators()
    emits = [n for n in hcfg.nodes if n.id in hcfg.reachable() and n.ast is not None and n.kind == "stmt" and any(
        isinstance(c, ast.Call) and norm(c.func) in ("IC10", "IC10Instruction") and c.args and isinstance(c.args[0], ast.Constant) and c.args[0].value in ("jal", "push", "put")
        for c in ast.walk(n.ast))]
    bad = []
    for e in emits:
        gs = [(norm(t), p) for t, p in hcfg.guards(e.id) if isinstance(t, ast.expr)]
        if not any(t.endswith(".is_constexpr") and not p for t, p in gs):
            bad.append(e.ast.lineno)
    chk.judge("R12.b", "generate_code:handle_call:no call sequence for constexpr functions", bool(emits) and not bad,
              f"call-sequence instructions at lines {bad} are not excluded for constexpr functions", {"sites": len(emits)}, f"{g.path}:{hc.lineno}")
    # the constexpr arm returns the folded constant
    arm_ok = False
    for n in hcfg.nodes:
        if n.kind == "test" and norm(n.ast).endswith(".is_constexpr"):
            ifn = n.stmt
            txt = " ".join(norm(s) for s in ifn.body)
            # the arm hands back the folded constant and nothing of a call sequence can follow it
            after = [b for b, lab in hcfg.succ[n.id] if isinstance(lab, tuple) and lab[0] != "exc" and lab[1] is True]
            reach = hcfg.reachable(start=after[0]) if after else set()
            import re as _re
            arm_ok = bool(_re.search(r"IC10Operand\((\w+(\._ndata)?)\.constant_value\)", txt)) and not any(e.id in reach for e in emits)
    chk.judge("R12.b", "generate_code:handle_call:constexpr call yields the constant operand", arm_ok, "constexpr arm does not return IC10Operand(data.constant_value)", None,
              f"{g.path}:{hc.lineno}")
    # ---------------------------------------------------------------- R12.c template
    u = repo.mod("utils")
    ev = u.anchor("eval_constexpr")
    chk.saw("utils", "eval_constexpr")
    ecfg = CFG(ev)
    erd = ReachingDefs(ecfg)
    wu = f"{u.path}:{ev.lineno} in eval_constexpr"
    # the script is put together from literal text and the user's source; text that already contains user source must not be
    # run through %-formatting or str.format again (a '%' or '{' in a constexpr function would be read as a directive)
    for b in ast.walk(ev):
        fmt_subject = None
        if isinstance(b, ast.BinOp) and isinstance(b.op, ast.Mod) and isinstance(b.right, (ast.Dict, ast.Tuple)) and not isinstance(b.left, (ast.Constant, ast.JoinedStr)):
            fmt_subject = b.left
        if isinstance(b, ast.Call) and isinstance(b.func, ast.Attribute) and b.func.attr in ("format", "format_map") and not isinstance(b.func.value, (ast.Constant, ast.JoinedStr)) \
                and "code" in norm(b.func.value).lower():
            fmt_subject = b.func.value
        if fmt_subject is None:
            continue
        # a module-level literal is fine (first stage); anything that was assembled at run time is not
        lit = isinstance(fmt_subject, ast.Name) and fmt_subject.id in u.assigns and len(u.assigns[fmt_subject.id]) == 1 \
            and isinstance(getattr(u.assigns[fmt_subject.id][0], "value", None), ast.Constant)
        if not lit:
            chk.bad("R12.c", "utils:eval_constexpr:the script is not formatted again after the user's source is in it",
                    f"'{norm(b)[:70]}' applies text formatting to {norm(fmt_subject)}, a text assembled earlier that already contains the source of the constexpr functions: "
                    f"a '%' in any of them (modulo, '%s' formatting) is read as a conversion, the compilation fails or the script changes", None, wu)
    # the variable(s) that hold the script: what is handed to exec / the child's command line, followed back through copies
    script_names = set()
    work = []
    for c in ast.walk(ev):
        if isinstance(c, ast.Call) and norm(c.func) == "exec" and c.args and isinstance(c.args[0], ast.Name):
            work.append((c.args[0].id, c))
        if isinstance(c, ast.Call) and norm(c.func).endswith("Popen") and c.args and isinstance(c.args[0], (ast.List, ast.Tuple)) and c.args[0].elts \
                and isinstance(c.args[0].elts[-1], ast.Name):
            work.append((c.args[0].elts[-1].id, c))
    while work:
        nm, at = work.pop()
        if nm in script_names:
            continue
        script_names.add(nm)
        ids_ = [n_.id for n_ in ecfg.nodes_of(at)] if not isinstance(at, int) else [at]
        for d_ in (erd.at(ids_[0], nm) if ids_ else []):
            if d_.kind == "assign" and isinstance(d_.value, ast.Name) and not d_.index:
                work.append((d_.value.id, d_.node))
    if not script_names:
        raise AnalysisError("eval_constexpr: the variable holding the evaluation script was not identified")
    # the functions of a library module enter the script only inside 'class <module>:' (indented): at the top level a library function
    # would replace a function of the same name of the main program (or of another library)
    from .shared import expr_guards
    n_lib = 0
    for lp in list(ast.walk(ev)):
        gens = []
        if isinstance(lp, ast.For) and isinstance(lp.target, ast.Tuple) and len(lp.target.elts) == 2 and "constexpr_functions" in norm(lp.iter):
            gens.append((lp.target, lp))
        if isinstance(lp, (ast.GeneratorExp, ast.ListComp)):
            for g_ in lp.generators:
                if isinstance(g_.target, ast.Tuple) and len(g_.target.elts) == 2 and "constexpr_functions" in norm(g_.iter):
                    gens.append((g_.target, lp))
        for tgt, scope_node in gens:
            if not all(isinstance(x, ast.Name) for x in tgt.elts):
                continue
            svar, fvar = tgt.elts[0].id, tgt.elts[1].id
            n_lib += 1
            # every place where the text of the functions is put into the script as it is (not line by line behind an indentation)
            for use in ast.walk(scope_node):
                if not (isinstance(use, ast.Name) and use.id == fvar and isinstance(use.ctx, ast.Load)):
                    continue
                par = getattr(use, "parent", None)
                if isinstance(par, ast.Attribute) and par.attr in ("splitlines", "split"):
                    continue          # taken apart into lines (indented one by one)
                if isinstance(par, ast.Call) and norm(par.func) in ("re.findall", "re.finditer", "re.search", "len", "textwrap.indent"):
                    continue          # looked at / indented as a whole
                ids_ = [n_.id for n_ in ecfg.nodes_of(use)]
                gs = [(t_, p_) for i_ in ids_[:1] for t_, p_ in ecfg.guards(i_) if isinstance(t_, ast.expr)] + list(expr_guards(use, ev))
                main_only = any((norm(t_) in (f"{svar} == ''", f"'' == {svar}", f"not {svar}") and p_) or (norm(t_) in (f"{svar} != ''", f"'' != {svar}", svar) and not p_)
                                for t_, p_ in gs)
                if not main_only:
                    # the loop variable is given the wrapped text first, for every library:   if <scope> != '': <funcs> = 'class ..' + <indented>   (no else arm).
                    # The text as it came from the table then reaches this place only for the main module
                    st_ = use
                    while getattr(st_, "parent", None) is not None and not isinstance(st_, ast.stmt):
                        st_ = st_.parent
                    blk = None
                    par_ = getattr(st_, "parent", None)
                    for fld_ in ("body", "orelse", "finalbody"):
                        if par_ is not None and isinstance(getattr(par_, fld_, None), list) and any(x is st_ for x in getattr(par_, fld_)):
                            blk = getattr(par_, fld_)
                    for prev in (blk[:next(i_ for i_, x in enumerate(blk) if x is st_)] if blk else []):
                        if isinstance(prev, ast.If) and not prev.orelse and any(
                                (norm(t_) in (f"{svar} != ''", f"'' != {svar}", svar) and p_) or (norm(t_) in (f"{svar} == ''", f"'' == {svar}", f"not {svar}") and not p_)
                                for t_, p_ in decompose(prev.test, True)) and len(decompose(prev.test, True)) == 1:
                            rebinds = [a_ for a_ in prev.body if isinstance(a_, ast.Assign) and len(a_.targets) == 1 and isinstance(a_.targets[0], ast.Name) and a_.targets[0].id == fvar]
                            wrapped = rebinds and all("class " in norm(a_.value) and svar in {x.id for x in ast.walk(a_.value) if isinstance(x, ast.Name)} for a_ in rebinds)
                            if wrapped:
                                main_only = True
                chk.judge("R12.c", "utils:eval_constexpr:functions of a library module enter the script only inside 'class <module>:'", main_only,
                          f"the source of the constexpr functions of every scope ({fvar}) is put into the script at the top level, also for a library module ({svar} != ''): a "
                          f"library's function replaces a function of the same name of the main program, whose calls then return the library's value",
                          None, f"{u.path}:{use.lineno} in eval_constexpr")
    if n_lib == 0:
        raise AnalysisError("eval_constexpr: the loop over data.constexpr_functions that assembles the function sources was not found")
    tmpl = None
    for st in ast.walk(ev):
        if isinstance(st, ast.Assign) and isinstance(st.value, ast.JoinedStr) and "import" in norm(st.value) and any(norm(t) in script_names for t in st.targets):
            tmpl = st.value
    if tmpl is None:
        raise AnalysisError("eval_constexpr: script template not found")
    def hole_text(e, at_stmt):
        """Text of a template hole; a local bound once to an expression is replaced by that expression."""
        if isinstance(e, ast.Name):
            ids_ = [x.id for x in ecfg.nodes_of(at_stmt)]
            ds_ = erd.at(ids_[0], e.id) if ids_ else []
            if len(ds_) == 1 and ds_[0].kind == "assign" and ds_[0].value is not None and not ds_[0].index:
                return norm(ds_[0].value)
        return norm(e)
    holes = []
    text = ""
    for v in tmpl.values:
        if isinstance(v, ast.Constant):
            text += v.value
        else:
            holes.append(hole_text(v.value, tmpl))
            text += f"__HOLE{len(holes) - 1}__"
    try:
        script = ast.parse(text)
    except SyntaxError as e:
        raise AnalysisError(f"eval_constexpr: script template does not parse as Python: {e}")
    chk.extra["template_statements"] = len(script.body)
    user_idx = None
    hash_bind = []
    decos = {}
    writer = None
    for i, st in enumerate(script.body):
        t = norm(st)
        if isinstance(st, ast.Expr) and isinstance(st.value, ast.Name) and st.value.id.startswith("__HOLE"):
            h = holes[int(st.value.id[6:-2])]
            if "constexpr_functions_code" in h:
                user_idx = i
        if isinstance(st, ast.ImportFrom):
            for a in st.names:
                if (a.asname or a.name) == "HASH":
                    hash_bind.append((i, f"{st.module}.{a.name}"))
                if a.name == "*":
                    hash_bind.append((i, f"{st.module}.*"))
        if isinstance(st, ast.FunctionDef):
            ident = len(st.body) == 1 and isinstance(st.body[0], ast.Return) and isinstance(st.body[0].value, ast.Name) and st.args.args \
                and st.body[0].value.id == st.args.args[0].arg
            decos[st.name] = (i, ident)
            if st.name == "HASH":
                hash_bind.append((i, "def HASH"))
        if isinstance(st, ast.Assign) and any(isinstance(t_, ast.Name) and t_.id == "HASH" for t_ in st.targets):
            hash_bind.append((i, norm(st.value)))
        if isinstance(st, ast.Assign) and isinstance(st.value, ast.Call) and norm(st.value.func).endswith("json.dumps") and st.value.args:
            writer = (i, norm(st.targets[0]), st.value)
    if user_idx is None:
        raise AnalysisError("eval_constexpr: user code hole not found in the template")
    before = [b for b in hash_bind if b[0] < user_idx]
    last = before[-1][1] if before else None
    chk.judge("R12.c", "utils:eval_constexpr:template:last binding of HASH before user code is calc_hash", last == "stationeers_pytrapic.utils.calc_hash",
              f"HASH is bound by {before}; the last one before the user code must be utils.calc_hash (the signed CRC-32), otherwise "
              f"HASH(...) inside a constexpr function returns the spelling for the current output mode", {"bindings": before}, wu)
    for dn in ("constexpr", "emit_code"):
        d = decos.get(dn)
        chk.judge("R12.c", f"utils:eval_constexpr:template:identity decorator {dn} precedes the user code", d is not None and d[1] and d[0] < user_idx,
                  f"decorator {dn}: {d}", None, wu)
    # writer / reader partners
    call_hole = None
    if writer is not None and writer[2].args and isinstance(writer[2].args[0], ast.Name) and writer[2].args[0].id.startswith("__HOLE"):
        call_hole = holes[int(writer[2].args[0].id[6:-2])]
    chk.judge("R12.c", "utils:eval_constexpr:template:result written as json of the call", writer is not None and writer[0] > user_idx and call_hole == "call_node.as_string()",
              f"writer statement {norm(writer[2]) if writer else None} with hole {call_hole}", None, wu)
    # the non-pyodide transport: print(json.dumps(<same call>)) appended, and json.loads on both readers
    prints = [st for st in ast.walk(ev) if isinstance(st, ast.AugAssign) and norm(st.target) in script_names and isinstance(st.value, ast.JoinedStr)]
    okp = False
    for p in prints:
        t = "".join(v.value if isinstance(v, ast.Constant) else "<" + hole_text(v.value, p) + ">" for v in p.value.values)
        okp = okp or ("print(__json.dumps(<call_node.as_string()>))" in t.replace(" ", ""))
    chk.judge("R12.c", "utils:eval_constexpr:subprocess transport prints json of the same call", okp, "no 'print(__json.dumps(<call>))' appended for the subprocess transport", None, wu)
    loads = [c for c in ast.walk(ev) if isinstance(c, ast.Call) and norm(c.func) == "json.loads"]
    def origin_text(e, at, depth=0):
        """the expression with locals that are bound once replaced by what they were bound to (three levels)"""
        if depth > 3:
            return norm(e)
        if isinstance(e, ast.Name):
            ids_ = [n_.id for n_ in ecfg.nodes_of(at)]
            ds_ = erd.at(ids_[0], e.id) if ids_ else []
            if len(ds_) == 1 and ds_[0].kind == "assign" and not ds_[0].index and ds_[0].value is not None:
                return origin_text(ds_[0].value, ecfg.nodes[ds_[0].node].ast, depth + 1)
            if len(ds_) == 1 and ds_[0].kind == "assign" and ds_[0].index and ds_[0].value is not None:
                return f"<part {ds_[0].index} of {norm(ds_[0].value)}> {e.id}"
        return norm(e)
    srcs = sorted(origin_text(c.args[0], c) for c in loads if c.args)

    def child_output_parts(e, at, depth=0):
        """which parts of <process>.communicate() the expression is computed from: subset of {0 (stdout), 1 (stderr)}"""
        out = set()
        if depth > 4:
            return out
        for nm in ast.walk(e):
            if isinstance(nm, ast.Name) and isinstance(nm.ctx, ast.Load):
                ids_ = [n_.id for n_ in ecfg.nodes_of(at)]
                for d_ in (erd.at(ids_[0], nm.id) if ids_ else []):
                    if d_.kind == "assign" and d_.value is not None and isinstance(d_.value, ast.Call) and isinstance(d_.value.func, ast.Attribute) \
                            and d_.value.func.attr == "communicate" and d_.index and len(d_.index) == 1:
                        out.add(d_.index[0])
                    elif d_.kind == "assign" and d_.value is not None and not d_.index:
                        out |= child_output_parts(d_.value, ecfg.nodes[d_.node].ast, depth + 1)
        return out
    parts = [child_output_parts(c.args[0], c) for c in loads if c.args]
    okl = len(loads) >= 2 and any("__result" in s for s in srcs) and any(p_ == {0} for p_ in parts)
    chk.judge("R12.c", "utils:eval_constexpr:both transports are read with json.loads", okl, f"json.loads applied to {srcs}", {"readers": srcs}, wu)
    # the decoder is the plain one: a hook (parse_int=float, parse_float=Decimal, object_hook, cls) turns the function's value into another one
    hooks = sorted({k.arg or "**" for c in loads for k in c.keywords if k.arg in (None, "parse_int", "parse_float", "parse_constant", "object_hook", "object_pairs_hook", "cls")})
    chk.judge("R12.c", "utils:eval_constexpr:the result is decoded without conversion hooks", not hooks,
              f"json.loads is called with {hooks}: the literal differs from the value the function returned (parse_int=float rounds integers above 2**53)", {"hooks": hooks}, wu)
    # the child is a plain interpreter: no switch that changes what the function's source means (-O / -OO strip assert and set __debug__ to False)
    for c in ast.walk(ev):
        if isinstance(c, ast.Call) and norm(c.func).endswith("Popen") and c.args and isinstance(c.args[0], (ast.List, ast.Tuple)):
            flags = [e_.value for e_ in c.args[0].elts[1:-1] if isinstance(e_, ast.Constant) and isinstance(e_.value, str) and e_.value.startswith("-") and e_.value != "-c"]
            other = [norm(e_) for e_ in c.args[0].elts[1:-1] if not (isinstance(e_, ast.Constant) and isinstance(e_.value, str))]
            changing = [f_ for f_ in flags if f_.lstrip("-")[:1] == "O" or f_ in ("-X", "-W", "-d") or "O" in f_[1:] and not f_.startswith("--")]
            unknown_flags = [f_ for f_ in flags if f_ not in changing and f_ not in ("-s", "-B", "-u", "-q", "-E")]
            if other or unknown_flags:
                chk.unresolved("R12.c", "utils:eval_constexpr:the child interpreter runs the source as Python means it",
                               f"interpreter arguments {other + unknown_flags} were not classified", wu)
            else:
                chk.judge("R12.c", "utils:eval_constexpr:the child interpreter runs the source as Python means it", not changing,
                          f"the child is started with {changing}: under -O 'assert' statements are removed and __debug__ is False, so a constexpr function that uses them "
                          f"returns another value than the same function compiled as ordinary code", {"flags": flags}, wu)
    # what is returned is what was read (and cached)
    rets = [r for r in ast.walk(ev) if isinstance(r, ast.Return) and r.value is not None]
    def ret_kind(e, at, depth=0):
        """'cache' (looked up under the key), 'decoded' (json.loads of a transport), else None"""
        if depth > 4:
            return None
        t_ = norm(e)
        if t_.startswith("_eval_constexpr_cache[") or t_.startswith("_eval_constexpr_cache.get("):
            return "cache"
        if isinstance(e, ast.Call) and norm(e.func) == "json.loads":
            return "decoded"
        if isinstance(e, ast.Name):
            ids_ = [n_.id for n_ in ecfg.nodes_of(at)]
            ds_ = erd.at(ids_[0], e.id) if ids_ else []
            kinds = {ret_kind(d_.value, ecfg.nodes[d_.node].ast, depth + 1) if d_.kind == "assign" and not d_.index and d_.value is not None else None for d_ in ds_}
            if kinds and None not in kinds:
                return "/".join(sorted(kinds))
        return None
    okr = bool(rets) and all(ret_kind(r.value, r) is not None for r in rets)
    chk.judge("R12.c", "utils:eval_constexpr:returns the decoded result", okr, f"return values {[norm(r.value) for r in rets]}", None, wu)
    # R12.d
    from .c11 import cache_obligation

    sub = Check("C12", chk.tier, chk.seed, chk.repo_root, quiet=True)
    cache_obligation(repo, sub, u)
    for rule, key, okk, facts, vac in sub.instances:
        if okk:
            chk.ok("R12.d", key, facts)
    for f in sub.findings:
        chk.bad("R12.d", f["key"], f["msg"], f["facts"], f["where"])
