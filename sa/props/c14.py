"""C14 — the daemon answers every request with exactly one line (R14.a–c)."""
from __future__ import annotations

import ast
from ..model import Repo, AnalysisError, norm
from ..report import Check
from ..cfg import CFG, ReachingDefs

TOTAL_CALLS = {"log", "error", "time.time"}  # helpers that cannot fail while logging is off


def _ancestors(node):
    n = getattr(node, "parent", None)
    while n is not None:
        yield n
        n = getattr(n, "parent", None)


def in_handler_or_finally(node, fn):
    prev = node
    for a in _ancestors(node):
        if isinstance(a, ast.ExceptHandler):
            return True
        if isinstance(a, ast.Try) and any(prev is s for s in a.finalbody):
            return True
        if a is fn:
            break
        prev = a
    return False


def is_display(e):
    """A literal JSON-serialisable value: dict/list/str/num displays, f-strings, str() calls."""
    if isinstance(e, ast.Constant):
        return isinstance(e.value, (str, int, float, bool)) or e.value is None
    if isinstance(e, ast.JoinedStr):
        return True
    if isinstance(e, ast.Dict):
        return all(k is not None and isinstance(k, ast.Constant) and isinstance(k.value, str) and is_display(v) for k, v in zip(e.keys, e.values))
    if isinstance(e, (ast.List, ast.Tuple)):
        return all(is_display(x) for x in e.elts)
    if isinstance(e, ast.Call) and isinstance(e.func, ast.Name) and e.func.id == "str":
        return True
    # text built from a literal: "...".format(..), "..." % x, "..." + <text>
    if isinstance(e, ast.Call) and isinstance(e.func, ast.Attribute) and e.func.attr in ("format", "join", "strip", "rstrip", "lstrip", "upper", "lower", "replace") \
            and isinstance(e.func.value, ast.Constant) and isinstance(e.func.value.value, str):
        return True
    if isinstance(e, ast.BinOp) and isinstance(e.op, ast.Mod) and isinstance(e.left, ast.Constant) and isinstance(e.left.value, str):
        return True
    if isinstance(e, ast.BinOp) and isinstance(e.op, ast.Add) and any(isinstance(x, (ast.JoinedStr, ast.Constant)) and (not isinstance(x, ast.Constant) or isinstance(x.value, str)) for x in (e.left, e.right)) \
            and all(is_display(x) for x in (e.left, e.right)):
        return True
    if isinstance(e, ast.Name):
        return e.id in ("stack_trace",)
    return False


def run(repo: Repo, chk: Check):
    chk.rule("R14.a", "stdout is redirected before anything else is imported; the saved handle is used at exactly one "
                      "reply site; no other route to fd 1; every child process gets its own stdout", floor=4)
    chk.rule("R14.b", "every path through process_input after the empty-line return passes exactly one reply; the reply "
                      "value is a literal error object or compile_code's dictionary; a catch-all handler assigns a reply", floor=5)
    chk.rule("R14.c", "the request loop leaves only on end of input or EXIT, and nothing outside the guarded region of "
                      "process_input can raise into it", floor=3)
    m = repo.mod("mod_daemon")
    path = m.path
    body = m.tree.body
    # ---------------------------------------------------------------- R14.a
    saved = None
    redirect_idx = None
    for i, st in enumerate(body):
        if isinstance(st, ast.Assign) and norm(st.value) == "sys.stdout" and len(st.targets) == 1 and isinstance(st.targets[0], ast.Name):
            saved = st.targets[0].id
        if isinstance(st, ast.Assign) and any(norm(t) == "sys.stdout" for t in st.targets):
            redirect_idx = i
            redirect_val = norm(st.value)
            break
    if saved is None or redirect_idx is None:
        raise AnalysisError("mod_daemon: stdout save/redirect statements not found")
    early = []
    for st in body[:redirect_idx]:
        if isinstance(st, (ast.Import, ast.ImportFrom)):
            for a in st.names:
                if not (isinstance(st, ast.Import) and a.name == "sys"):
                    early.append(norm(st))
        elif not (isinstance(st, ast.Assign) or (isinstance(st, ast.Expr) and isinstance(st.value, ast.Constant))):
            early.append(norm(st)[:60])
    chk.judge("R14.a", "mod_daemon:redirect precedes every other import", not early and redirect_val == "sys.stderr",
              f"statements before the redirect: {early}; stdout redirected to {redirect_val}", None, f"{path}:{body[redirect_idx].lineno}")
    uses = [n for n in ast.walk(m.tree) if isinstance(n, ast.Name) and n.id == saved and isinstance(n.ctx, ast.Load)]
    reply_calls = []
    for u in uses:
        p = getattr(u, "parent", None)
        if isinstance(p, ast.keyword) and p.arg == "file" and isinstance(p.parent, ast.Call) and norm(p.parent.func) == "print":
            reply_calls.append(p.parent)
    chk.judge("R14.a", "mod_daemon:saved stdout used at exactly one reply site", len(uses) == 1 and len(reply_calls) == 1,
              f"the saved handle {saved} is used {len(uses)} time(s), {len(reply_calls)} of them as print(file=...)", {"uses": len(uses)}, str(path))
    leaks = []
    for n in ast.walk(m.tree):
        t = None
        if isinstance(n, ast.Attribute):
            t = norm(n)
            if t in ("sys.__stdout__", "os.write", "os.dup2", "os.dup", "sys.stdout.buffer", "os.system", "os.popen"):
                leaks.append(t)
        if isinstance(n, ast.Assign) and any(norm(x) == "sys.stdout" for x in n.targets) and n is not body[redirect_idx]:
            leaks.append(norm(n))
        if isinstance(n, ast.Call) and norm(n.func) in ("open",) and n.args and isinstance(n.args[0], ast.Constant) and n.args[0].value in (1, "/dev/stdout", "/proc/self/fd/1"):
            leaks.append(norm(n))
    chk.judge("R14.a", "mod_daemon:no other route to fd 1", not leaks, f"other writers/handles of the real stdout: {leaks}", None, str(path))
    # nobody else in the package may hold the process's stdout (the package __init__ imports types/utils
    # before the daemon module body runs, so an import-time reference would capture the real stdout)
    holders = []
    for mn in repo.module_names():
        if mn in ("mod_daemon", "structures_generated", "types_generated"):
            continue
        mm = repo.mod(mn)
        for n in ast.walk(mm.tree):
            if isinstance(n, ast.Attribute) and norm(n) in ("sys.stdout", "sys.__stdout__"):
                # a reference evaluated when a function runs sees the redirected stream; only import-time
                # evaluation (module/class level, default arguments, decorators) captures the real one
                runtime = False
                prev = n
                for a in _ancestors(n):
                    if isinstance(a, (ast.FunctionDef, ast.AsyncFunctionDef)) and any(prev is b for b in a.body):
                        runtime = True
                    if isinstance(a, ast.Lambda) and prev is a.body:
                        runtime = True
                    prev = a
                if runtime and norm(n) == "sys.stdout":
                    continue
                holders.append(f"{mn}:{norm(getattr(n, 'parent', n))[:60]}")
            if isinstance(n, ast.ImportFrom) and n.module == "sys" and any(a.name in ("stdout", "__stdout__") for a in n.names):
                holders.append(f"{mn}:{norm(n)}")
    chk.judge("R14.a", "package:no other module references sys.stdout", not holders,
              f"modules holding a reference to the process's stdout (bound before the daemon redirects it when imported through the package __init__): {holders}",
              None, str(repo.pkg))
    # child processes anywhere in the package
    n_popen = 0
    for mn in repo.CORE:
        if not repo.has_mod(mn):
            continue
        mm = repo.mod(mn)
        for n in ast.walk(mm.tree):
            if isinstance(n, ast.Call) and norm(n.func) in ("subprocess.Popen", "subprocess.run", "subprocess.call", "subprocess.check_call", "subprocess.check_output", "Popen", "os.system", "os.popen", "os.spawnl", "os.execv"):
                n_popen += 1
                kws = {k.arg for k in n.keywords}
                ok = "stdout" in kws or "capture_output" in kws or norm(n.func).endswith("check_output")
                chk.judge("R14.a", f"{mn}:child process {norm(n.func)} has its own stdout", ok,
                          "child process inherits the daemon's real stdout (fd 1): anything it prints reaches the client", None, f"{mm.path}:{n.lineno}")
    if n_popen == 0:
        chk.ok("R14.a", "package:no child process creation", None, vacuous=True)

    # ---------------------------------------------------------------- R14.b
    fn = m.anchor("process_input")
    chk.saw("mod_daemon", "process_input")
    cfg = CFG(fn)
    rd = ReachingDefs(cfg)
    where = f"{path}:{fn.lineno} in process_input"
    # prune exception edges that start inside handlers / finally (assumed total)
    pruned = set()
    for n in cfg.nodes:
        if n.ast is not None and n.kind != "handler" and in_handler_or_finally(n.ast, fn):
            for i, (b, lab) in enumerate(cfg.succ[n.id]):
                if isinstance(lab, tuple) and lab[0] == "exc":
                    pruned.add((n.id, i))
    chk.assume("statements inside the except handlers and the finally block of process_input do not raise (traceback formatting, logging while ENABLE_LOGGING is False)")
    # ... which is checked: log() writes to a file only under ENABLE_LOGGING, and the value that the module ends up with is False
    flag_sts = m.assigns.get("ENABLE_LOGGING", [])
    if flag_sts:
        last = flag_sts[-1]
        v = getattr(last, "value", None)
        is_false = isinstance(v, ast.Constant) and v.value is False
        if is_false:
            chk.ok("R14.c", "mod_daemon:ENABLE_LOGGING is off in the daemon", None)
        elif isinstance(v, ast.Compare) and "__name__" in norm(v) or isinstance(v, ast.Constant) and v.value is True:
            chk.bad("R14.c", "mod_daemon:ENABLE_LOGGING is off in the daemon",
                    f"ENABLE_LOGGING = {norm(v)} is true in the daemon process: log() then writes every request and reply to a file, outside the try and inside 'finally' of "
                    f"process_input; a line that cannot be encoded (lone surrogate, undecodable bytes) raises there, no reply is written and the request loop ends", None, f"{path}:{last.lineno}")
        else:
            raise AnalysisError(f"mod_daemon: value of ENABLE_LOGGING not understood: {norm(v) if v is not None else None}")
    else:
        logs = [f for f in ast.walk(m.tree) if isinstance(f, ast.FunctionDef) and f.name == "log"]
        if logs and any(isinstance(x, ast.Call) and norm(x.func) in ("open",) or isinstance(x, ast.Attribute) and x.attr in ("write", "flush") for x in ast.walk(logs[0])):
            raise AnalysisError("mod_daemon: log() writes to a file but the switch ENABLE_LOGGING is gone")
    live = cfg.reachable(avoid_edges=pruned)
    # (the canonical form of process_input may carry an inlined copy of the helper that prints the reply)
    def is_reply(c):
        return c in reply_calls or isinstance(c, ast.Call) and norm(c.func) == "print" and any(k.arg == "file" and norm(k.value) == saved for k in c.keywords)
    reply_nodes = [n.id for n in cfg.nodes if n.id in live and n.kind == "stmt" and any(is_reply(c) for c in ast.walk(n.ast))]
    direct_reply = bool(reply_nodes)
    if not reply_nodes:
        # the reply may have been moved into a helper (module-level or nested function) that process_input calls
        helpers = {f.name for f in ast.walk(m.tree) if isinstance(f, (ast.FunctionDef,)) and f is not fn and any(c in reply_calls for c in ast.walk(f))}
        reply_nodes = [n.id for n in cfg.nodes if n.id in live and n.kind == "stmt" and not isinstance(n.ast, (ast.FunctionDef, ast.ClassDef))
                       and any(isinstance(c, ast.Call) and isinstance(c.func, ast.Name) and c.func.id in helpers for c in ast.walk(n.ast))]
    if not reply_nodes:
        raise AnalysisError("process_input: reply site not found")
    # start of the obligated region: the statement after the empty-line early return
    ret_nodes = [n for n in cfg.nodes if n.kind == "return" and n.id in live]
    early = None
    early_pol = False
    for n in cfg.nodes:
        if n.kind == "test" and n.id in live and norm(n.ast) in ("not line", "line == ''", "len(line) == 0", "not line.strip()"):
            early, early_pol = n, False
        elif n.kind == "test" and n.id in live and early is None and norm(n.ast) in ("line", "line != ''", "len(line) > 0", "len(line) != 0", "line.strip()"):
            early, early_pol = n, True      # the nested form: everything else happens under 'if line:'
    if early is None:
        raise AnalysisError("process_input: empty-line test not found")
    start = [b for b, lab in cfg.succ[early.id] if isinstance(lab, tuple) and lab[1] is early_pol]
    start = start[0] if start else None
    # variable answered
    resp_name = None
    for n in cfg.nodes:
        if n.kind == "test" and n.id in live and isinstance(n.ast, ast.Compare) and norm(n.ast).endswith("is not None") and in_handler_or_finally(n.ast, fn):
            resp_name = norm(n.ast.left)
    if resp_name is None:
        # the test may sit outside any handler (reply moved behind the try statement)
        best_size = None
        for n in cfg.nodes:
            if n.kind == "test" and n.id in live and isinstance(n.ast, ast.Compare) and norm(n.ast).endswith("is not None") and isinstance(n.ast.left, ast.Name):
                tb = [b for b, lab in cfg.succ[n.id] if isinstance(lab, tuple) and lab[0] != "exc" and lab[1] is True]
                if tb and any(r in cfg.reachable(start=tb[0]) for r in reply_nodes):
                    size = len(cfg.reachable(start=tb[0]))
                    if resp_name is None or size < best_size:
                        resp_name, best_size = norm(n.ast.left), size
    if resp_name is None:
        # unconditional reply: find the variable inside json.dumps
        for c in ast.walk(fn):
            if isinstance(c, ast.Call) and norm(c.func) == "json.dumps" and c.args and isinstance(c.args[0], ast.Name):
                resp_name = c.args[0].id
    if resp_name is None:
        raise AnalysisError("process_input: response variable not found")
    none_tests = {n.id for n in cfg.nodes if n.kind == "test" and isinstance(n.ast, ast.Compare) and norm(n.ast) == f"{resp_name} is not None"}
    for tid in none_tests:
        # the False edge is infeasible once clause (3) below shows that None never reaches the test
        for i, (b, lab) in enumerate(cfg.succ[tid]):
            if isinstance(lab, tuple) and lab[0] != "exc" and lab[1] is False:
                pruned.add((tid, i))
    # (1) every path from start to exit/xexit passes a reply
    def paths_avoiding(targets):
        seen, stack = set(), [start]
        while stack:
            a = stack.pop()
            if a in seen or a in reply_nodes:
                continue
            seen.add(a)
            if a in targets:
                return a
            for i, (b, lab) in enumerate(cfg.succ[a]):
                if (a, i) in pruned:
                    continue
                stack.append(b)
        return None

    miss = paths_avoiding({cfg.exit.id, cfg.xexit.id})
    chk.judge("R14.b", "mod_daemon:process_input:every path replies", miss is None,
              "a path from a non-empty request to the end of process_input passes no reply" + (" (exception leaves the function)" if miss == cfg.xexit.id else ""),
              {"reply_nodes": len(reply_nodes)}, where)
    # (2) no path passes two replies
    twice = False
    for r in reply_nodes:
        seen, stack = set(), [b for i, (b, lab) in enumerate(cfg.succ[r]) if (r, i) not in pruned]
        while stack:
            a = stack.pop()
            if a in seen:
                continue
            seen.add(a)
            if a in reply_nodes:
                twice = True
            stack.extend(b for i, (b, lab) in enumerate(cfg.succ[a]) if (a, i) not in pruned)
    chk.judge("R14.b", "mod_daemon:process_input:at most one reply per request", not twice, "a path passes two reply sites", None, where)
    again = [c for c in ast.walk(fn) if isinstance(c, ast.Call) and norm(c.func) in ("process_input", "main")]
    chk.judge("R14.b", "mod_daemon:process_input:the request is answered by this call only", not again,
              f"process_input calls {sorted({norm(c.func) for c in again})} from inside: the inner call writes its own reply line and the outer call's finally block writes another "
              f"one for the same request", {"calls": len(again)}, where)
    # (3) the reply is unconditional or guarded only by 'response is not None' and response is definitely a value
    for r in (reply_nodes if direct_reply else []):
        call = [c for c in ast.walk(cfg.nodes[r].ast) if is_reply(c)][0]
        arg = call.args[0] if call.args else None
        kws = {k.arg: k.value for k in call.keywords}
        okp = len(call.args) == 1 and "end" not in kws and "sep" not in kws and isinstance(kws.get("flush"), ast.Constant) and kws["flush"].value is True
        chk.judge("R14.b", "mod_daemon:process_input:reply is one flushed line", okp, f"reply call is {norm(call)}", None, f"{path}:{call.lineno}")
        # the printed text, with local temporaries inlined, as a stage pipeline
        from .c18 import _pipeline

        def inline(e, at, depth=0):
            if depth > 6:
                return e
            if isinstance(e, ast.Name):
                ds = rd.at(at, e.id)
                if len(ds) == 1 and ds[0].kind == "assign" and not ds[0].index and ds[0].value is not None and e.id != resp_name:
                    return inline(ds[0].value, ds[0].node, depth + 1)
                return e
            if isinstance(e, ast.Call):
                f = e.func
                if isinstance(f, ast.Attribute):
                    f = ast.Attribute(value=inline(f.value, at, depth + 1), attr=f.attr, ctx=ast.Load())
                return ast.Call(func=f, args=[inline(a, at, depth + 1) for a in e.args], keywords=e.keywords)
            return e

        flat = inline(arg, r) if arg is not None else None
        try:
            src, stages = _pipeline(flat, {}) if flat is not None else (None, [])
        except AnalysisError:
            src, stages = None, []
        names = [s_.name for s_ in stages]
        ok = src == resp_name and names[:1] == ["json.dumps"] and "base64.b64encode" in names and names[-1] == "decode" and "base64.encodebytes" not in names
        chk.judge("R14.b", "mod_daemon:process_input:reply is base64(json)", ok, f"reply text is built by {names} from {src}", {"stages": names},
                  f"{path}:{call.lineno}")
        if ok:
            dumps = stages[0]
            ea = dumps.kwargs.get("ensure_ascii")
            ascii_text = ea is None or (isinstance(ea, ast.Constant) and ea.value is True)
            good, why = True, ""
            for e_ in [s_ for s_ in stages if s_.name == "encode"]:
                errs = e_.args[1].value if len(e_.args) > 1 and isinstance(e_.args[1], ast.Constant) else (
                    e_.kwargs["errors"].value if "errors" in e_.kwargs and isinstance(e_.kwargs["errors"], ast.Constant) else "strict")
                if not ascii_text and errs == "strict":
                    good, why = False, ("json.dumps(ensure_ascii=False) keeps lone surrogates that .encode() rejects: the exception leaves "
                                        "the finally block, no reply is written and the request loop ends")
            chk.judge("R14.b", "mod_daemon:process_input:reply encoding cannot fail", good, why, {"ensure_ascii": ascii_text}, f"{path}:{call.lineno}")
        break
    def display_at(e, at, depth=0):
        """is_display with local names followed to their (single) definitions: text, numbers, displays of those, traceback text"""
        if depth > 4:
            return False
        if isinstance(e, ast.Name):
            ds_ = rd.at(at, e.id)
            if not ds_:
                # a module-level constant of the daemon (assigned once, never rebound in a function)
                glob = repo.mod("mod_daemon").assigns.get(e.id, [])
                rebound = any(isinstance(g_, ast.Global) and e.id in g_.names for g_ in ast.walk(repo.mod("mod_daemon").tree))
                return len(glob) == 1 and not rebound and getattr(glob[0], "value", None) is not None and is_display(glob[0].value)
            return bool(ds_) and all(d_.kind == "assign" and not d_.index and d_.value is not None and display_at(d_.value, d_.node, depth + 1) for d_ in ds_)
        if isinstance(e, ast.Dict):
            return all(k is not None and isinstance(k, ast.Constant) and isinstance(k.value, str) and display_at(v, at, depth + 1) for k, v in zip(e.keys, e.values))
        if isinstance(e, (ast.List, ast.Tuple)):
            return all(display_at(x, at, depth + 1) for x in e.elts)
        if isinstance(e, ast.Call) and isinstance(e.func, ast.Attribute) and e.func.attr in ("format_exc", "format_exception_only", "format_stack"):
            return True
        return is_display(e)
    tests = [n for n in cfg.nodes if n.kind == "test" and n.id in live and isinstance(n.ast, ast.Compare) and norm(n.ast) == f"{resp_name} is not None"]
    bad_defs, n_defs = [], 0
    check_points = [t.id for t in tests] or reply_nodes
    for cp in check_points:
        for d in rd.at(cp, resp_name):
            # only definitions that can actually flow here along unpruned edges
            n_defs += 1
            if d.kind != "assign" or d.value is None:
                bad_defs.append(d.kind)
            elif isinstance(d.value, ast.Constant) and d.value.value is None:
                # does a path start -> cp exist that avoids every other def of response?
                others = {x.node for x in rd.all_defs if x.name == resp_name and x is not d and x.node >= 0}
                seen, stack, reach = set(), [d.node], False
                while stack:
                    a = stack.pop()
                    if a in seen or (a in others and a != d.node):
                        continue
                    seen.add(a)
                    if a == cp:
                        reach = True
                        break
                    stack.extend(b for i, (b, lab) in enumerate(cfg.succ[a]) if (a, i) not in pruned)
                if reach:
                    bad_defs.append("None reaches the reply test")
            elif display_at(d.value, d.node):
                pass
            elif isinstance(d.value, ast.Call) and norm(d.value.func) == "compile_code":
                pass
            else:
                bad_defs.append(norm(d.value)[:60])
    chk.judge("R14.b", "mod_daemon:process_input:reply value is always an object", not bad_defs and n_defs > 0,
              f"definitions of {resp_name} reaching the reply: {bad_defs}", {"definitions": n_defs}, where)
    # catch-all handler assigning the response
    tries = [t for t in ast.walk(fn) if isinstance(t, ast.Try)]
    ok = False
    for t in tries:
        for h in t.handlers:
            names = [norm(h.type)] if h.type is not None and not isinstance(h.type, ast.Tuple) else ([norm(e) for e in h.type.elts] if h.type is not None else [None])
            if any(x in (None, "Exception", "BaseException") for x in names):
                if any(isinstance(s, ast.Assign) and any(norm(x) == resp_name for x in s.targets) for s in ast.walk(h)):
                    ok = True
    chk.judge("R14.b", "mod_daemon:process_input:catch-all handler assigns the reply", ok, "no 'except Exception' handler assigning the response", None, where)
    # compile_code / Compiler.compile return only dictionaries
    cm = repo.mod("compiler")
    for q in ("compile_code", "Compiler.compile"):
        f = cm.func(q)
        chk.saw("compiler", q)
        bad = []
        from .shared import fn_ctx
        fcfg, frd = fn_ctx(f)

        def dict_valued(v, at, depth=0):
            """a dict display, the compiler's result, a nested compile call, or a local name all of whose reaching definitions are such values"""
            if depth > 5 or v is None:
                return False
            if isinstance(v, ast.Dict):
                return True
            if norm(v) == "self.data.result":
                return True
            if isinstance(v, ast.Call) and (norm(v.func).endswith(".compile") or norm(v.func) == "compile_code"):
                return True
            if isinstance(v, ast.IfExp):
                return dict_valued(v.body, at, depth + 1) and dict_valued(v.orelse, at, depth + 1)
            if isinstance(v, ast.Name) and at is not None:
                ds = frd.at(at, v.id)
                return bool(ds) and all(d_.kind == "assign" and not d_.index and d_.value is not None and dict_valued(d_.value, d_.node, depth + 1) for d_ in ds)
            return False
        for r in ast.walk(f):
            if isinstance(r, ast.Return) and not any(isinstance(a, (ast.FunctionDef, ast.Lambda)) and a is not f for a in _ancestors_until(r, f)):
                v = r.value
                ids = [x.id for x in fcfg.nodes_of(r)]
                if v is None:
                    bad.append("bare return")
                elif not ids:
                    continue  # unreachable
                elif not dict_valued(v, ids[0]):
                    bad.append(norm(v)[:50])
        chk.judge("R14.b", f"compiler:{q}:returns only dictionaries", not bad, f"other return values: {bad}", None, f"{cm.path}:{f.lineno}")
    # data.result is only ever assigned dict displays
    bad = []
    for mn in ("compile_pass", "generate_code", "compiler"):
        mm = repo.mod(mn)
        # the functions in canonical form (helpers that build the result are expanded at their call sites)
        from .shared import fn_ctx, live_ids
        for f_ in mm.funcs.values():
            if not isinstance(f_, (ast.FunctionDef, ast.AsyncFunctionDef)):
                continue
            fc = frd_ = None
            for st in ast.walk(f_):
                if isinstance(st, ast.Assign) and any(isinstance(t, ast.Attribute) and t.attr == "result" and norm(t.value) in ("self.data", "self") and "_ndata" not in norm(t)
                                                      for t in st.targets):
                    tgt = [norm(t) for t in st.targets]
                    if any(t in ("self.data.result", "self.result") for t in tgt) and mn != "compile_pass" or "self.result = {" in norm(st):
                        vals = [st.value]
                        if isinstance(st.value, ast.Name):
                            # a local that was given the dictionary
                            if fc is None:
                                fc, frd_ = fn_ctx(f_)
                            ids_ = live_ids(fc, st)
                            ds_ = frd_.at(ids_[0], st.value.id) if ids_ else []
                            if ds_ and all(d_.kind == "assign" and not d_.index and d_.value is not None for d_ in ds_):
                                vals = [d_.value for d_ in ds_]
                        for v_ in vals:
                            is_dict = isinstance(v_, (ast.Dict, ast.DictComp)) or isinstance(v_, ast.Call) and norm(v_.func) == "dict"
                            if not is_dict and norm(v_) != "value":
                                bad.append(f"{mn}: {norm(st)[:60]}")
    chk.judge("R14.b", "package:data.result is assigned dictionaries only", not bad, f"{bad}", None, "compile_pass/generate_code")

    # ---------------------------------------------------------------- R14.c
    mf = m.anchor("main")
    chk.saw("mod_daemon", "main")
    loops = [l for l in ast.walk(mf) if isinstance(l, ast.While)]
    if len(loops) != 1:
        raise AnalysisError(f"main: expected one request loop, found {len(loops)}")
    loop = loops[0]
    mcfg = CFG(mf)
    exits = []
    for n in mcfg.nodes:
        if n.kind in ("break", "return", "raise") and n.id in mcfg.reachable() and any(a is loop for a in _ancestors(n.ast)):
            g = [(norm(t), p) for t, p in mcfg.guards(n.id) if isinstance(t, ast.expr)]
            exits.append((n, g))
    allowed = 0
    mrd = ReachingDefs(mcfg)
    def eof_guard(t, p):
        """the test says '<name> is empty': name (False) / not name (True) / name == "" (True) / name != "" (False) -> the Name node"""
        if isinstance(t, ast.Name) and p is False:
            return t
        if isinstance(t, ast.UnaryOp) and isinstance(t.op, ast.Not) and isinstance(t.operand, ast.Name) and p is True:
            return t.operand
        if isinstance(t, ast.Compare) and len(t.ops) == 1 and isinstance(t.ops[0], (ast.Eq, ast.NotEq)):
            l, r = t.left, t.comparators[0]
            if isinstance(l, ast.Constant):
                l, r = r, l
            if isinstance(l, ast.Name) and isinstance(r, ast.Constant) and r.value == "" and (isinstance(t.ops[0], ast.Eq) == bool(p)):
                return l
        return None

    def exit_guard(t, p):
        if isinstance(t, ast.Compare) and len(t.ops) == 1 and isinstance(t.ops[0], ast.Eq) and p is True:
            l, r = t.left, t.comparators[0]
            return any(isinstance(x, ast.Constant) and x.value == "EXIT" for x in (l, r)) and any(isinstance(x, ast.Name) for x in (l, r))
        return False

    for n, g in exits:
        ok = any(isinstance(t, ast.expr) and (eof_guard(t, p) is not None or exit_guard(t, p)) for t, p in mcfg.guards(n.id))
        allowed += ok
        # the end-of-input test must look at the raw readline() result: a stripped blank line is not end of input
        for t, p in mcfg.guards(n.id):
            nm = eof_guard(t, p) if isinstance(t, ast.expr) else None
            if nm is not None:
                tids = [x.id for x in mcfg.nodes_of(nm)]
                ds = mrd.at(tids[0], nm.id) if tids else []
                raw = bool(ds) and all(d.kind == "assign" and d.value is not None and norm(d.value).endswith(".readline()") for d in ds)
                chk.judge("R14.c", "mod_daemon:main:end of input is decided on the unstripped line", raw,
                          f"the end-of-input test looks at {[norm(d.value) if d.value is not None else d.kind for d in ds]}: an empty or blank request line "
                          f"would be taken for end of input and the daemon would stop answering", None, f"{path}:{n.ast.lineno}")
        chk.judge("R14.c", f"mod_daemon:main:loop exit {n.kind} under {g[-1] if g else None}", ok,
                  f"the request loop is left by a {n.kind} that is not guarded by end-of-input or EXIT (guards {g})", None, f"{path}:{n.ast.lineno}")
    # the line that is compared with "EXIT" is text: bytes read from the binary layer never equal a str, the EXIT request would be answered like any other
    def history(nm, at, depth=0, acc=None):
        acc = [] if acc is None else acc
        if depth > 5:
            return acc
        tids_ = [x.id for x in mcfg.nodes_of(at)]
        for d in (mrd.at(tids_[0], nm) if tids_ else []):
            if d.value is not None:
                acc.append(norm(d.value))
                for x in ast.walk(d.value):
                    if isinstance(x, ast.Name) and isinstance(x.ctx, ast.Load) and x.id not in ("sys",):
                        history(x.id, mcfg.nodes[d.node].ast, depth + 1, acc)
        return acc
    for n in mcfg.nodes:
        if n.kind == "test" and n.id in mcfg.reachable() and isinstance(n.ast, ast.Compare) and any(isinstance(x, ast.Constant) and x.value == "EXIT" for x in ast.walk(n.ast)):
            for nm in [x for x in ast.walk(n.ast) if isinstance(x, ast.Name)]:
                hist = history(nm.id, n.ast)
                binary = [h for h in hist if ".buffer" in h or "os.read(" in h or ".detach()" in h]
                decoded = any(".decode(" in h or "str(" in h for h in hist)
                chk.judge("R14.c", "mod_daemon:main:the line compared with 'EXIT' is text", not binary or decoded,
                          f"{nm.id} comes from {binary}: a bytes object never equals 'EXIT', the daemon answers the EXIT request and keeps running", {"history": hist[:6]},
                          f"{path}:{n.ast.lineno}")
    chk.judge("R14.c", "mod_daemon:main:loop is 'while True' with EOF and EXIT exits", isinstance(loop.test, ast.Constant) and loop.test.value is True and allowed >= 2,
              f"loop test {norm(loop.test)}, {allowed} recognised exits", None, f"{path}:{loop.lineno}")
    calls = [c for c in ast.walk(loop) if isinstance(c, ast.Call) and norm(c.func) == "process_input"]
    chk.judge("R14.c", "mod_daemon:main:each line is handed to process_input once", len(calls) == 1 and loop.body and any(c is calls[0] for c in ast.walk(loop.body[-1])) if calls else False,
              f"{len(calls)} call(s) of process_input in the loop", None, f"{path}:{loop.lineno}")
    # statements of process_input outside the try must be total
    outside = []

    def scan(node):
        for c in ast.walk(node):
            if isinstance(c, ast.Call) and norm(c.func) not in TOTAL_CALLS:
                outside.append(norm(c)[:50])
            if isinstance(c, (ast.Subscript, ast.BinOp, ast.Raise)):
                outside.append(norm(c)[:50])

    def visit(stmts):
        for st in stmts:
            if isinstance(st, ast.Try):
                continue
            if isinstance(st, ast.If):
                # 'if line: try: ...' is the guard clause 'if not line: return' written the other way round
                scan(st.test)
                visit(st.body)
                visit(st.orelse)
                continue
            scan(st)
    visit(fn.body)
    chk.judge("R14.c", "mod_daemon:process_input:nothing outside the try can raise", not outside,
              f"statements outside try/finally that may raise into the request loop: {outside}", None, where)
    # the finally body: only the reply
    for t in tries:
        for st in t.finalbody:
            for c in ast.walk(st):
                if isinstance(c, ast.Call):
                    f = norm(c.func)
                    if f not in TOTAL_CALLS and f not in ("print", "json.dumps", "base64.b64encode") and not f.endswith((".encode", ".decode")):
                        chk.bad("R14.c", f"mod_daemon:process_input:finally calls {f}", "call in the reply path that may raise after the handlers", None, f"{path}:{c.lineno}")


def _ancestors_until(node, stop):
    n = getattr(node, "parent", None)
    while n is not None and n is not stop:
        yield n
        n = getattr(n, "parent", None)
