"""C03 — compile-time evaluation equals run-time evaluation (R03.a–h)."""
from __future__ import annotations

import ast
import math
from ..model import Repo, AnalysisError, norm, enclosing_def
from ..report import Check
from ..consteval import TOP, Lam
from ..tables import helper_rows, const_dict, module_dict
from ..isa import ISA
from ..origin import Origin
from .shared import rule_alias_single_assignment, fn_ctx, live_ids, implied_by_guards, guard_atoms

# operator semantics oracle: IC10 opcode -> Python operator class the folder must evaluate with
BIN_SEM = {
    "add": ast.Add, "sub": ast.Sub, "mul": ast.Mult, "div": ast.Div, "mod": ast.Mod, "pow": ast.Pow,
    "and": ast.BitAnd, "or": ast.BitOr, "xor": ast.BitXor,
    "sll": ast.LShift, "sla": ast.LShift, "srl": ast.RShift, "sra": ast.RShift,
    "seq": ast.Eq, "sne": ast.NotEq, "slt": ast.Lt, "sgt": ast.Gt, "sle": ast.LtE, "sge": ast.GtE,
    "max": "max", "min": "min",
}
# source operator token -> Python operator classes that spell it
KEY_SEM = {
    "+": {ast.Add}, "-": {ast.Sub}, "*": {ast.Mult}, "/": {ast.Div}, "%": {ast.Mod}, "**": {ast.Pow},
    "and": {ast.BitAnd, ast.And}, "or": {ast.BitOr, ast.Or}, "^": {ast.BitXor}, "&": {ast.BitAnd}, "|": {ast.BitOr},
    ">>": {ast.RShift}, "<<": {ast.LShift},
    "==": {ast.Eq}, "!=": {ast.NotEq}, "<": {ast.Lt}, ">": {ast.Gt}, "<=": {ast.LtE}, ">=": {ast.GtE},
}
UN_SEM = {"sub": ast.USub, "seqz": ast.Not, "not": ast.Invert}
UN_KEY = {"-": ast.USub, "not": ast.Not, "~": ast.Invert}
# math functions whose Python definition equals the IC10 instruction of the same name (radians, natural log)
MATH_SAME = {"sin": 1, "cos": 1, "tan": 1, "asin": 1, "acos": 1, "atan": 1, "atan2": 2, "sqrt": 1, "log": 1, "exp": 1,
             "ceil": 1, "floor": 1, "trunc": 1, "pow": 2}


# library functions that compute exactly what an operator computes / that are known to differ from the IC10 instruction
CALL_SEM = {"operator.add": ast.Add, "operator.sub": ast.Sub, "operator.mul": ast.Mult, "operator.truediv": ast.Div, "operator.mod": ast.Mod,
            "operator.pow": ast.Pow, "pow": ast.Pow, "math.pow": ast.Pow, "operator.and_": ast.BitAnd, "operator.or_": ast.BitOr, "operator.xor": ast.BitXor,
            "operator.lshift": ast.LShift, "operator.rshift": ast.RShift, "operator.eq": ast.Eq, "operator.ne": ast.NotEq, "operator.lt": ast.Lt,
            "operator.le": ast.LtE, "operator.gt": ast.Gt, "operator.ge": ast.GtE}
CALL_DIFFERENT = {"math.fmod": "keeps the sign of the dividend, IC10 mod does not", "math.remainder": "rounds to nearest, IC10 mod does not",
                  "operator.floordiv": "floors, IC10 div does not", "divmod": "returns a pair", "math.copysign": "not an IC10 operator",
                  "math.hypot": "not an IC10 operator", "math.ldexp": "not a shift on doubles", "math.log": "two-argument log is not an IC10 operator"}


def _strip(e, params):
    """Remove coercion wrappers: _e(x), int(_e(x)), float(x), bool(x) -> parameter name or None."""
    depth = 0
    wrappers = []
    while isinstance(e, ast.Call) and isinstance(e.func, ast.Name) and len(e.args) == 1 and not e.keywords and depth < 4:
        wrappers.append(e.func.id)
        e = e.args[0]
        depth += 1
    if isinstance(e, ast.Name) and e.id in params:
        return e.id, wrappers
    return None, wrappers


def evaluator_shape(lam: ast.Lambda):
    """('bin', opclass, leftparam, rightparam, wrappers) | ('un', opclass, param, wrappers) | None"""
    params = [a.arg for a in lam.args.args]
    b = lam.body
    if isinstance(b, ast.BinOp):
        l, wl = _strip(b.left, params)
        r, wr = _strip(b.right, params)
        return ("bin", type(b.op), l, r, wl + wr)
    if isinstance(b, ast.Compare) and len(b.ops) == 1:
        l, wl = _strip(b.left, params)
        r, wr = _strip(b.comparators[0], params)
        return ("bin", type(b.ops[0]), l, r, wl + wr)
    if isinstance(b, ast.BoolOp) and len(b.values) == 2:
        l, wl = _strip(b.values[0], params)
        r, wr = _strip(b.values[1], params)
        return ("bin", type(b.op), l, r, wl + wr)
    if isinstance(b, ast.UnaryOp):
        p, w = _strip(b.operand, params)
        return ("un", type(b.op), p, w)
    if isinstance(b, ast.Call) and isinstance(b.func, ast.Name) and b.func.id in ("max", "min") and len(b.args) == 2:
        l, wl = _strip(b.args[0], params)
        r, wr = _strip(b.args[1], params)
        return ("bin", b.func.id, l, r, wl + wr)
    if isinstance(b, ast.Call) and len(b.args) == 2 and not b.keywords:
        # a library function instead of an operator
        fname = norm(b.func).replace('__import__("math")', "math").replace("__import__('math')", "math")
        l, wl = _strip(b.args[0], params)
        r, wr = _strip(b.args[1], params)
        if fname in CALL_SEM:
            return ("bin", CALL_SEM[fname], l, r, wl + wr)
        if fname in CALL_DIFFERENT:
            return ("bin", "call " + fname + " (" + CALL_DIFFERENT[fname] + ")", l, r, wl + wr)
    return None


def fold_table_rows(repo: Repo, chk: Check, RA: str, RB: str):
    """Rows of the operator tables: evaluator vs key (RA) and vs opcode (RB)."""
    u = repo.mod("utils")
    chk.saw("utils", "get_binop_instruction")
    chk.saw("utils", "get_unop_instruction")
    # ------------------------------------------------------------ R03.a / R03.b
    for fname, arity in (("get_binop_instruction", 2), ("get_unop_instruction", 1)):
        rows, how, default = helper_rows(repo, "utils", fname)
        for r in rows:
            where = f"{u.path}:{r.node.lineno} in {fname}"
            opcodes, lams = set(), []
            if r.values is not TOP:
                for v in r.values:
                    if isinstance(v, tuple) and len(v) == 2:
                        opcodes.add(v[0])
                        if isinstance(v[1], Lam):
                            lams.append(v[1].node)
            # the evaluator may be written inline as the second tuple element
            if not lams and isinstance(r.node, ast.Tuple) and len(r.node.elts) == 2 and isinstance(r.node.elts[1], ast.Lambda):
                lams = [r.node.elts[1]]
            key = f"utils:{fname}:row {r.key!r}"
            if len(opcodes) != 1 or len(lams) != 1:
                raise AnalysisError(f"{key}: row is not (opcode, lambda) — shape not recognised ({norm(r.node)[:80]})")
            (opcode,) = opcodes
            shape = evaluator_shape(lams[0])
            if shape is None:
                raise AnalysisError(f"{key}: evaluator {norm(lams[0])} has an unrecognised shape")
            params = [a.arg for a in lams[0].args.args]
            facts = {"opcode": opcode, "evaluator": norm(lams[0])}
            if arity == 2:
                if shape[0] != "bin" or len(params) != 2:
                    chk.bad(RA, key, f"binary operator {r.key!r} has the evaluator {norm(lams[0])}", facts, where)
                    continue
                _, opc, l, rr, wr = shape
                want = KEY_SEM.get(r.key)
                if want is None:
                    chk.ok(RA, key + " [operator outside the oracle: not judged]", facts, vacuous=True)
                else:
                    ok = opc in want and l == params[0] and rr == params[1]
                    chk.judge(RA, key, ok,
                              f"row {r.key!r} is evaluated by {norm(lams[0])}: expected operator {sorted(c.__name__ for c in want)} on ({params[0]}, {params[1]}) in that order",
                              facts, where)
                sem = BIN_SEM.get(opcode)
                if opcode not in ISA:
                    chk.ok(RB, key + f" [opcode {opcode!r} not in the ISA: reported by C09]", facts, vacuous=True)
                elif sem is None:
                    chk.bad(RB, key, f"opcode {opcode!r} has no arithmetic meaning the folder could mirror", facts, where)
                else:
                    chk.judge(RB, key, opc is sem or opc == sem,
                              f"row {r.key!r} emits {opcode!r} at run time but folds with {getattr(opc, '__name__', opc)} "
                              f"(the instruction computes {getattr(sem, '__name__', sem)})", facts, where)
            else:
                if shape[0] != "un" or len(params) != 1:
                    chk.bad(RA, key, f"unary operator {r.key!r} has the evaluator {norm(lams[0])}", facts, where)
                    continue
                _, opc, p, wr = shape
                want = UN_KEY.get(r.key)
                chk.judge(RA, key, want is not None and opc is want and p == params[0],
                          f"row {r.key!r} is evaluated by {norm(lams[0])}", facts, where)
                sem = UN_SEM.get(opcode)
                if opcode not in ISA:
                    chk.ok(RB, key + f" [opcode {opcode!r} not in the ISA: reported by C09]", facts, vacuous=True)
                else:
                    chk.judge(RB, key, sem is not None and opc is sem,
                              f"row {r.key!r} emits {opcode!r} at run time but folds with {opc.__name__}", facts, where)



def run(repo: Repo, chk: Check):
    chk.rule("R03.a", "each operator-table row evaluates with the Python operator its key names, on (first, second) parameter in that order", floor=20)
    chk.rule("R03.b", "each row's evaluator has the semantics of the IC10 opcode in the same row (bitwise opcode <-> bitwise "
                      "operator, never Python's short-circuit and/or; relational <-> the same comparison)", floor=20)
    chk.rule("R03.c", "every name in _math_functions that Python's math module can evaluate denotes the same function as the "
                      "IC10 instruction of that name (same arity, an intrinsic wrapper exists)", floor=10)
    chk.rule("R03.d", "a constant (or another value) is propagated through a variable only under 'not is_overwritten'", floor=3)
    chk.rule("R03.e", "constants[k] is the module variable k of types.py, so the folded and the un-folded spelling agree", floor=3)
    chk.rule("R03.f", "the operand coercion _e ends in float(value) and sends HASH(\"...\") spellings through the numeric hash", floor=2)
    chk.rule("R03.g", "a literal replaces an expression only under the node's is_constant flag (or the callee's is_constexpr)", floor=5)
    chk.rule("R03.m", "every symbolic spelling that the output mode can produce (HASH(\"...\"), STR(\"...\")) is understood by the coercions of the "
                      "folding tables and evaluated to the number the compact output carries: folding must not succeed in one mode and fail in the other", floor=2)
    chk.guarded(r03m, repo, chk)
    chk.rule("R03.k", "every table evaluator reads its operands through a coercion that maps a HASH(\"...\") spelling to its number "
                      "(whether a hash is spelled symbolically depends on the output mode, the folded value must not)", floor=20)
    chk.rule("R03.i", "in the constness passes the value of an operator node (binary, boolean, comparison, unary) is set only from "
                      "the result of the table evaluator applied to constant operands — never from one operand alone or a literal", floor=3)
    chk.rule("R03.j", "a folded subscript uses the constant list and the constant index exactly as computed (the index is not "
                      "truncated or wrapped before use)", floor=1)
    chk.rule("R03.h", "every call of a table evaluator passes the constant values of (left, right) / (operand) in that order, "
                      "under a guard that they are constant, and its failures are not turned into values", floor=5)
    u = repo.mod("utils")
    chk.saw("utils", "get_binop_instruction")
    chk.saw("utils", "get_unop_instruction")

    chk.guarded(fold_table_rows, repo, chk, "R03.a", "R03.b")

    # ------------------------------------------------------------ R03.c
    m, st, v = module_dict(repo, "utils", "_math_functions")
    if isinstance(v, ast.Call) and v.args:
        v = v.args[0]
    if not isinstance(v, (ast.Set, ast.List, ast.Tuple)) or not all(isinstance(e, ast.Constant) and isinstance(e.value, str) for e in v.elts):
        raise AnalysisError("utils._math_functions is not a literal collection of names")
    intr = repo.mod("intrinsics")
    for e in v.elts:
        name = e.value
        key = f"utils:_math_functions:{name}"
        where = f"{u.path}:{e.lineno}"
        if not hasattr(math, name):
            chk.ok("R03.c", key + " [not a math function: never folded]", None, vacuous=True)
            continue
        wrapper = intr.funcs.get(name) or intr.funcs.get(name + "_")
        n_params = len(wrapper.args.args) if wrapper is not None else None
        ok = name in MATH_SAME and name in ISA and ISA[name] == (MATH_SAME[name], True) and n_params == MATH_SAME[name]
        chk.judge("R03.c", key, ok,
                  f"math.{name} is used to fold calls of {name}(), but it is not the function the IC10 instruction {name!r} computes "
                  f"(oracle arity {MATH_SAME.get(name)}, ISA {ISA.get(name)}, wrapper parameters {n_params})",
                  {"isa": ISA.get(name), "wrapper_params": n_params}, where)
    # is_math_function reads that table and is_constant uses getattr(math, <the call's name>)
    isc = u.func("is_constant")
    chk.saw("utils", "is_constant")
    getattrs = [c for c in ast.walk(isc) if isinstance(c, ast.Call) and norm(c.func) == "getattr" and c.args and norm(c.args[0]) == "math"]
    ok = bool(getattrs)
    detail = []
    cfg, rd = fn_ctx(isc)
    for c in getattrs:
        ids = live_ids(cfg, c)
        name_arg = norm(c.args[1]) if len(c.args) > 1 else ""
        guarded = any(isinstance(t, ast.Call) and norm(t.func) == "is_math_function" and p and norm(t.args[0]) == name_arg
                      for t, p in guard_atoms(cfg, ids[0])) if ids else False
        detail.append((name_arg, guarded))
        ok = ok and guarded
    chk.judge("R03.c", "utils:is_constant:math look-up is guarded by is_math_function of the same name", ok,
              f"getattr(math, ...) in is_constant is not guarded by is_math_function(<same name>): {detail}", {"sites": detail},
              f"{u.path}:{isc.lineno} in is_constant")

    # ------------------------------------------------------------ R03.d
    rule_alias_single_assignment(repo, chk, "R03.d", literal_only=True)

    # ------------------------------------------------------------ R03.e
    t = repo.mod("types")
    consts = const_dict(repo, "types", "constants")
    for k, (node, vals) in consts.items():
        chk.judge("R03.e", f"types:constants:{k}", isinstance(node, ast.Name) and node.id == k and k in t.assigns,
                  f"constants[{k!r}] is {norm(node)}, not the module variable {k}", {"value": norm(node)}, f"{t.path}:{node.lineno}")

    # ------------------------------------------------------------ R03.f
    ef = u.func("_e")
    chk.saw("utils", "_e")
    rets = [r for r in ast.walk(ef) if isinstance(r, ast.Return) and r.value is not None]
    param = ef.args.args[0].arg
    last = ef.body[-1]
    ok = isinstance(last, ast.Return) and isinstance(last.value, ast.Call) and norm(last.value.func) == "float" and norm(last.value.args[0]) == param
    chk.judge("R03.f", "utils:_e:falls through to float(value)", ok, f"_e ends in {norm(last)[:80]}, expected 'return float({param})'",
              None, f"{u.path}:{last.lineno} in _e")
    # every other way out of _e hands back a double as well: Python's integers are exact at any size, the chip's numbers are doubles
    CONV = ("float", "compute_hash", "compute_string", "calc_hash")
    raw = []
    for r in rets:
        v = r.value
        if isinstance(v, ast.Call) and norm(v.func) in CONV:
            continue
        conv = False
        if isinstance(v, ast.Name):
            # the statements of the same block in front of the return: the name was just given a converted value
            blk = None
            par = getattr(r, "parent", None)
            for fld in ("body", "orelse"):
                if r in (getattr(par, fld, None) or []):
                    blk = getattr(par, fld)
            before = blk[:blk.index(r)] if blk else []
            given = [x for x in before if isinstance(x, ast.Assign) and any(isinstance(t_, ast.Name) and t_.id == v.id for t_ in x.targets)]
            conv = bool(given) and isinstance(given[-1].value, ast.Call) and norm(given[-1].value.func) in CONV
        if not conv:
            raw.append(norm(v)[:50])
    chk.judge("R03.f", "utils:_e:every value leaves as a double (or as the number of a hash / string constant)", not raw,
              f"_e also returns {raw} unconverted: an int stays a Python integer, whose arithmetic is exact at any size, while the chip computes in doubles "
              f"(123456789 * 987654321 % 1000 folds to 269, the chip gives 264)", {"unconverted": raw}, f"{u.path}:{ef.lineno} in _e")
    hash_ok = False
    for st in ast.walk(ef):
        if isinstance(st, ast.Assign) and isinstance(st.value, ast.Call) and norm(st.value.func) == "compute_hash":
            kw = [norm(a) for a in st.value.args[1:]] + [norm(k.value) for k in st.value.keywords]
            sl = st.value.args[0] if st.value.args else None
            hash_ok = any(x.endswith("NUMERIC") for x in kw) and isinstance(sl, ast.Subscript) and norm(sl) == f"{param}[6:-2]"
    chk.judge("R03.f", "utils:_e:HASH(\"...\") spellings are evaluated numerically", hash_ok,
              "the HASH(\"name\") branch of _e does not call compute_hash(value[6:-2], OutputMode.NUMERIC)", None, f"{u.path}:{ef.lineno} in _e")

    # ------------------------------------------------------------ R03.g
    g = repo.mod("generate_code")
    n = 0
    for fn in g.funcs.values():
        for st in ast.walk(fn):
            if not (isinstance(st, ast.Assign) and enclosing_def(st) is fn):
                continue
            if not any(isinstance(tg, ast.Attribute) and tg.attr == "result" for tg in st.targets):
                continue
            txt = norm(st.value)
            if "constant_value" not in txt:
                continue
            recv = None
            for a in ast.walk(st.value):
                if isinstance(a, ast.Attribute) and a.attr == "constant_value":
                    recv = norm(a.value)
            cfg, rd = fn_ctx(fn)
            ids = live_ids(cfg, st)
            if not ids:
                continue
            n += 1
            chk.saw("generate_code", fn.qual)
            ok = implied_by_guards(cfg, rd, ids[0], recv + ".is_constant", True) or \
                any(norm(t).endswith(".is_constexpr") and p for t, p in guard_atoms(cfg, ids[0]))
            chk.judge("R03.g", f"generate_code:{fn.qual}:{norm(st)[:80]}", ok,
                      f"the literal {txt} replaces the expression without a guard on {recv}.is_constant", None,
                      f"{g.path}:{st.lineno} in {fn.qual}")
    if n < 4:
        raise AnalysisError(f"R03.g: only {n} literal-substitution sites found")

    # ------------------------------------------------------------ R03.h
    chk.guarded(r03h, repo, chk)
    chk.guarded(r03k, repo, chk)
    chk.guarded(r03i, repo, chk)
    chk.guarded(r03j, repo, chk)
    chk.rule("R03.l", "a folded value reaches the program text unchanged: IC10Operand turns a float into an integer only when the float is exactly that "
                      "integer, and no tolerance is applied (shared with R09.d)", floor=1)
    from .c09 import r09_exact_integral
    chk.guarded(r09_exact_integral, repo, chk, "R03.l")


def r03h(repo: Repo, chk: Check):
    """Calls of an evaluator obtained from the operator tables."""
    total = 0
    for mn in ("compile_pass", "utils", "generate_code"):
        m = repo.mod(mn)
        for fn in m.funcs.values():
            if isinstance(fn, ast.Lambda):
                continue
            cfg = rd = None
            for c in ast.walk(fn):
                if not (isinstance(c, ast.Call) and isinstance(c.func, ast.Name) and enclosing_def(c) is fn):
                    continue
                if cfg is None:
                    cfg, rd = fn_ctx(fn)
                ids = live_ids(cfg, c)
                if not ids:
                    continue
                ds = rd.at(ids[0], c.func.id)
                src = None
                for d in ds:
                    if d.kind == "assign" and d.index == (1,) and isinstance(d.value, ast.Call) and norm(d.value.func) in ("get_binop_instruction", "get_unop_instruction"):
                        src = norm(d.value.func)
                if src is None:
                    continue
                total += 1
                chk.saw(mn, fn.qual)
                o = Origin(fn)
                tags = [o.tags(a, ids[0]) for a in c.args]
                key = f"{mn}:{fn.qual}:{norm(c)[:90]}"
                where = f"{m.path}:{c.lineno} in {fn.qual}"
                if src == "get_binop_instruction":
                    ok = len(tags) == 2 and tags[0] == {"left"} and tags[1] == {"right"}
                    msg = f"evaluator is called with operands from {[sorted(t) for t in tags]}, expected (left, right)"
                else:
                    ok = len(tags) == 1 and tags[0] == {"operand"}
                    msg = f"evaluator is called with operand from {[sorted(t) for t in tags]}, expected (operand)"
                chk.judge("R03.h", key, ok, msg, {"origins": [sorted(t) for t in tags]}, where)
                # guarded by constness of what is passed (is_constant flags / constness results / Const nodes)
                atoms = guard_atoms(cfg, ids[0])
                gtxt = " & ".join(norm(t) + ("" if p else "=False") for t, p in atoms)
                need = 2 if src == "get_binop_instruction" else 1
                have = 0
                for t, p in atoms:
                    if not p:
                        continue
                    tt = norm(t)
                    flag = False
                    if isinstance(t, ast.Name):
                        # a local that holds the constness verdict of is_constant(..) (first element of its result), whatever it is called
                        tid = live_ids(cfg, t)
                        fds = rd.at(tid[0] if tid else ids[0], t.id)
                        flag = bool(fds) and all(d.kind == "assign" and d.index == (0,) and isinstance(d.value, ast.Call) and norm(d.value.func).endswith("is_constant") for d in fds)
                    if flag or tt.endswith(".is_constant") or tt.endswith("_const") or (isinstance(t, ast.Call) and norm(t.func) == "isinstance" and "Const" in tt):
                        have += 1
                chk.judge("R03.h", key + " [guard]", have >= need,
                          f"the evaluator is applied without a guard that all {need} operand(s) are constant (guards: {gtxt})",
                          {"guards": gtxt}, where)
    if total < 5:
        raise AnalysisError(f"R03.h: only {total} evaluator call sites found (expected >= 5)")


def r03i(repo: Repo, chk: Check):
    cp = repo.mod("compile_pass")
    hs = repo.handlers()
    n = 0
    for cls in ("CompilerPassCheckConstValue", "CompilerPassCheckConstValueAssign"):
        for nt in ("BinOp", "BoolOp", "Compare", "UnaryOp"):
            q = f"{cls}.{hs[nt]}"
            if q not in cp.funcs:
                continue
            fn = cp.funcs[q]
            cfg, rd = fn_ctx(fn)
            for c in ast.walk(fn):
                if not (isinstance(c, ast.Call) and isinstance(c.func, ast.Attribute) and c.func.attr == "set_constant" and c.args):
                    continue
                ids = live_ids(cfg, c)
                if not ids:
                    continue
                n += 1
                chk.saw("compile_pass", q)
                a = c.args[0]
                ok = _from_evaluator(a, rd, ids[0])
                chk.judge("R03.i", f"compile_pass:{q}:set_constant({norm(a)[:50]})", ok,
                          f"the operator node's constant is set to {norm(a)}, which is not the result of the operator table's evaluator on the constant operands: "
                          f"the folded value can differ from what the emitted instruction computes (e.g. Python short-circuit vs. bitwise and/or)",
                          None, f"{cp.path}:{c.lineno} in {q}")
    if n < 3:
        raise AnalysisError(f"R03.i: only {n} set_constant sites in the operator handlers of the constness pass")


def _from_evaluator(a, rd, nid, depth=0):
    if depth > 4:
        return False
    if isinstance(a, ast.Call) and isinstance(a.func, ast.Name):
        ds = rd.at(nid, a.func.id)
        return bool(ds) and all(d.kind == "assign" and d.index == (1,) and isinstance(d.value, ast.Call)
                                and norm(d.value.func) in ("get_binop_instruction", "get_unop_instruction") for d in ds)
    if isinstance(a, ast.Name):
        ds = rd.at(nid, a.id)
        return bool(ds) and all(d.kind == "assign" and d.value is not None and not d.index and _from_evaluator(d.value, rd, d.node, depth + 1) for d in ds)
    return False


def r03j(repo: Repo, chk: Check):
    u = repo.mod("utils")
    fn = u.func("is_constant")
    cfg, rd = fn_ctx(fn)
    found = 0
    for r in ast.walk(fn):
        if not (isinstance(r, ast.Return) and isinstance(r.value, ast.Tuple) and len(r.value.elts) == 2 and isinstance(r.value.elts[1], ast.Subscript)):
            continue
        sub = r.value.elts[1]
        if not (isinstance(sub.value, ast.Name) and isinstance(sub.slice, ast.Name)):
            continue
        ids = live_ids(cfg, r)
        if not ids:
            continue
        found += 1
        bad = []
        for nm, field in ((sub.value.id, "value"), (sub.slice.id, "slice")):
            ds = rd.at(ids[0], nm)
            for d in ds:
                direct = d.kind == "assign" and d.index == (1,) and isinstance(d.value, ast.Call) and norm(d.value.func) == "is_constant" \
                    and norm(d.value.args[0]).endswith("." + field)
                if direct:
                    continue
                # accepted: int(x) under a guard that x is integral
                v = d.value
                integral = d.kind == "assign" and isinstance(v, ast.Call) and norm(v.func) == "int" and norm(v.args[0]) == nm and \
                    any(p and ("is_integer" in norm(t) or f"int({nm})" in norm(t) and "==" in norm(t)) for t, p in guard_atoms(cfg, d.node))
                if not integral:
                    bad.append(f"{nm} = {norm(v) if v is not None else d.kind}")
        chk.judge("R03.j", "utils:is_constant:folded subscript uses list and index as computed", not bad,
                  f"before indexing, {bad}: the folded element differs from the one the run-time select chain / jump table picks for the same index "
                  f"(fractional indices truncated, negative ones wrapped)", {"redefinitions": bad}, f"{u.path}:{r.lineno} in is_constant")
    if not found:
        raise AnalysisError("R03.j: folded subscript (return True, value[slice]) not found in is_constant")


def _prefix_tests(fn):
    """[(call, prefixes)] for every  <x>.startswith(<constant or tuple of constants>)  in fn."""
    out = []
    for c in ast.walk(fn):
        if isinstance(c, ast.Call) and isinstance(c.func, ast.Attribute) and c.func.attr == "startswith" and len(c.args) == 1:
            a = c.args[0]
            if isinstance(a, ast.Constant) and isinstance(a.value, str):
                out.append((c, (a.value,)))
            elif isinstance(a, ast.Tuple) and all(isinstance(e, ast.Constant) and isinstance(e.value, str) for e in a.elts):
                out.append((c, tuple(e.value for e in a.elts)))
    return out


def _normalisers(repo):
    """Functions of utils.py that turn a HASH("...") spelling into its number."""
    u = repo.mod("utils")
    out = set()
    for _ in range(3):
        for name, fn in u.funcs.items():
            if "." in name or name in out:
                continue
            if not any('HASH("' in ps for _c, ps in _prefix_tests(fn)):
                continue
            calls = {c.func.id for c in ast.walk(fn) if isinstance(c, ast.Call) and isinstance(c.func, ast.Name)}
            if calls & ({"compute_hash", "calc_hash"} | out):
                out.add(name)
    return out


def symbolic_spellings(repo):
    """{prefix: producing function} for every spelling  PREFIX("...")  that types.py hands to _apply_output_mode."""
    t = repo.mod("types")
    out = {}
    for name, fn in t.funcs.items():
        if "." in name:
            continue
        cfg = rd = None
        for c in ast.walk(fn):
            if not (isinstance(c, ast.Call) and norm(c.func).split(".")[-1] == "_apply_output_mode" and len(c.args) >= 2):
                continue
            sv = c.args[1]
            if isinstance(sv, ast.Name):
                cfg, rd = fn_ctx(fn)
                ids = live_ids(cfg, c)
                ds = rd.at(ids[0], sv.id) if ids else []
                if len(ds) == 1 and ds[0].kind == "assign" and not ds[0].index and ds[0].value is not None:
                    sv = ds[0].value
            from .shared import string_parts
            parts = string_parts(sv)
            if parts and len(parts) == 3 and isinstance(parts[0], str) and parts[0].endswith('("') and parts[2] == '")':
                out[parts[0]] = name
            else:
                raise AnalysisError(f"{name}: the symbolic spelling handed to _apply_output_mode ({norm(sv)[:60]}) is not of the form PREFIX(\"...\")")
    return out


def r03m(repo: Repo, chk: Check, R="R03.m"):
    """Every symbolic spelling the output mode can produce is understood by the folding coercions."""
    u = repo.mod("utils")
    spell = symbolic_spellings(repo)
    if 'HASH("' not in spell:
        raise AnalysisError(f"R03.m: the producer of HASH(\"...\") spellings was not found in types.py (found {sorted(spell)})")
    normalisers = _normalisers(repo)
    if not normalisers:
        raise AnalysisError("R03.m: no coercion function handling HASH(\"...\") spellings found in utils.py")
    handled = {}
    for name in sorted(normalisers):
        fn = u.func(name)
        chk.saw("utils", name)
        cfg, rd = fn_ctx(fn)
        got = {}
        for tst, prefixes in _prefix_tests(fn):
            # what is done under this test: a call of the producer with the unwrapped text in NUMERIC mode, or of another normaliser
            for c in ast.walk(fn):
                if not (isinstance(c, ast.Call) and isinstance(c.func, ast.Name)):
                    continue
                ids = live_ids(cfg, c)
                if not ids or not any(t is tst and pol for t, pol in guard_atoms(cfg, ids[0])):
                    continue
                if c.func.id in normalisers:
                    for p_ in prefixes:
                        got.setdefault(p_, ("delegates", c.func.id))
                for p_ in prefixes:
                    if c.func.id == spell.get(p_) and c.args:
                        numeric = any(norm(a).endswith("NUMERIC") for a in c.args[1:]) or any(norm(k.value).endswith("NUMERIC") for k in c.keywords)
                        a0 = c.args[0]
                        cut = None
                        if isinstance(a0, ast.Subscript) and isinstance(a0.slice, ast.Slice) and a0.slice.step is None:
                            lo, hi = a0.slice.lower, a0.slice.upper
                            lo = lo.value if isinstance(lo, ast.Constant) else (len(p_) if lo is not None and norm(lo) == f"len({p_!r})" else None)
                            hi = -hi.operand.value if isinstance(hi, ast.UnaryOp) and isinstance(hi.op, ast.USub) and isinstance(hi.operand, ast.Constant) else None
                            cut = (lo, hi)
                        elif isinstance(a0, ast.Call) and isinstance(a0.func, ast.Attribute) and a0.func.attr == "removesuffix" and isinstance(a0.func.value, ast.Call) \
                                and isinstance(a0.func.value.func, ast.Attribute) and a0.func.value.func.attr == "removeprefix":
                            pa, sa_ = a0.func.value.args[0], a0.args[0]
                            if isinstance(pa, ast.Constant) and isinstance(sa_, ast.Constant):
                                cut = (len(pa.value) if pa.value == p_ else None, -len(sa_.value) if sa_.value == '")' else None)
                        if cut is None:
                            raise AnalysisError(f"{name}: how {norm(a0)[:60]} unwraps the spelling {p_}...\") is not recognised")
                        got[p_] = ("direct", numeric, cut)
        handled[name] = got
    for name in sorted(normalisers):
        fn = u.func(name)
        for p_, producer in sorted(spell.items()):
            key = f"utils:{name}:understands the spelling {p_}...\") of types.{producer}"
            where = f"{u.path}:{fn.lineno} in {name}"
            h = handled[name].get(p_)
            if h is None:
                chk.bad(R, key, f"types.{producer} spells its value as {p_}...\") in verbose mode and as a number in compact mode; {name} has no branch for that spelling, so an "
                                f"expression over such a constant is folded in compact mode and is rejected (or compared as text) in verbose mode", None, where)
            elif h[0] == "delegates":
                tgt = handled.get(h[1], {}).get(p_)
                chk.judge(R, key, tgt is not None and tgt[0] == "direct", f"{name} passes {p_}...\") on to {h[1]}, which has no branch for it", None, where)
            else:
                _, numeric, cut = h
                chk.judge(R, key, numeric and cut == (len(p_), -2),
                          f"the branch for {p_}...\") calls {producer} with a cut of {cut} characters (the wrapper has {len(p_)} and 2) "
                          f"{'in NUMERIC mode' if numeric else 'WITHOUT forcing the numeric mode'}: the folded value is not the number the compact output carries",
                          {"cut": cut, "numeric": numeric}, where)


def r03k(repo: Repo, chk: Check, R="R03.k"):
    u = repo.mod("utils")
    normalisers = _normalisers(repo)
    if not normalisers:
        raise AnalysisError("R03.k: no coercion function handling HASH(\"...\") spellings found in utils.py")
    for fname in ("get_binop_instruction", "get_unop_instruction"):
        rows, how, default = helper_rows(repo, "utils", fname)
        for r in rows:
            lam = None
            if r.values is not TOP:
                for v in r.values:
                    if isinstance(v, tuple) and len(v) == 2 and isinstance(v[1], Lam):
                        lam = v[1].node
            if lam is None:
                continue
            params = [a.arg for a in lam.args.args]
            raw = []
            for nme in ast.walk(lam.body):
                if isinstance(nme, ast.Name) and nme.id in params:
                    # climb through the single-argument calls wrapping the parameter
                    p, ok = nme, False
                    while True:
                        par = getattr(p, "parent", None)
                        if isinstance(par, ast.Call) and len(par.args) == 1 and par.args[0] is p and isinstance(par.func, ast.Name):
                            if par.func.id in normalisers:
                                ok = True
                            p = par
                            continue
                        break
                    if not ok:
                        raw.append(nme.id)
            chk.judge(R, f"utils:{fname}:row {r.key!r} operands are normalised", not raw,
                      f"the evaluator {norm(lam)} uses {sorted(set(raw))} as spelled: a HASH(\"...\") constant is the text 'HASH(\"...\")' in verbose mode and a number "
                      f"in compact mode, so the folded result (and with it the branch that is kept) depends on the output mode",
                      {"normalisers": sorted(normalisers)}, f"{u.path}:{lam.lineno} in {fname}")
