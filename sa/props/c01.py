"""C01 — compiled IC10 behaves like the source: structural clauses R01.a–i."""
from __future__ import annotations

import ast
from ..model import Repo, AnalysisError, norm, enclosing_def
from ..report import Check
from ..consteval import TOP, FnEval, Pattern, S
from ..tables import helper_rows, const_dict
from ..emit import collect_sites, label_def
from ..isa import ISA
from ..origin import Origin
from ..linnorm import lin, NotLinear
from .shared import (rule_alias_single_assignment, rule_loop_labels, fn_ctx, live_ids, guard_atoms,
                     implied_by_guards, handler_functions, negation_flags, GEN_CLASS)

CMP = {"==": "eq", "!=": "ne", "<": "lt", "<=": "le", ">": "gt", ">=": "ge"}
INV = {"==": "!=", "!=": "==", "<": ">=", ">=": "<", "<=": ">", ">": "<="}
BINOP_OPCODE = {
    "+": {"add"}, "-": {"sub"}, "*": {"mul"}, "/": {"div"}, "%": {"mod"}, "**": {"pow"},
    "and": {"and"}, "or": {"or"}, "^": {"xor"}, "&": {"and"}, "|": {"or"},
    ">>": {"srl", "sra"}, "<<": {"sll", "sla"},
    "==": {"seq"}, "!=": {"sne"}, "<": {"slt"}, "<=": {"sle"}, ">": {"sgt"}, ">=": {"sge"},
}
UNOP_OPCODE = {"-": {"sub"}, "not": {"seqz"}, "~": {"not"}}


def _one(vs):
    if vs is TOP or vs is None or len(vs) != 1:
        return None
    return next(iter(vs))


def run(repo: Repo, chk: Check):
    chk.rule("R01.a", "the comparison tables are total on the six operators, the plain one is the documented map, the negated one "
                      "is the plain one composed with the involution == <-> !=, < <-> >=, <= <-> >; sd?e tests map to the branch "
                      "on the opposite predicate", floor=14)
    chk.rule("R01.b", "every branch emitted for an if/while test jumps to the else/exit label on the NEGATED test (plain when the "
                      "test is written with 'not'), for all six operators and both values of the negation flag; constant tests "
                      "keep exactly the arm Python takes; materialised comparisons use the plain table", floor=10)
    chk.rule("R01.c", "a variable shares another value's register or literal (no move emitted) only under 'not is_overwritten'", floor=3)
    chk.rule("R01.d", "code is marked unused (pruned) only under a proven reason: a constant test or a name that is never read", floor=4)
    chk.rule("R01.e", "every loop lowering sets its continue and break labels before compiling the body; continue reaches the "
                      "step code; the break label follows the back jump", floor=9)
    chk.rule("R01.f", "the for-range exit test is bge for a non-negative constant step and ble otherwise", floor=2)
    chk.rule("R01.g", "the opcode column of the operator tables is the documented instruction of the operator", floor=20)
    chk.rule("R01.h", "operands of non-commutative constructs are the compiled sub-expressions in source order: (left,right), "
                      "(target,value), (0,operand), select(test,body,orelse), range(start,end,step)", floor=10)
    chk.rule("R01.m", "the jump emitted for 'break' / 'continue' is attached to the break / continue statement itself (in statement order), "
                      "not to an enclosing statement of the loop body", floor=2)
    chk.rule("R01.l", "device, slot, batch and stack accesses emit their operands in the order the instruction takes them (device/hash, "
                      "name hash, slot index, type, batch mode, address, value; shared with R09.e)", floor=14)
    chk.rule("R01.k", "a return omits the jump to the function's end label only when it is the last statement of the function body "
                      "(inside a loop or branch it would fall onto the loop's back jump / the ra logic would miss the exit; shared with R06.h)", floor=1)
    chk.rule("R01.n", "at a call all arguments are evaluated before the first one is stored (the stores and the jal go to the call's own "
                      "fragment, after the fragments of the argument nodes), and the result is read after the jal (shared with R06.g)", floor=3)
    chk.rule("R01.j", "an expression folded at compile time is evaluated with the operator its table row names and with the "
                      "semantics of the instruction emitted when it is not folded (shared with R03.a/b)", floor=40)
    chk.rule("R01.i", "constant-list indexing: every select picks the element whose index the condition encodes", floor=3)

    chk.guarded(r01a, repo, chk)
    chk.guarded(r01b, repo, chk)
    chk.guarded(rule_alias_single_assignment, repo, chk, "R01.c")
    chk.guarded(r01d, repo, chk)
    chk.guarded(rule_loop_labels, repo, chk, "R01.e")
    chk.guarded(r01f, repo, chk)
    chk.guarded(r01g, repo, chk)
    chk.guarded(r01h, repo, chk)
    chk.guarded(r01i, repo, chk)
    chk.guarded(r01m, repo, chk)
    from .c09 import r09e
    chk.guarded(r09e, repo, chk, "R01.l")
    from .c06 import r06h
    chk.guarded(r06h, repo, chk, "R01.k")
    from .c06 import r06g, r06a
    chk.guarded(r06g, repo, chk, "R01.n")
    chk.guarded(r06a, repo, chk, "R01.n")
    chk.rule("R01.o", "a stack kept by a pass while it compiles a construct is popped on every path to the handler's return, so break / continue and "
                      "nested constructs read their own entry (shared with R05.g)", floor=1)
    from .shared import rule_stack_balance
    chk.guarded(rule_stack_balance, repo, chk, "R01.o")
    chk.rule("R01.p", "the gather pass emits the fragment of every child once: a child that gather_code visits explicitly after the loop over all "
                      "children was excluded from that loop (handle_node put it into special_nodes for the same node type)", floor=1)
    chk.guarded(r01p, repo, chk)
    chk.rule("R01.q", "a conditional expression whose arms are both evaluated before the select must not run user code in an arm: the lowering is "
                      "used only for arms without calls, or the arms are compiled into branches", floor=1)
    chk.guarded(r01q, repo, chk)
    chk.rule("R01.r", "a value that is read or written inside a loop keeps its register until the loop is left: the line interval of its accesses is widened to "
                      "the enclosing loops before the register allocator compares lifetimes, otherwise a later iteration reads a register that another value "
                      "took in between (shared with R04.d)", floor=4)
    from .c04 import rule_loop_widening
    chk.shared({"R04.d": "R01.r"}, rule_loop_widening, repo, chk)
    from .c03 import fold_table_rows
    chk.guarded(fold_table_rows, repo, chk, "R01.j", "R01.j")


# ---------------------------------------------------------------------- R01.a
def r01a(repo, chk):
    u = repo.mod("utils")
    plain, _, _ = helper_rows(repo, "utils", "get_comparison_suffix")
    neg, _, _ = helper_rows(repo, "utils", "get_negated_comparison_suffix")
    chk.saw("utils", "get_comparison_suffix")
    chk.saw("utils", "get_negated_comparison_suffix")
    pm = {r.key: _one(r.values) for r in plain}
    nm = {r.key: _one(r.values) for r in neg}
    for op in CMP:
        w = f"{u.path}:{u.func('get_comparison_suffix').lineno}"
        chk.judge("R01.a", f"utils:get_comparison_suffix:row {op!r}", pm.get(op) == CMP[op],
                  f"suffix of {op!r} is {pm.get(op)!r}, expected {CMP[op]!r}", {"value": pm.get(op)}, w)
        w = f"{u.path}:{u.func('get_negated_comparison_suffix').lineno}"
        chk.judge("R01.a", f"utils:get_negated_comparison_suffix:row {op!r}", nm.get(op) == CMP[INV[op]],
                  f"negated suffix of {op!r} is {nm.get(op)!r}, expected {CMP[INV[op]]!r} (the suffix of {INV[op]!r})", {"value": nm.get(op)}, w)
    extra = (set(pm) | set(nm)) - set(CMP)
    chk.judge("R01.a", "utils:comparison tables:no further rows", not extra, f"rows for unknown operators {sorted(extra)}", None, str(u.path))
    bv = const_dict(repo, "utils", "_branch_variant")
    want = {"sdse": "bdns", "sdns": "bdse"}
    for k, (node, vals) in bv.items():
        v = _one(vals)
        chk.judge("R01.a", f"utils:_branch_variant:row {k!r}", want.get(k) == v,
                  f"'if {k}(d):' must jump to the else label when the test fails, i.e. with {want.get(k)!r}; table says {v!r}",
                  {"value": v}, f"{u.path}:{node.lineno}")
    if set(bv) != set(want):
        chk.bad("R01.a", "utils:_branch_variant:keys", f"keys {sorted(bv)} differ from {sorted(want)}", None, str(u.path))


# ---------------------------------------------------------------------- R01.b
def _suffix_vars(expr, fe, nid):
    """Names / expressions passed to the suffix helpers inside expr (after
    following one level of local definitions)."""
    out = {}
    seen = set()

    def walk(e, at, depth):
        for c in ast.walk(e):
            if isinstance(c, ast.Call) and isinstance(c.func, ast.Name) and c.func.id in ("get_comparison_suffix", "get_negated_comparison_suffix") and c.args:
                out[norm(c.args[0])] = c.args[0]
            elif isinstance(c, ast.Call) and isinstance(c.func, ast.Name) and c.args:
                # a local alias of one of the two helpers:  suffix_for = get_comparison_suffix if negate else get_negated_comparison_suffix
                ds = fe.rd.at(at, c.func.id)
                if ds and all(d.kind == "assign" and d.value is not None and any(isinstance(x, ast.Name) and x.id in ("get_comparison_suffix", "get_negated_comparison_suffix")
                                                                                    for x in ast.walk(d.value)) for d in ds):
                    out[norm(c.args[0])] = c.args[0]
            if isinstance(c, ast.Name) and depth < 3 and (c.id, at) not in seen:
                seen.add((c.id, at))
                for d in fe.rd.at(at, c.id):
                    if d.kind == "assign" and d.value is not None and not d.index:
                        walk(d.value, d.node, depth + 1)
    walk(expr, nid, 0)
    return out


def r01b(repo, chk):
    g = repo.mod("generate_code")
    hs = repo.handlers()
    sites = collect_sites(repo, ["generate_code"])
    by_fn = {}
    for s in sites:
        by_fn.setdefault(s.qual, []).append(s)
    n_branch = 0
    for ntype, label_kind in (("If", "else"), ("While", "end")):
        hname = hs.get(ntype)
        if hname is None:
            raise AnalysisError(f"no handler registered for nodes.{ntype}")
        qual = f"CompilerPassGenerateCode.{hname}"
        fn = g.func(qual)
        chk.saw("generate_code", qual)
        fe = FnEval(repo, g, fn)
        flags = negation_flags(fn)
        if ntype == "If" and not flags:
            chk.bad("R01.b", f"generate_code:{qual}:negation flag", "the handler no longer tracks whether the test is written with 'not'",
                    None, f"{g.path}:{fn.lineno} in {qual}")
        for s in by_fn.get(qual, []):
            ops = s.opcodes
            if ops is TOP or not ops:
                continue
            if all(label_def(v) for v in ops):
                continue
            if not all(isinstance(v, str) and v.startswith("b") and v in ISA for v in ops):
                continue
            ins = s.input_exprs
            if not ins:
                continue
            last = ins[-1]
            ids = fe.node_ids(s.call)
            if not ids:
                continue
            nid = ids[0]
            # the jump target must be the construct's else/exit label
            ltags = _label_kinds(fe, last, nid)
            n_branch += 1
            key = f"generate_code:{qual}:{norm(s.call)[:90]}"
            where = s.where()
            chk.judge("R01.b", key + " [target]", ltags == {label_kind},
                      f"the branch on the test jumps to a label of kind {sorted(ltags)}, expected the construct's {label_kind!r} label",
                      {"target": norm(last), "kinds": sorted(ltags)}, where)
            svars = _suffix_vars(s.op_expr, fe, nid)
            if svars:
                (vtext, vexpr), = list(svars.items())[:1]
                cases = [(op, neg) for op in CMP for neg in ([False, True] if flags else [False])]
                bad = []
                for op, neg in cases:
                    ov = {vtext: S(op)}
                    if isinstance(vexpr, ast.Name):
                        ov[vexpr.id] = S(op)
                    for f in flags:
                        ov[f] = S(neg)
                    got = s.eval_op(repo, ov)
                    exp = "b" + (CMP[op] if neg else CMP[INV[op]])
                    if got is TOP or set(got) != {exp}:
                        bad.append((op, neg, sorted(got, key=repr) if got is not TOP else "TOP", exp))
                chk.judge("R01.b", key + " [polarity x operator]", not bad,
                          "wrong branch for (operator, test negated) -> emitted, expected: " + "; ".join(f"({o!r},{n}) -> {g_}, {e}" for o, n, g_, e in bad[:6]),
                          {"cases": len(cases), "wrong": bad[:6]}, where)
            else:
                # truthiness branch: beqz (jump when false) / bnez when negated
                bad = []
                for neg in ([False, True] if flags else [False]):
                    ov = {f: S(neg) for f in flags}
                    got = s.eval_op(repo, ov)
                    exp = "bnez" if neg else "beqz"
                    if got is TOP or set(got) != {exp}:
                        bad.append((neg, sorted(got, key=repr) if got is not TOP else "TOP", exp))
                chk.judge("R01.b", key + " [polarity]", not bad,
                          "wrong truthiness branch for (test negated) -> emitted, expected: " + "; ".join(f"{n} -> {g_}, {e}" for n, g_, e in bad),
                          {"wrong": bad}, where)
        if ntype == "If":
            _r01b_helper_arm(repo, chk, g, fn, fe, flags)
            _r01b_constant_arms(repo, chk, g, fn, fe, flags)
    if n_branch < 3:
        raise AnalysisError(f"R01.b: only {n_branch} branch sites recognised in the if/while handlers")
    # materialised comparison: plain table
    hname = hs.get("Compare")
    qual = f"CompilerPassGenerateCode.{hname}"
    fn = g.func(qual)
    fe = FnEval(repo, g, fn)
    chk.saw("generate_code", qual)
    found = 0
    for s in by_fn.get(qual, []):
        ids = fe.node_ids(s.call)
        if not ids:
            continue
        svars = _suffix_vars(s.op_expr, fe, ids[0])
        if not svars:
            continue
        found += 1
        (vtext, vexpr), = list(svars.items())[:1]
        bad = []
        for op in CMP:
            ov = {vtext: S(op)}
            if isinstance(vexpr, ast.Name):
                ov[vexpr.id] = S(op)
            got = s.eval_op(repo, ov)
            if got is TOP or set(got) != {"s" + CMP[op]}:
                bad.append((op, sorted(got, key=repr) if got is not TOP else "TOP"))
        chk.judge("R01.b", f"generate_code:{qual}:{norm(s.call)[:90]} [plain table]", not bad,
                  f"materialised comparison emits {bad[:3]} (operator -> opcode), expected 's' + plain suffix", {"wrong": bad}, s.where())
    if not found:
        raise AnalysisError("R01.b: materialised comparison site ('s' + suffix) not found in the Compare handler")


def _label_kinds(fe, expr, nid):
    """Which get_label prefixes can the label variable hold: {'else'}, {'end'}, {'while.end'} -> normalised to else/end."""
    out = set()
    if not isinstance(expr, ast.Name):
        return {"?"}
    for d in fe.rd.at(nid, expr.id):
        if d.kind == "assign" and isinstance(d.value, ast.Call) and norm(d.value.func).endswith("get_label"):
            args = d.value.args
            if d.index and d.index[0] < len(args) and isinstance(args[d.index[0]], ast.Constant):
                out.add(str(args[d.index[0]].value))
            elif not d.index and len(args) == 1 and isinstance(args[0], ast.Constant):
                out.add(str(args[0].value))
            else:
                out.add("?")
        else:
            out.add("?")
    norm_ = set()
    for k in out:
        if k == "else":
            norm_.add("else")
        elif k.endswith("end"):
            norm_.add("end")
        else:
            norm_.add(k)
    return norm_


def _r01b_helper_arm(repo, chk, g, fn, fe, flags):
    """if <call sdse/sdns>: the helper turns the test into a branch."""
    u = repo.mod("utils")
    calls = [c for c in ast.walk(fn) if isinstance(c, ast.Call) and isinstance(c.func, ast.Name) and c.func.id == "try_replace_call_with_branch"]
    if not calls:
        chk.ok("R01.b", "generate_code:handle_if:no call-to-branch rewrite", None, vacuous=True)
        return
    hf = u.func("try_replace_call_with_branch")
    chk.saw("utils", "try_replace_call_with_branch")
    params = [a.arg for a in hf.args.args]
    for c in calls:
        bound = dict(zip(params, c.args))
        for kw in c.keywords:
            bound[kw.arg] = kw.value
        key = f"generate_code:{fn.qual}:{norm(c)[:80]}"
        where = f"{g.path}:{c.lineno} in {fn.qual}"
        ids = fe.node_ids(c)
        lk = _label_kinds(fe, bound.get(params[1]), ids[0]) if ids and len(params) > 1 and bound.get(params[1]) is not None else {"?"}
        chk.judge("R01.b", key + " [target]", lk == {"else"}, f"helper receives a label of kind {sorted(lk)}, expected the else label", None, where)
        negarg = bound.get(params[2]) if len(params) > 2 else None
        passes_flag = isinstance(negarg, ast.Name) and negarg.id in flags
        if flags and not passes_flag:
            chk.bad("R01.b", key + " [negation passed on]",
                    "the negation flag of the if-test is not passed to try_replace_call_with_branch: 'if not sdse(d):' would branch like 'if sdse(d):'",
                    {"arg": norm(negarg) if negarg is not None else None}, where)
        else:
            chk.ok("R01.b", key + " [negation passed on]", None)
    # the helper itself: op assigned to instr.op under (fname, negate)
    he = FnEval(repo, u, hf)
    stores = [st for st in ast.walk(hf) if isinstance(st, ast.Assign) and any(isinstance(t, ast.Attribute) and t.attr == "op" for t in st.targets)]
    if len(stores) != 1:
        raise AnalysisError("try_replace_call_with_branch: expected exactly one store to instr.op")
    st = stores[0]
    bv = const_dict(repo, "utils", "_branch_variant")
    negname = params[2] if len(params) > 2 else None
    # local holding the function name
    fvar = None
    for n in ast.walk(st.value):
        if isinstance(n, ast.Subscript) and norm(n.value) == "_branch_variant" and isinstance(n.slice, ast.Name):
            fvar = n.slice.id
    if fvar is None:
        raise AnalysisError("try_replace_call_with_branch: look-up _branch_variant[<name>] not found")
    bad = []
    want_plain = {"sdse": "bdns", "sdns": "bdse"}
    for k in bv:
        for neg in (False, True):
            ov = {fvar: S(k)}
            if negname:
                ov[negname] = S(neg)
            e2 = FnEval(repo, u, hf, ov)
            ids = e2.node_ids(st)
            got = e2.eval(st.value, ids[0]) if ids else TOP
            exp = ("b" + k[1:]) if neg else want_plain.get(k)
            if got is TOP or set(got) != {exp}:
                bad.append((k, neg, sorted(got, key=repr) if got is not TOP else "TOP", exp))
    chk.judge("R01.b", "utils:try_replace_call_with_branch:branch by (test, negated)", not bad,
              "wrong branch for (test, negated) -> emitted, expected: " + "; ".join(f"({k},{n}) -> {g_}, {e}" for k, n, g_, e in bad),
              {"wrong": bad}, f"{u.path}:{st.lineno} in try_replace_call_with_branch")


def _mini_truth(e, v, n, flags, rd=None, nid=None, depth=0):
    """Truth of a constant-arm test for (truth of the constant v, test negated n); None = not understood."""
    if isinstance(e, ast.Call) and norm(e.func) == "bool" and len(e.args) == 1:
        return v
    if isinstance(e, ast.Name) and e.id in flags:
        return n
    if isinstance(e, ast.Name) and rd is not None and nid is not None and depth < 3:
        ds = rd.at(nid, e.id)
        if len(ds) == 1 and ds[0].kind == "assign" and ds[0].value is not None and not ds[0].index:
            return _mini_truth(ds[0].value, v, n, flags, rd, ds[0].node, depth + 1)
        return None
    if isinstance(e, ast.Constant) and isinstance(e.value, bool):
        return e.value
    if isinstance(e, ast.UnaryOp) and isinstance(e.op, ast.Not):
        x = _mini_truth(e.operand, v, n, flags, rd, nid, depth)
        return None if x is None else not x
    if isinstance(e, ast.Compare) and len(e.ops) == 1 and isinstance(e.ops[0], (ast.Eq, ast.NotEq, ast.Is, ast.IsNot)):
        a, b = _mini_truth(e.left, v, n, flags, rd, nid, depth), _mini_truth(e.comparators[0], v, n, flags, rd, nid, depth)
        if a is None or b is None:
            return None
        return (a == b) if isinstance(e.ops[0], (ast.Eq, ast.Is)) else (a != b)
    if isinstance(e, ast.BoolOp):
        xs = [_mini_truth(x, v, n, flags, rd, nid, depth) for x in e.values]
        if any(x is None for x in xs):
            return None
        return all(xs) if isinstance(e.op, ast.And) else any(xs)
    if isinstance(e, ast.Attribute) and e.attr in ("constant_value", "value"):
        return v
    return None


def _r01b_constant_arms(repo, chk, g, fn, fe, flags):
    """Constant tests: the code between the start of the handler and the loops over node.body / node.orelse is evaluated over the
    booleans (boolflow) for every combination of the facts it consults; whenever it consults the truth of a constant, the arm
    that is visited afterwards must be the arm Python runs."""
    from ..boolflow import enumerate_states, TooManyStates
    body_flag = orelse_flag = None
    first_loop = None
    for i, st in enumerate(fn.body):
        for loop in ([st] if isinstance(st, ast.For) else []):
            if isinstance(loop.iter, ast.Attribute) and loop.iter.attr in ("body", "orelse"):
                for iff in loop.body:
                    if isinstance(iff, ast.If) and isinstance(iff.test, ast.Name):
                        if loop.iter.attr == "body":
                            body_flag = iff.test.id
                        else:
                            orelse_flag = iff.test.id
                if first_loop is None:
                    first_loop = i
    if body_flag is None or orelse_flag is None or first_loop is None:
        raise AnalysisError("handle_if: loops over node.body / node.orelse guarded by the emit flags not found")
    where = f"{g.path}:{fn.lineno} in {fn.qual}"
    force = ast.parse(f"__has_b = bool(len(node.body) > 0)\n__has_o = bool(len(node.orelse) > 0)\n__b = bool({body_flag})\n__o = bool({orelse_flag})").body
    try:
        states = enumerate_states(list(fn.body[:first_loop]) + force)
    except TooManyStates as e:
        raise AnalysisError(f"handle_if: {e} while evaluating the emit flags")
    judged = 0
    for assign, env, status in states:
        if status != "fall":
            continue
        carriers = [k for k in assign if k.endswith(".constant_value") or k.endswith(".value")]
        if not carriers:
            continue
        if len(carriers) > 1:
            raise AnalysisError(f"handle_if: one path consults the truth of several constants {carriers}")
        if not (env.get("__has_b") is True and env.get("__has_o") is True):
            continue
        car = carriers[0]
        T = assign[car]
        negs = [env.get(f) for f in flags]
        if any(not isinstance(x, bool) for x in negs):
            raise AnalysisError(f"handle_if: the negation flag(s) {sorted(flags)} do not evaluate to a boolean")
        n = any(negs)
        kind = "folded constant" if car.endswith(".constant_value") else "literal"
        # the constant that is read belongs to the operand of 'not' (the node the 'not' was stripped from) or to the whole test
        stripped = (".operand" in car) if n else True
        python_takes_body = (T != n) if stripped else T
        executed = "body" if env.get("__b") else ("orelse" if env.get("__o") else "nothing")
        if env.get("__b") and env.get("__o"):
            executed = "both arms"
        exp = "body" if python_takes_body else "orelse"
        judged += 1
        chk.judge("R01.b", f"generate_code:{fn.qual}:constant test [{kind}] value={T} negated={n}", executed == exp,
                  f"for a {kind} {'operand' if stripped else 'test (whose value already includes the not)'} that is {T}{' under not' if n else ''} "
                  f"the emitted code runs the {executed} arm, Python runs the {exp} arm",
                  {"reads": car, "facts": {k: v for k, v in assign.items() if v}}, where)
    if judged < 4:
        raise AnalysisError(f"handle_if: only {judged} constant-test cases found (expected value x negated for folded constants and literals)")


# ---------------------------------------------------------------------- R01.d
def r01d(repo, chk):
    n = 0
    for mn in ("generate_code", "compile_pass"):
        m = repo.mod(mn)
        for fn in m.funcs.values():
            stores = [st for st in ast.walk(fn) if isinstance(st, ast.Assign) and enclosing_def(st) is fn and
                      any(isinstance(t, ast.Attribute) and t.attr == "is_used" for t in st.targets)]
            if not stores:
                continue
            cfg, rd = fn_ctx(fn)
            chk.saw(mn, fn.qual)
            for st in stores:
                v = st.value
                kind = _used_rhs_kind(v)
                if kind == "keep":
                    continue
                ids = live_ids(cfg, st)
                if not ids:
                    continue
                n += 1
                atoms = guard_atoms(cfg, ids[0])
                reason = _prune_reason(cfg, rd, atoms, ids[0], fn)
                if reason == "name never read":
                    # that reason covers the name node itself, not the statement around it: the value may call user code
                    tgt = next(t for t in st.targets if isinstance(t, ast.Attribute) and t.attr == "is_used")
                    recv = tgt.value.value if isinstance(tgt.value, ast.Attribute) and tgt.value.attr == "_ndata" else tgt.value
                    subject = _read_test_subject(cfg, rd, atoms, ids[0])
                    if subject is not None and norm(recv) != subject:
                        ro = recv
                        if isinstance(recv, ast.Name):
                            ds_ = rd.at(ids[0], recv.id)
                            if len(ds_) == 1 and ds_[0].kind == "assign" and ds_[0].value is not None:
                                ro = ds_[0].value
                        chk.bad("R01.d", f"{mn}:{fn.qual}:{norm(st)[:80]}",
                                f"{norm(st)} marks {norm(ro)} unused because the name {subject} is never read: that justifies dropping the name, not the node around it; "
                                f"a statement 'spare = pulse(d0.Setting) + 1' loses the call of pulse() and everything it does", {"reason": reason, "pruned": norm(ro)},
                                f"{m.path}:{st.lineno} in {fn.qual}")
                        continue
                chk.judge("R01.d", f"{mn}:{fn.qual}:{norm(st)[:80]}", reason is not None,
                          f"{norm(st)} can mark code unused, but no guard proves a reason (constant test / name never read); guards: "
                          + " & ".join(norm(t) + ("" if p else "=False") for t, p in atoms),
                          {"reason": reason}, f"{m.path}:{st.lineno} in {fn.qual}")
    if n < 4:
        raise AnalysisError(f"R01.d: only {n} pruning stores found (expected >= 4)")


def _used_rhs_kind(v):
    """'keep': can only keep or propagate usedness; 'prune': may introduce False."""
    if isinstance(v, ast.Constant):
        return "keep" if v.value is True or v.value is None else "prune"  # None = not decided yet
    if isinstance(v, ast.Attribute) and v.attr == "is_used":
        return "keep"
    if isinstance(v, ast.BoolOp) and isinstance(v.op, ast.Or):
        # x.is_used or y  -> never turns a used node unused relative to its source
        return "keep" if any(isinstance(x, ast.Attribute) and x.attr == "is_used" for x in v.values) else "prune"
    return "prune"


def _is_const_reason(t, p):
    tt = norm(t)
    if p and isinstance(t, ast.BoolOp) and isinstance(t.op, ast.Or):
        rs = [_is_const_reason(x, True) for x in t.values]      # a disjunction of reasons is a reason
        return rs[0] if all(rs) and len(set(rs)) == 1 else None
    if p and (tt.endswith(".is_constant") or (isinstance(t, ast.Call) and norm(t.func) == "isinstance" and tt.endswith("nodes.Const)"))):
        return "constant test"
    if p and isinstance(t, ast.Compare) and len(t.ops) == 1 and isinstance(t.ops[0], ast.Eq) and norm(t.left).endswith(".is_read") \
            and isinstance(t.comparators[0], ast.Constant) and t.comparators[0].value == 0:
        return "name never read"
    return None


def _read_test_subject(cfg, rd, atoms, nid):
    """the node whose symbol the test '<sym>.is_read == 0' is about: get_sym_data(<node>) -> text of <node>"""
    for t, p in atoms:
        if p and isinstance(t, ast.Compare) and norm(t.left).endswith(".is_read") and isinstance(t.left, ast.Attribute):
            sym = t.left.value
            if isinstance(sym, ast.Name):
                ds = rd.at(nid_of(cfg, t, nid), sym.id)
                if len(ds) == 1 and ds[0].kind == "assign" and isinstance(ds[0].value, ast.Call) and norm(ds[0].value.func).endswith("get_sym_data") and ds[0].value.args:
                    return norm(ds[0].value.args[0])
            if isinstance(sym, ast.Call) and norm(sym.func).endswith("get_sym_data") and sym.args:
                return norm(sym.args[0])
    return None


def _prune_reason(cfg, rd, atoms, nid, fn, depth=0):
    for t, p in atoms:
        r = _is_const_reason(t, p)
        if r:
            return r
    # through a local emit flag: every definition of the flag that makes it False sits under a reason
    for t, p in atoms:
        if isinstance(t, ast.Name) and p is False and depth < 2:
            ds = rd.at(nid_of(cfg, t, nid), t.id)
            falsy = [d for d in ds if not (d.kind == "assign" and isinstance(d.value, ast.Constant) and d.value.value is True)]
            ok = True
            why = None
            for d in falsy:
                if d.kind == "assign" and isinstance(d.value, ast.Constant) and d.value.value is False:
                    r = _prune_reason(cfg, rd, guard_atoms(cfg, d.node), d.node, fn, depth + 1)
                    if r is None:
                        ok = False
                    why = r
                elif d.kind == "assign" and isinstance(d.value, ast.Compare) and norm(d.value).startswith("len("):
                    why = why or "arm is empty"  # nothing to prune
                elif d.kind == "assign" and d.value is not None:
                    # any other value that may be false ('flag and take_body'): the assignment itself sits under a reason
                    r = _prune_reason(cfg, rd, guard_atoms(cfg, d.node), d.node, fn, depth + 1)
                    if r is None:
                        ok = False
                    why = r or why
                else:
                    ok = False
            if ok and falsy:
                return f"flag {t.id}: {why}"
    return None


def nid_of(cfg, test, default):
    ids = live_ids(cfg, test)
    return ids[0] if ids else default


# ---------------------------------------------------------------------- R01.f
def r01f(repo, chk):
    g = repo.mod("generate_code")
    hs = repo.handlers()
    qual = f"CompilerPassGenerateCode.{hs['For']}"
    fn = g.func(qual)
    chk.saw("generate_code", qual)
    cfg, rd = fn_ctx(fn)
    sites = [s for s in collect_sites(repo, ["generate_code"]) if s.qual == qual]
    found = 0
    for s in sites:
        ops = s.opcodes
        if ops is TOP or not ops or not all(isinstance(v, str) and v in ("bge", "ble", "bgt", "blt") for v in ops):
            continue
        found += 1
        # the direction flag: a Name in the (possibly locally named) opcode expression
        opx = s.op_expr
        ids0 = live_ids(cfg, s.call)
        for _ in range(3):
            if isinstance(opx, ast.Name) and ids0:
                ds = rd.at(ids0[0], opx.id)
                if len(ds) == 1 and ds[0].kind == "assign" and ds[0].value is not None and not ds[0].index:
                    opx, ids0 = ds[0].value, [ds[0].node]
                    continue
            break
        names = [n.id for n in ast.walk(opx.test if isinstance(opx, ast.IfExp) else opx) if isinstance(n, ast.Name)]
        key = f"generate_code:{qual}:{norm(s.call)[:80]}"
        if len(names) != 1:
            chk.bad("R01.f", key, f"exit test opcode {sorted(ops)} does not depend on one direction flag", None, s.where())
            continue
        flag = names[0]
        got_t = s.eval_op(repo, {flag: S(True)})
        got_f = s.eval_op(repo, {flag: S(False)})
        chk.judge("R01.f", key, got_t is not TOP and set(got_t) == {"bge"} and got_f is not TOP and set(got_f) == {"ble"},
                  f"exit test is {got_t} for an increasing range and {got_f} for a decreasing one, expected bge / ble",
                  {"increasing": got_t, "decreasing": got_f}, s.where())
        ids = ids0
        defs = rd.at(ids[0], flag) if ids else []
        okdefs = True
        desc = []
        for d in defs:
            v = d.value
            desc.append(norm(v) if v is not None else d.kind)
            if d.kind == "assign" and isinstance(v, ast.Constant) and v.value is True:
                continue  # default step 1
            if d.kind == "assign" and isinstance(v, ast.Compare) and len(v.ops) == 1 and norm(v.left).endswith(".constant_value") \
                    and isinstance(v.comparators[0], ast.Constant):
                c = v.comparators[0].value
                op = type(v.ops[0])
                if (op is ast.GtE and c in (0, 1)) or (op is ast.Gt and c in (0, -1)):
                    if any(norm(t).endswith(".is_constant") and p for t, p in guard_atoms(cfg, d.node)):
                        continue
            okdefs = False
        chk.judge("R01.f", key + " [direction from the sign of the constant step]", okdefs and bool(defs),
                  f"direction flag {flag} is defined by {desc}: expected True by default and 'step constant >= 0' under an is_constant guard",
                  {"defs": desc}, s.where())
    if not found:
        raise AnalysisError("R01.f: exit test of the for-range lowering not found")


# ---------------------------------------------------------------------- R01.g
def r01g(repo, chk):
    u = repo.mod("utils")
    for fname, table in (("get_binop_instruction", BINOP_OPCODE), ("get_unop_instruction", UNOP_OPCODE)):
        rows, how, default = helper_rows(repo, "utils", fname)
        for r in rows:
            ops = set()
            if r.values is not TOP:
                for v in r.values:
                    if isinstance(v, tuple) and v:
                        ops.add(v[0])
            key = f"utils:{fname}:row {r.key!r} -> {sorted(ops, key=repr)}"
            want = table.get(r.key)
            if want is None:
                chk.ok("R01.g", key + " [operator outside the oracle]", None, vacuous=True)
                continue
            if not ops or any(not isinstance(op, str) for op in ops):
                chk.unresolved("R01.g", key, "row opcode could not be evaluated", f"{u.path}:{r.node.lineno} in {fname}")
                continue
            chk.judge("R01.g", key, bool(ops) and ops <= want,
                      f"operator {r.key!r} is compiled to {sorted(ops, key=repr)}, the documented instruction is {sorted(want)}",
                      {"opcodes": sorted(ops, key=repr)}, f"{u.path}:{r.node.lineno} in {fname}")
        if default is not TOP and default is not None:
            dv = _one(default)
            chk.judge("R01.g", f"utils:{fname}:default", dv is None or (isinstance(dv, tuple) and dv[0] is None),
                      f"unknown operators fall back to {dv!r} instead of (None, None)", None, str(u.path))


# ---------------------------------------------------------------------- R01.h
def r01h(repo, chk):
    g = repo.mod("generate_code")
    hs = repo.handlers()
    sites = collect_sites(repo, ["generate_code"])
    by_fn = {}
    for s in sites:
        by_fn.setdefault(s.qual, []).append(s)

    def handler(ntype):
        if ntype not in hs:
            raise AnalysisError(f"no handler registered for nodes.{ntype}")
        q = f"CompilerPassGenerateCode.{hs[ntype]}"
        g.func(q)
        return q

    def tags_of(s):
        o = Origin(s.fn)
        nid = o.node_id(s.call)
        ins = [o.tags(e, nid) for e in s.input_exprs]
        out = o.tags(s.output_expr, nid) if s.has_output else None
        return ins, out

    def judge(s, label, ok, got, exp):
        chk.saw("generate_code", s.qual)
        chk.judge("R01.h", f"generate_code:{s.qual}:{norm(s.call)[:80]} [{label}]", ok,
                  f"operands come from {got}, the construct prescribes {exp}", {"origins": got}, s.where())

    n = 0
    # binary operator
    q = handler("BinOp")
    for s in by_fn.get(q, []):
        if s.n_inputs == 2 and s.has_output:
            ins, _ = tags_of(s)
            n += 1
            judge(s, "binary operator", ins == [{"left"}, {"right"}], [sorted(t) for t in ins], "(left, right)")
    q = handler("AugAssign")
    for s in by_fn.get(q, []):
        if s.n_inputs == 2 and s.has_output:
            ins, out = tags_of(s)
            n += 1
            judge(s, "augmented assignment", ins == [{"target"}, {"value"}] and out == {"target"}, [sorted(t) for t in ins] + [sorted(out or [])], "(target, value) -> target")
    q = handler("Compare")
    for s in by_fn.get(q, []):
        if s.n_inputs == 2 and s.has_output:
            ins, _ = tags_of(s)
            n += 1
            judge(s, "comparison", ins == [{"left"}, {"right"}], [sorted(t) for t in ins], "(left, right)")
    for nt in ("If", "While"):
        q = handler(nt)
        for s in by_fn.get(q, []):
            ops = s.opcodes
            if s.n_inputs == 3 and ops is not TOP and ops and all(isinstance(v, str) and v.startswith("b") for v in ops):
                ins, _ = tags_of(s)
                n += 1
                judge(s, "branch on comparison", ins[:2] == [{"left"}, {"right"}], [sorted(t) for t in ins[:2]], "(left, right, label)")
    q = handler("UnaryOp")
    for s in by_fn.get(q, []):
        ops = s.opcodes
        if ops is TOP or not s.has_output:
            continue
        ins, _ = tags_of(s)
        n += 1
        if s.n_inputs == 2:
            judge(s, "unary minus as sub", ins == [{"const:0"}, {"operand"}] and set(ops) == {"sub"}, [sorted(t) for t in ins], "(0, operand) with opcode sub")
        else:
            judge(s, "unary operator", ins == [{"operand"}] and "sub" not in ops, [sorted(t) for t in ins], "(operand), never for 'sub'")
    q = handler("IfExp")
    for s in by_fn.get(q, []):
        ops = s.opcodes
        if ops is not TOP and set(ops) == {"select"}:
            ins, _ = tags_of(s)
            n += 1
            judge(s, "conditional expression", ins == [{"test"}, {"body"}, {"orelse"}], [sorted(t) for t in ins], "select(test, body, orelse)")
    # range(start, end, step)
    q = handler("For")
    fn = g.func(q)
    cfg, rd = fn_ctx(fn)
    role_var = {}
    for s in by_fn.get(q, []):
        ops = s.opcodes
        if ops is TOP or not ops:
            continue
        ins = s.input_exprs
        if set(ops) == {"move"} and len(ins) == 1 and isinstance(ins[0], ast.Name) and s.has_output:
            role_var.setdefault("start", (ins[0].id, s))
        elif set(ops) <= {"bge", "ble"} and len(ins) == 3 and isinstance(ins[1], ast.Name):
            role_var["end"] = (ins[1].id, s)
            role_var["iter@test"] = (norm(ins[0]), s)
        elif set(ops) == {"add"} and len(ins) == 2 and isinstance(ins[1], ast.Name) and s.has_output:
            role_var["step"] = (ins[1].id, s)
            role_var["iter@step"] = (norm(ins[0]), s)
            role_var["iter@out"] = (norm(s.output_expr), s)
    for need in ("start", "end", "step"):
        if need not in role_var:
            raise AnalysisError(f"R01.h: for-range lowering: instruction using the range {need} not recognised")
    start_site = role_var["start"][1]
    it = norm(start_site.output_expr)
    same_iter = {role_var[k][0] for k in ("iter@test", "iter@step", "iter@out")} == {it}
    n += 1
    chk.judge("R01.h", f"generate_code:{q}:iterator register", same_iter,
              f"initialisation, exit test and increment do not use one iterator register: {sorted({role_var[k][0] for k in ('iter@test', 'iter@step', 'iter@out')} | {it})}",
              None, start_site.where())
    expect = {1: {"end": 0}, 2: {"start": 0, "end": 1}, 3: {"start": 0, "end": 1, "step": 2}}
    defaults = {"start": 0, "step": 1}
    var_role = {role_var[r][0]: r for r in ("start", "end", "step")}
    seen_cases = set()
    for st in ast.walk(fn):
        if isinstance(st, ast.Assign) and enclosing_def(st) is fn and len(st.targets) == 1 and isinstance(st.targets[0], ast.Name) and st.targets[0].id in var_role:
            role = var_role[st.targets[0].id]
            ids = live_ids(cfg, st)
            if not ids:
                continue
            nargs = None
            for t, p in guard_atoms(cfg, ids[0]):
                if p and isinstance(t, ast.Compare) and len(t.ops) == 1 and isinstance(t.ops[0], ast.Eq) and isinstance(t.comparators[0], ast.Constant) \
                        and isinstance(t.left, ast.Name):
                    nargs = t.comparators[0].value
            key = f"generate_code:{q}:{norm(st)[:70]}"
            where = f"{g.path}:{st.lineno} in {q}"
            if nargs is None:
                if isinstance(st.value, ast.Constant):
                    n += 1
                    chk.judge("R01.h", key + " [default]", role in defaults and st.value.value == defaults[role] or role == "end" and st.value.value is None,
                              f"default of range {role} is {st.value.value!r}", None, where)
                    continue
                chk.bad("R01.h", key, f"range {role} is assigned outside a case on the number of arguments", None, where)
                continue
            tg = Origin(fn).tags(st.value, ids[0])
            exp = expect.get(nargs, {}).get(role)
            n += 1
            seen_cases.add((nargs, role))
            chk.judge("R01.h", key + f" [range with {nargs} argument(s)]", exp is not None and tg == {f"args[{exp}]"},
                      f"range {role} is taken from {sorted(tg)} when range() has {nargs} argument(s), expected args[{exp}]", {"origin": sorted(tg)}, where)
    missing = {(k, r) for k, v in expect.items() for r in v} - seen_cases
    chk.judge("R01.h", f"generate_code:{q}:range argument cases", not missing, f"no assignment for (number of arguments, role) {sorted(missing)}", None,
              f"{g.path}:{fn.lineno} in {q}")
    if n < 10:
        raise AnalysisError(f"R01.h: only {n} operand-order instances recognised")


# ---------------------------------------------------------------------- R01.i
def r01i(repo, chk):
    g = repo.mod("generate_code")
    qual = "CompilerPassGenerateCode._handle_constant_array_dynamic_index_access"
    fn = g.func(qual)
    chk.saw("generate_code", qual)
    cfg, rd = fn_ctx(fn)
    sites = [s for s in collect_sites(repo, ["generate_code"]) if s.qual == qual]
    params = [a.arg for a in fn.args.args]
    if len(params) < 4:
        raise AnalysisError(f"{qual}: signature changed")
    index_name = params[3]
    by_out = {}
    for s in sites:
        if s.opcodes is not TOP and s.has_output and len(s.opcodes) == 1:
            by_out.setdefault(norm(s.output_expr), []).append(s)

    def elem_index(e):
        """array*[<expr>] -> linear form of the index, else None"""
        if isinstance(e, ast.Subscript) and isinstance(e.value, ast.Name):
            try:
                return lin(e.slice)
            except NotLinear:
                return None
        return None

    # the result register is written by the first instruction while later ones still read the index: it must not BE the index
    # (get_intermediate_symbol hands out the target of an enclosing assignment, 'i = [..][i]')
    ordered = sorted([s for s in sites if s.opcodes is not TOP], key=lambda s: (s.call.lineno, s.call.col_offset))
    hazard = None
    for k, s in enumerate(ordered):
        if s.has_output:
            out = norm(s.output_expr)
            later = [t for t in ordered[k + 1:] if any(isinstance(x, ast.Name) and x.id == index_name for e in t.input_exprs for x in ast.walk(e))]
            if later and out != index_name:
                ids = live_ids(cfg, s.call)
                ds = rd.at(ids[0], out) if ids and isinstance(s.output_expr, ast.Name) else []
                if any(d.kind == "assign" and d.value is not None and "get_intermediate_symbol" in norm(d.value) and not any(
                        isinstance(a, ast.Constant) and a.value is True for a in ast.walk(d.value)) for d in ds):
                    hazard = (s, out, later[0])
                    break
    if hazard is not None:
        s, out, later = hazard
        # a re-definition of the result register under a test that it is the index
        fresh = False
        for st in ast.walk(fn):
            if isinstance(st, ast.If):
                t = st.test
                same = isinstance(t, ast.Compare) and len(t.ops) == 1 and isinstance(t.ops[0], (ast.Is, ast.Eq)) and {norm(t.left), norm(t.comparators[0])} >= {out, index_name} \
                    or isinstance(t, ast.Compare) and len(t.ops) == 1 and isinstance(t.ops[0], (ast.Is, ast.Eq)) and out in norm(t) and index_name in norm(t)
                if same and any(isinstance(a, ast.Assign) and any(norm(x) == out for x in a.targets) and "get_intermediate_symbol" in norm(a.value)
                                and any(isinstance(c_, ast.Constant) and c_.value is True for c_ in ast.walk(a.value)) for a in st.body):
                    fresh = True
        chk.judge("R01.i", f"generate_code:{qual}:the result register is not the index while the index is still read", fresh,
                  f"{out} comes from get_intermediate_symbol(node), which is the target of an enclosing assignment; for 'i = [..][i]' that is the index itself, "
                  f"'{norm(s.call)[:50]}' overwrites it and '{norm(later.call)[:50]}' then tests the selected element instead of the index", None, s.where())
    n = 0
    for s in sites:
        if s.opcodes is TOP or set(s.opcodes) != {"select"}:
            continue
        ins = s.input_exprs
        if len(ins) != 3:
            chk.bad("R01.i", f"generate_code:{qual}:{norm(s.call)[:80]}", "select without three operands", None, s.where())
            continue
        cond, a, b = ins
        n += 1
        ctext = norm(cond)
        # what does the condition encode?
        producers = [p for p in by_out.get(ctext, []) if p is not s]
        if isinstance(cond, ast.Name) and cond.id == index_name:
            key = f"generate_code:{qual}:select on the index itself"
            ia, ib = elem_index(a), elem_index(b)
            chk.judge("R01.i", key, ia == ({}, 1) and ib == ({}, 0),
                      f"'select r index x y' yields x for index 1 and y for index 0; operands are {norm(a)}, {norm(b)}", None, s.where())
            continue
        kinds = {next(iter(p.opcodes)) for p in producers}
        if kinds == {"mod"}:
            key = f"generate_code:{qual}:select on the parity of the index (jump table)"
            p = producers[0]
            pin = p.input_exprs
            okp = len(pin) == 2 and norm(pin[0]) == index_name and isinstance(pin[1], ast.Constant) and pin[1].value == 2
            ia, ib = elem_index(a), elem_index(b)
            ok = okp and ia is not None and ib is not None and ia[0] == ib[0] and ia[1] - ib[1] == 1
            chk.judge("R01.i", key, ok,
                      f"the condition is the parity of the index (1 = odd): 'select r parity x y' must yield the odd element x = a[i+1] and "
                      f"the even element y = a[i]; operands are {norm(a)}, {norm(b)}", {"first": norm(a), "second": norm(b)}, s.where())
            continue
        if kinds == {"seq"}:
            key = f"generate_code:{qual}:select on index == k (select chain)"
            p = producers[0]
            pin = p.input_exprs
            ia = elem_index(a)
            try:
                want = lin(pin[1]) if len(pin) == 2 else None
            except NotLinear:
                want = None
            ok = len(pin) == 2 and norm(pin[0]) == index_name and ia is not None and ia == want and norm(b) == norm(s.output_expr)
            chk.judge("R01.i", key, ok,
                      f"the condition is 'index == {norm(pin[1]) if len(pin) == 2 else '?'}': select must yield that element and otherwise keep the running value; operands are {norm(a)}, {norm(b)}",
                      None, s.where())
            continue
        key = f"generate_code:{qual}:select on {sorted(kinds)}"
        chk.bad("R01.i", key, f"condition {ctext} of the select is produced by {sorted(kinds)}: not a recognised encoding of the index", None, s.where())
    if n < 3:
        raise AnalysisError(f"R01.i: only {n} select sites in the constant-list lowering")


# ---------------------------------------------------------------------- R01.m
def r01m(repo, chk):
    g = repo.mod("generate_code")
    hs = repo.handlers()
    for nt in ("Break", "Continue"):
        q = f"CompilerPassGenerateCode.{hs[nt]}"
        fn = g.func(q)
        chk.saw("generate_code", q)
        cfg, rd = fn_ctx(fn)
        param = fn.args.args[1].arg
        sites = [s for s in collect_sites(repo, ["generate_code"]) if s.fn is fn and s.opcodes is not TOP and set(s.opcodes) == {"j"}]
        if not sites:
            raise AnalysisError(f"{q}: jump emission not found")
        for s in sites:
            call = getattr(s.call, "parent", None)
            recv = call.func.value if isinstance(call, ast.Call) and isinstance(call.func, ast.Attribute) else None
            ids = live_ids(cfg, s.call)
            ok = False
            detail = norm(recv) if recv is not None else "?"
            if isinstance(recv, ast.Attribute) and recv.attr == "_ndata" and isinstance(recv.value, ast.Name) and ids:
                ds = rd.at(ids[0], recv.value.id)
                ok = recv.value.id == param and bool(ds) and all(d.kind == "param" for d in ds)
                if not ok:
                    detail += " where " + recv.value.id + " = " + ", ".join(sorted({norm(d.value) if d.value is not None else d.kind for d in ds}))
            chk.judge("R01.m", f"generate_code:{q}:jump is attached to the {nt.lower()} statement", ok,
                      f"the jump is added to {detail}: that is an enclosing statement of the loop body, whose own code is emitted before its sub-statements — "
                      f"in 'if c: effect(); {nt.lower()}' the jump runs before effect()", {"receiver": detail}, s.where())


# ---------------------------------------------------------------------- R01.p
def _type_names(test, var="node"):
    """isinstance(node, nodes.T) / isinstance(node, (nodes.A, nodes.B)) -> {'T'} ; else None"""
    if isinstance(test, ast.Call) and norm(test.func) == "isinstance" and len(test.args) == 2 and norm(test.args[0]) == var:
        t = test.args[1]
        elts = t.elts if isinstance(t, ast.Tuple) else [t]
        return {e.attr if isinstance(e, ast.Attribute) else norm(e) for e in elts}
    return None


def _visited_fields(stmts, var="node"):
    """fields F such that the statements call self._visit_node(node.F) or loop 'for c in node.F: self._visit_node(c)'"""
    out = set()
    for st in stmts:
        for c in ast.walk(st):
            if isinstance(c, ast.Call) and norm(c.func) == "self._visit_node" and c.args:
                a = c.args[0]
                if isinstance(a, ast.Attribute) and norm(a.value) == var:
                    out.add(a.attr)
                elif isinstance(a, ast.Name):
                    p = c
                    while p is not None and not (isinstance(p, ast.For) and isinstance(p.target, ast.Name) and p.target.id == a.id):
                        p = getattr(p, "parent", None)
                    if p is not None and isinstance(p.iter, ast.Attribute) and norm(p.iter.value) == var:
                        out.add(p.iter.attr)
    return out


def _excluded_fields(stmts, var="node"):
    """fields F such that the statements do special_nodes.add(node.F) or add every element of node.F"""
    out = set()
    for st in stmts:
        for c in ast.walk(st):
            if isinstance(c, ast.Call) and isinstance(c.func, ast.Attribute) and c.func.attr in ("add", "update") and "special" in norm(c.func.value) and c.args:
                a = c.args[0]
                if isinstance(a, ast.Attribute) and norm(a.value) == var:
                    out.add(a.attr)
                elif isinstance(a, ast.Name):
                    p = c
                    while p is not None and not (isinstance(p, ast.For) and isinstance(p.target, ast.Name) and p.target.id == a.id):
                        p = getattr(p, "parent", None)
                    if p is not None and isinstance(p.iter, ast.Attribute) and norm(p.iter.value) == var:
                        out.add(p.iter.attr)
    return out


def r01p(repo, chk, R="R01.p"):
    g = repo.mod("generate_code")
    gc = g.func("CompilerPassGatherCode.gather_code")
    hn = g.func("CompilerPassGatherCode.handle_node")
    chk.saw("generate_code", gc.qual)
    chk.saw("generate_code", hn.qual)
    # the loop over all children, skipping special_nodes
    loops = [lp for lp in ast.walk(gc) if isinstance(lp, ast.For) and "get_children" in norm(lp.iter)]
    if len(loops) != 1:
        raise AnalysisError("gather_code: the loop over all children of the node was not found")
    skip = any(isinstance(t, ast.If) and "special" in norm(t.test) for t in ast.walk(loops[0]))
    if not skip:
        raise AnalysisError("gather_code: the children loop does not consult the set of specially handled nodes")
    excluded = {}
    for i in ast.walk(hn):
        if isinstance(i, ast.If):
            ts = _type_names(i.test)
            if ts:
                for t_ in ts:
                    excluded.setdefault(t_, set()).update(_excluded_fields(i.body))
    # 'if hasattr(node, "test")': every type with a test
    generic = set()
    for i in ast.walk(hn):
        if isinstance(i, ast.If) and isinstance(i.test, ast.Call) and norm(i.test.func) == "hasattr" and len(i.test.args) == 2 and isinstance(i.test.args[1], ast.Constant):
            # 'if hasattr(node, F): special_nodes.append(node.F)': the field F of every type that has one
            generic |= _excluded_fields(i.body) & {i.test.args[1].value}
    n = 0
    for i in ast.walk(gc):
        if isinstance(i, ast.If) and not any(x is i for lp in loops for x in ast.walk(lp)):
            ts = _type_names(i.test)
            if not ts:
                continue
            for f in sorted(_visited_fields(i.body)):
                for t_ in sorted(ts):
                    n += 1
                    ok = f in excluded.get(t_, set()) or f in generic
                    chk.judge(R, f"generate_code:gather_code:{t_}.{f} is visited once", ok,
                              f"gather_code visits node.{f} of a nodes.{t_} explicitly, but handle_node does not put it into special_nodes for that type: the loop over all "
                              f"children has already visited it, its code is emitted twice (a call in the else arm of a conditional expression runs twice)",
                              {"excluded_for_type": sorted(excluded.get(t_, set()))}, f"{g.path}:{i.lineno} in {gc.qual}")
    if n == 0:
        raise AnalysisError("gather_code: no explicit late visit of a child found (expected at least the else part of nodes.If)")


# ---------------------------------------------------------------------- R01.q
def r01q(repo, chk, R="R01.q"):
    g = repo.mod("generate_code")
    hs = repo.handlers()
    if "IfExp" not in hs:
        raise AnalysisError("no handler registered for nodes.IfExp")
    fn = g.func(f"{GEN_CLASS}.{hs['IfExp']}")
    chk.saw("generate_code", fn.qual)
    cfg, rd = fn_ctx(fn)
    sel = [s for s in collect_sites(repo, ["generate_code"]) if s.fn is fn and s.opcodes is not TOP and "select" in s.opcodes]
    if not sel:
        chk.ok(R, "generate_code:handle_ifexp:no eager select lowering", None)
        return
    for s in sel:
        ids = live_ids(cfg, s.call)
        atoms = guard_atoms(cfg, ids[0]) if ids else []
        guarded = any("Call" in norm(t) or "side_effect" in norm(t) or "is_constant" in norm(t) or "is_pure" in norm(t) for t, p in atoms)
        chk.judge(R, "generate_code:handle_ifexp:both arms are evaluated only when neither runs user code", guarded,
                  "'a if c else b' is lowered to 'select' after compiling BOTH arms unconditionally: an arm that calls a user function (device writes, counters) is executed "
                  "also when the condition selects the other arm, which the Python source does not do", {"guards": [norm(t)[:60] for t, p in atoms]}, s.where())
