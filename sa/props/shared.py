"""Rules that serve more than one property (one implementation, reported under
the id of the property whose check runs them)."""
from __future__ import annotations

import ast
from ..model import Repo, AnalysisError, norm, enclosing_def
from ..report import Check
from ..cfg import CFG, ReachingDefs, decompose
from ..consteval import FnEval, TOP, Pattern


def fn_ctx(fn):
    """(cfg, rd) of a function, cached through FnEval's cache."""
    key = id(fn)
    if key not in FnEval._cache:
        cfg = CFG(fn)
        FnEval._cache[key] = (cfg, ReachingDefs(cfg), fn)
    cfg, rd, _ = FnEval._cache[key]
    return cfg, rd


def live_ids(cfg, astnode):
    live = cfg.reachable()
    return [n.id for n in cfg.nodes_of(astnode) if n.id in live]


def guard_atoms(cfg, nid):
    """[(expr, polarity)] that hold on every path to nid (decomposed)."""
    return [(t, p) for t, p in cfg.guards(nid) if isinstance(t, ast.expr)]


def implied_by_guards(cfg, rd, nid, want_text, want_pol, depth=0):
    """Does some guard of *nid* imply  (want_text is want_pol)?  Follows local
    boolean flags through their reaching definitions (all must imply it)."""
    for t, p in guard_atoms(cfg, nid):
        if _implies(cfg, rd, t, p, nid_of_test(cfg, t, nid), want_text, want_pol, depth):
            return True
    return False


def nid_of_test(cfg, test, default):
    ids = live_ids(cfg, test)
    return ids[0] if ids else default


def _implies(cfg, rd, expr, pol, nid, want_text, want_pol, depth):
    if depth > 6:
        return False
    for t, p in decompose(expr, pol):
        if norm(t) == want_text and p == want_pol:
            return True
        if isinstance(t, ast.Name) and p is True:
            ds = rd.at(nid, t.id)
            if ds and all(d.kind == "assign" and d.value is not None and not d.index
                          and _implies(cfg, rd, d.value, True, d.node, want_text, want_pol, depth + 1) for d in ds):
                return True
    return False


# ------------------------------------------------------------------ R01.c / R03.d
def rule_alias_single_assignment(repo: Repo, chk: Check, rule: str, floor_alias=2, literal_only=False):
    """Every store that makes one value share another value's register/literal
    (``X.code_expr = <other>``) and every propagation of a constant to the
    readers of a variable is control-dependent on ``not X.is_overwritten``."""
    g = repo.mod("generate_code")
    n_alias = n_fresh = 0
    for fn in g.funcs.values():
        if isinstance(fn, ast.Lambda):
            continue
        stores = [st for st in ast.walk(fn) if isinstance(st, ast.Assign) and enclosing_def(st) is fn
                  and any(isinstance(t, ast.Attribute) and t.attr in ("code_expr",) or
                          isinstance(t, ast.Attribute) and t.attr == "name" and norm(t.value).startswith("sym") for t in st.targets)]
        if not stores:
            continue
        cfg, rd = fn_ctx(fn)
        chk.saw("generate_code", fn.qual)
        for st in stores:
            tgt = next(t for t in st.targets if isinstance(t, ast.Attribute))
            recv = norm(tgt.value)
            ids = live_ids(cfg, st)
            if not ids:
                continue
            nid = ids[0]
            kind = _rhs_kind(st.value, recv, tgt.attr, rd, nid)
            key = f"generate_code:{fn.qual}:{norm(st)[:100]}"
            where = f"{g.path}:{st.lineno} in {fn.qual}"
            if kind in ("fresh", "own", "empty"):
                n_fresh += 1
                chk.ok(rule, key, {"rhs": kind})
                continue
            if literal_only and isinstance(st.value, ast.Attribute) and st.value.attr == "code_expr":
                # shares a register, never a literal: judged under C01 only
                chk.ok(rule, key + " [register alias: judged by C01]", {"rhs": "register-alias"}, vacuous=True)
                continue
            n_alias += 1
            guarded = implied_by_guards(cfg, rd, nid, recv + ".is_overwritten", False)
            chk.judge(rule, key, guarded,
                      f"{recv} is made to share {norm(st.value)[:60]} (no copy is emitted) without a guard 'not {recv}.is_overwritten': "
                      f"a later write to either variable changes the other", {"rhs": "alias", "guards": [norm(t) + "=" + str(p) for t, p in guard_atoms(cfg, nid)]}, where)
    if n_alias < floor_alias:
        raise AnalysisError(f"{rule}: only {n_alias} aliasing stores recognised (expected >= {floor_alias}); the rule lost its anchor")
    # constant propagation to the readers of a variable
    cp = repo.mod("compile_pass")
    found = 0
    for fn in cp.funcs.values():
        for loop in ast.walk(fn):
            if isinstance(loop, ast.For) and enclosing_def(loop) is fn and isinstance(loop.iter, ast.Attribute) and loop.iter.attr == "nodes_reading":
                calls = [c for c in ast.walk(loop) if isinstance(c, ast.Call) and isinstance(c.func, ast.Attribute) and c.func.attr == "set_constant"]
                if not calls:
                    continue
                cfg, rd = fn_ctx(fn)
                recv = norm(loop.iter.value)
                chk.saw("compile_pass", fn.qual)
                for c in calls:
                    found += 1
                    ids = live_ids(cfg, c)
                    ok = bool(ids) and implied_by_guards(cfg, rd, ids[0], recv + ".is_overwritten", False)
                    chk.judge(rule, f"compile_pass:{fn.qual}:propagate constant to readers of {recv}", ok,
                              f"the constant assigned to {recv} is propagated to all its readers without the guard 'not {recv}.is_overwritten': "
                              f"a variable assigned twice would be folded to its first value", None, f"{cp.path}:{c.lineno} in {fn.qual}")
    if found < 1:
        raise AnalysisError(f"{rule}: constant propagation through variables (loop over nodes_reading calling set_constant) not found")


def _rhs_kind(v, recv, attr, rd, nid, depth=0):
    if depth > 6:
        return "alias"
    if isinstance(v, ast.Constant) and v.value == "":
        return "empty"
    if isinstance(v, ast.Call):
        f = norm(v.func)
        if f.endswith("get_register_name") or f.endswith("get_constant_name"):
            return "fresh"
        return "alias"
    if isinstance(v, ast.Attribute):
        if norm(v) == f"{recv}.{attr}":
            return "own"
        if v.attr == "code_expr" and isinstance(v.value, ast.Call) and norm(v.value.func).endswith("get_intermediate_symbol") \
                and len(v.value.args) >= 2 and isinstance(v.value.args[1], ast.Constant) and v.value.args[1].value is True:
            return "fresh"  # force_new=True: a new temporary
        return "alias"
    if isinstance(v, ast.BoolOp) and isinstance(v.op, ast.Or):
        kinds = {_rhs_kind(x, recv, attr, rd, nid, depth + 1) for x in v.values}
        return "fresh" if kinds <= {"fresh", "own", "empty"} else "alias"
    if isinstance(v, ast.IfExp):
        kinds = {_rhs_kind(x, recv, attr, rd, nid, depth + 1) for x in (v.body, v.orelse)}
        return "fresh" if kinds <= {"fresh", "own", "empty"} else "alias"
    if isinstance(v, ast.Name):
        ds = rd.at(nid, v.id)
        if ds and all(d.kind == "assign" and d.value is not None and not d.index for d in ds):
            kinds = {_rhs_kind(d.value, recv, attr, rd, d.node, depth + 1) for d in ds}
            return "fresh" if kinds <= {"fresh", "own", "empty"} else "alias"
        return "alias"
    return "alias"
