"""Rules that serve more than one property (one implementation, reported under
the id of the property whose check runs them)."""
from __future__ import annotations

import ast
from ..model import Repo, AnalysisError, norm, enclosing_def
from ..report import Check
from ..cfg import CFG, ReachingDefs, decompose
from ..consteval import FnEval, TOP, Pattern


def string_parts(e):
    """[str | expr] for an expression that builds a text from literal pieces and values: f'a{x}b', 'a' + x + 'b',
    'a{}b'.format(x); None if e is not of that kind (or uses a format spec / conversion)."""
    if isinstance(e, ast.Constant) and isinstance(e.value, str):
        return [e.value]
    if isinstance(e, ast.JoinedStr):
        out = []
        for v in e.values:
            if isinstance(v, ast.Constant):
                out.append(v.value)
            elif isinstance(v, ast.FormattedValue) and v.format_spec is None and v.conversion == -1:
                out.append(v.value)
            else:
                return None
        return _merge_parts(out)
    if isinstance(e, ast.BinOp) and isinstance(e.op, ast.Add):
        l, r = string_parts(e.left), string_parts(e.right)
        l = l if l is not None else [e.left]
        r = r if r is not None else [e.right]
        out = _merge_parts(l + r)
        return out if any(isinstance(x, str) for x in out) else None
    if isinstance(e, ast.Call) and isinstance(e.func, ast.Attribute) and e.func.attr == "format" and isinstance(e.func.value, ast.Constant) \
            and isinstance(e.func.value.value, str) and not e.keywords:
        import string
        out, i = [], 0
        for lit, name, spec, conv in string.Formatter().parse(e.func.value.value):
            if lit:
                out.append(lit)
            if name is None:
                continue
            if name not in ("", str(i)) or spec or conv or i >= len(e.args):
                return None
            out.append(e.args[i])
            i += 1
        return _merge_parts(out)
    return None


def _merge_parts(parts):
    out = []
    for x in parts:
        if isinstance(x, str) and out and isinstance(out[-1], str):
            out[-1] += x
        elif isinstance(x, str) and not x:
            continue
        else:
            out.append(x)
    return out


def expr_guards(node, stop=None):
    """[(test, polarity)] that hold when *node* is evaluated because of the expression it sits in: the test of an enclosing
    conditional expression, the earlier operands of an enclosing and/or, the filters of an enclosing comprehension."""
    out = []
    child, p = node, getattr(node, "parent", None)
    while p is not None and p is not stop and not isinstance(p, ast.stmt):
        if isinstance(p, ast.IfExp):
            if child is p.body:
                out.extend(decompose(p.test, True))
            elif child is p.orelse:
                out.extend(decompose(p.test, False))
        elif isinstance(p, ast.BoolOp):
            for v in p.values:
                if v is child:
                    break
                out.extend(decompose(v, isinstance(p.op, ast.And)))
        elif isinstance(p, (ast.ListComp, ast.SetComp, ast.GeneratorExp, ast.DictComp)):
            if child is not p.generators[0].iter:
                for g in p.generators:
                    for c in g.ifs:
                        if c is not child:
                            out.extend(decompose(c, True))
        child, p = p, getattr(p, "parent", None)
    return out


def fn_ctx(fn):
    """(cfg, rd) of a function, cached through FnEval's cache."""
    key = id(fn)
    if key not in FnEval._cache:
        cfg = CFG(fn)
        FnEval._cache[key] = (cfg, ReachingDefs(cfg), fn)
    cfg, rd, _ = FnEval._cache[key]
    return cfg, rd


def live_ids(cfg, astnode):
    live = cfg.reachable()
    return [n.id for n in cfg.nodes_of(astnode) if n.id in live]


def underlying(rd, nid, e, depth=0):
    """The expressions a local name stands for at node *nid*: plain assignments are followed (every reaching
    definition), anything else is returned as it is.  Makes a rule independent of how locals are called."""
    if depth > 6 or not isinstance(e, ast.Name):
        return [e]
    ds = rd.at(nid, e.id)
    if not ds or any(d.kind != "assign" or d.index or d.value is None for d in ds):
        return [e]
    out = []
    for d in ds:
        out.extend(underlying(rd, d.node, d.value, depth + 1))
    return out


def guard_atoms(cfg, nid):
    """[(expr, polarity)] that hold on every path to nid (decomposed)."""
    return [(t, p) for t, p in cfg.guards(nid) if isinstance(t, ast.expr)]


def implied_by_guards(cfg, rd, nid, want_text, want_pol, depth=0):
    """Does some guard of *nid* imply  (want_text is want_pol)?  Follows local
    boolean flags through their reaching definitions (all must imply it)."""
    for t, p in guard_atoms(cfg, nid):
        if _implies(cfg, rd, t, p, nid_of_test(cfg, t, nid), want_text, want_pol, depth):
            return True
    return False


def nid_of_test(cfg, test, default):
    ids = live_ids(cfg, test)
    return ids[0] if ids else default


def _implies(cfg, rd, expr, pol, nid, want_text, want_pol, depth):
    if depth > 6:
        return False
    for t, p in decompose(expr, pol):
        if norm(t) == want_text and p == want_pol:
            return True
        if isinstance(t, ast.Name) and p is True:
            ds = rd.at(nid, t.id)
            if ds and all(d.kind == "assign" and d.value is not None and not d.index
                          and _implies(cfg, rd, d.value, True, d.node, want_text, want_pol, depth + 1) for d in ds):
                return True
    return False


# ------------------------------------------------------------------ R01.c / R03.d
def rule_alias_single_assignment(repo: Repo, chk: Check, rule: str, floor_alias=2, literal_only=False, only_fn=None):
    """Every store that makes one value share another value's register/literal
    (``X.code_expr = <other>``) and every propagation of a constant to the
    readers of a variable is control-dependent on ``not X.is_overwritten``."""
    g = repo.mod("generate_code")
    n_alias = n_fresh = 0
    for fn in g.funcs.values():
        if isinstance(fn, ast.Lambda):
            continue
        if only_fn is not None and fn.qual != only_fn:
            continue
        stores = [st for st in ast.walk(fn) if isinstance(st, ast.Assign) and enclosing_def(st) is fn
                  and any(isinstance(t, ast.Attribute) and t.attr in ("code_expr",) or
                          isinstance(t, ast.Attribute) and t.attr == "name" and norm(t.value).startswith("sym") for t in st.targets)]
        if not stores:
            continue
        cfg, rd = fn_ctx(fn)
        chk.saw("generate_code", fn.qual)
        for st in stores:
            tgt = next(t for t in st.targets if isinstance(t, ast.Attribute))
            recv = norm(tgt.value)
            ids = live_ids(cfg, st)
            if not ids:
                continue
            nid = ids[0]
            kind = _rhs_kind(st.value, recv, tgt.attr, rd, nid)
            key = f"generate_code:{fn.qual}:{norm(st)[:100]}"
            where = f"{g.path}:{st.lineno} in {fn.qual}"
            if kind in ("fresh", "own", "empty"):
                n_fresh += 1
                chk.ok(rule, key, {"rhs": kind})
                continue
            if literal_only and isinstance(st.value, ast.Attribute) and st.value.attr == "code_expr":
                # shares a register, never a literal: judged under C01 only
                chk.ok(rule, key + " [register alias: judged by C01]", {"rhs": "register-alias"}, vacuous=True)
                continue
            n_alias += 1
            # name-independent key: where the receiver and the shared value come from
            from ..origin import Origin
            o = Origin(fn)
            rt = ",".join(sorted(o.tags(tgt.value, nid)))
            vt = ",".join(sorted(o.tags(st.value, nid)))
            key = f"generate_code:{fn.qual}:{tgt.attr} of <{rt}> := <{vt}>"
            guarded = implied_by_guards(cfg, rd, nid, recv + ".is_overwritten", False)
            chk.judge(rule, key, guarded,
                      f"{recv} is made to share {norm(st.value)[:60]} (no copy is emitted) without a guard 'not {recv}.is_overwritten': "
                      f"a later write to either variable changes the other", {"rhs": "alias", "guards": [norm(t) + "=" + str(p) for t, p in guard_atoms(cfg, nid)]}, where)
            if not literal_only:
                _alias_source_clause(chk, rule, fn, st, tgt, recv, key, where)
    if n_alias < floor_alias:
        raise AnalysisError(f"{rule}: only {n_alias} aliasing stores recognised (expected >= {floor_alias}); the rule lost its anchor")
    if only_fn is not None:
        return
    # constant propagation to the readers of a variable
    cp = repo.mod("compile_pass")
    found = 0
    for fn in cp.funcs.values():
        for loop in ast.walk(fn):
            if isinstance(loop, ast.For) and enclosing_def(loop) is fn and isinstance(loop.iter, ast.Attribute) and loop.iter.attr == "nodes_reading":
                calls = [c for c in ast.walk(loop) if isinstance(c, ast.Call) and isinstance(c.func, ast.Attribute) and c.func.attr == "set_constant"]
                if not calls:
                    continue
                cfg, rd = fn_ctx(fn)
                recv = norm(loop.iter.value)
                chk.saw("compile_pass", fn.qual)
                for c in calls:
                    found += 1
                    ids = live_ids(cfg, c)
                    ok = bool(ids) and implied_by_guards(cfg, rd, ids[0], recv + ".is_overwritten", False)
                    chk.judge(rule, f"compile_pass:{fn.qual}:propagate constant to readers of {recv}", ok,
                              f"the constant assigned to {recv} is propagated to all its readers without the guard 'not {recv}.is_overwritten': "
                              f"a variable assigned twice would be folded to its first value", None, f"{cp.path}:{c.lineno} in {fn.qual}")
    if found < 1:
        raise AnalysisError(f"{rule}: constant propagation through variables (loop over nodes_reading calling set_constant) not found")
    rule_forwarding_skips_unused(repo, chk, rule)


def rule_forwarding_skips_unused(repo: Repo, chk: Check, rule: str):
    # 'not is_overwritten' counts the writes that set_name_written recorded, and that function ignores nodes marked unused: the pass
    # that forwards the constant must skip those nodes too, or an assignment in dead code is forwarded over the live one
    cp = repo.mod("compile_pass")
    snw = cp.func("CodeData.set_name_written")
    scfg, _srd = fn_ctx(snw)
    records = [c for c in ast.walk(snw) if isinstance(c, ast.Call) and isinstance(c.func, ast.Attribute) and c.func.attr == "append" and "nodes_writing" in norm(c.func.value)]
    if not records:
        raise AnalysisError(f"{rule}: set_name_written: the statement that records a write (nodes_writing.append) was not found")
    ignores_unused = all(any(p_ and norm(t_).endswith(".is_used") for t_, p_ in guard_atoms(scfg, i_)) for c in records for i_ in live_ids(scfg, c)[:1])
    if not ignores_unused:
        chk.ok(rule, "compile_pass:set_name_written counts writes in unused nodes too", None, vacuous=True)
    if ignores_unused:
        for fn in cp.funcs.values():
            cls = getattr(fn, "cls", None)
            if cls is None or not any(isinstance(lp, ast.For) and isinstance(lp.iter, ast.Attribute) and lp.iter.attr == "nodes_reading"
                                      and any(isinstance(c, ast.Call) and isinstance(c.func, ast.Attribute) and c.func.attr == "set_constant" for c in ast.walk(lp))
                                      for lp in ast.walk(fn)):
                continue
            # the value of skip_unused_nodes that this class sees (own body, then its bases)
            val, owner = None, None
            for m_, c_ in repo.class_mro(cp, cls):
                for st in c_.body:
                    tgt = st.targets[0] if isinstance(st, ast.Assign) and len(st.targets) == 1 else (st.target if isinstance(st, ast.AnnAssign) else None)
                    if isinstance(tgt, ast.Name) and tgt.id == "skip_unused_nodes" and getattr(st, "value", None) is not None and val is None:
                        val, owner = st.value, c_.name
            if val is None:
                raise AnalysisError(f"{rule}: skip_unused_nodes is not defined for {cls.name}")
            chk.judge(rule, f"compile_pass:{cls.name}:the forwarding pass skips the nodes whose writes are not counted", isinstance(val, ast.Constant) and val.value is True,
                      f"{cls.name} forwards single-assignment constants to their readers with skip_unused_nodes = {norm(val)} (from {owner}), while set_name_written does not count "
                      f"assignments in unused nodes: 'RATE = 10; if False: RATE = 1000' still counts as assigned once, the dead assignment is visited and its constant "
                      f"replaces the live value at every read", {"skip_unused_nodes": norm(val), "defined_in": owner}, f"{cp.path}:{cls.lineno}")


def _alias_source_clause(chk, rule, fn, st, tgt, recv, key, where):
    """X.code_expr = <register of another value V>: sharing is sound only if V, too, is never assigned again (a value that is
    reassigned later changes under the new name).  Evaluated as a truth table over the tests on the path to the store:
    whenever V is a register, 'V.is_overwritten' must be false."""
    import itertools
    from .c15 import symbolic_path, _subst
    env, conds = symbolic_path(fn, st)
    rhs = _subst(st.value, env)
    srcs = []
    for a in ast.walk(rhs):
        if isinstance(a, ast.Attribute) and a.attr == "code_expr" and norm(a.value) != recv and not any(norm(a.value) == x for x in srcs):
            srcs.append(norm(a.value))
    for src in srcs:
        if "get_register_name" in src or "get_intermediate_symbol" in src or "IC10Register(" in src:
            continue   # a register made for this purpose, not a user value
        S, R = src + ".is_overwritten", f"isinstance({src}, IC10Register)"

        def formula(e):
            if isinstance(e, ast.BoolOp):
                return ("and" if isinstance(e.op, ast.And) else "or", [formula(v) for v in e.values])
            if isinstance(e, ast.UnaryOp) and isinstance(e.op, ast.Not):
                return ("not", formula(e.operand))
            if isinstance(e, ast.Constant):
                return ("const", bool(e.value))
            t = norm(e)
            if t == S:
                return ("atom", "S")
            if t == R or t.startswith(f"isinstance({src}, ") and "IC10Register" in t:
                return ("atom", "R")
            return ("atom", "?" + t)
        fs = [formula(t) if pol else ("not", formula(t)) for t, pol in conds]
        # tests inside the right-hand side that select the register branch
        atoms = {"S", "R"}
        for f in fs:
            _fatoms(f, atoms)
        free = sorted(a for a in atoms if a.startswith("?"))
        if len(free) > 8:
            raise AnalysisError(f"{fn.qual}: too many tests around the aliasing store")
        names = ["S", "R"] + free
        bad = False
        for vals in itertools.product([False, True], repeat=len(names)):
            a = dict(zip(names, vals))
            if a["R"] and a["S"] and all(_feval(f, a) for f in fs):
                bad = True
        chk.judge(rule, key + " [the shared value is not assigned again either]", not bad,
                  f"{recv} is made to share the register of {src} (no copy is emitted) also when {src} is assigned again later: "
                  f"'y = x; x = x + 1' makes y follow the new value of x (the tests on the path are {[norm(t)[:60] + ('' if pol else ' is False') for t, pol in conds]})",
                  {"source": src}, where)


def _rhs_kind(v, recv, attr, rd, nid, depth=0):
    if depth > 6:
        return "alias"
    if isinstance(v, ast.Constant) and v.value == "":
        return "empty"
    if isinstance(v, ast.Call):
        f = norm(v.func)
        if f.endswith("get_register_name") or f.endswith("get_constant_name"):
            return "fresh"
        return "alias"
    if isinstance(v, ast.Attribute):
        if norm(v) == f"{recv}.{attr}":
            return "own"
        if v.attr == "code_expr" and isinstance(v.value, ast.Call) and norm(v.value.func).endswith("get_intermediate_symbol") \
                and len(v.value.args) >= 2 and isinstance(v.value.args[1], ast.Constant) and v.value.args[1].value is True:
            return "fresh"  # force_new=True: a new temporary
        return "alias"
    if isinstance(v, ast.BoolOp) and isinstance(v.op, ast.Or):
        kinds = {_rhs_kind(x, recv, attr, rd, nid, depth + 1) for x in v.values}
        return "fresh" if kinds <= {"fresh", "own", "empty"} else "alias"
    if isinstance(v, ast.IfExp):
        kinds = {_rhs_kind(x, recv, attr, rd, nid, depth + 1) for x in (v.body, v.orelse)}
        return "fresh" if kinds <= {"fresh", "own", "empty"} else "alias"
    if isinstance(v, ast.Name):
        ds = rd.at(nid, v.id)
        if ds and all(d.kind == "assign" and d.value is not None and not d.index for d in ds):
            kinds = {_rhs_kind(d.value, recv, attr, rd, d.node, depth + 1) for d in ds}
            return "fresh" if kinds <= {"fresh", "own", "empty"} else "alias"
        return "alias"
    return "alias"


# ------------------------------------------------------------------ helpers on the handler registry
GEN_CLASS = "CompilerPassGenerateCode"


def handler_functions(repo: Repo, ntypes, depth=2):
    """Functions of the code generator reached from the handlers registered for
    *ntypes* through ``self.<method>(...)`` calls (bounded depth)."""
    g = repo.mod("generate_code")
    hs = repo.handlers()
    start = []
    for nt in ntypes:
        if nt not in hs:
            raise AnalysisError(f"no handler registered for nodes.{nt}")
        q = f"{GEN_CLASS}.{hs[nt]}"
        start.append(g.func(q))
    seen, out, frontier = set(), [], list(start)
    for _ in range(depth + 1):
        nxt = []
        for fn in frontier:
            if id(fn) in seen:
                continue
            seen.add(id(fn))
            out.append(fn)
            for c in ast.walk(fn):
                if isinstance(c, ast.Call) and isinstance(c.func, ast.Attribute) and isinstance(c.func.value, ast.Name) and c.func.value.id == "self":
                    q = f"{GEN_CLASS}.{c.func.attr}"
                    if q in g.funcs and c.func.attr not in ("compile_node", "_visit_node", "get_label", "get_intermediate_symbol", "get_register_name"):
                        nxt.append(g.funcs[q])
        frontier = nxt
    return out


def negation_flags(fn):
    """Locals that record that the test was written with 'not': defined False,
    and True under a guard that compares an operator with 'not'."""
    cfg, rd = fn_ctx(fn)
    cand = {}
    for d in rd.all_defs:
        if d.kind == "assign" and isinstance(d.value, ast.Constant) and isinstance(d.value.value, bool) and not d.index:
            cand.setdefault(d.name, []).append(d)
    out = set()
    for name, ds in cand.items():
        vals = {d.value.value for d in ds}
        if vals != {True, False}:
            continue
        for d in ds:
            if d.value.value is True:
                for t, p in guard_atoms(cfg, d.node):
                    if p and isinstance(t, ast.Compare) and any(isinstance(c, ast.Constant) and c.value == "not" for c in t.comparators):
                        out.add(name)
    return out


def body_loops(fn, fields=("body",)):
    """for <x> in node.<field>: ... self.compile_node(x) / self._visit_node(x)"""
    out = []
    for loop in ast.walk(fn):
        if isinstance(loop, ast.For) and enclosing_def(loop) is fn and isinstance(loop.iter, ast.Attribute) and loop.iter.attr in fields \
                and isinstance(loop.target, ast.Name):
            for c in ast.walk(loop):
                if isinstance(c, ast.Call) and isinstance(c.func, ast.Attribute) and c.func.attr in ("compile_node", "_visit_node") \
                        and c.args and isinstance(c.args[0], ast.Name) and c.args[0].id == loop.target.id:
                    out.append(loop)
                    break
    return out


def label_var_of(site):
    """f"{X}:" -> 'X' for a label-definition emission site, else None."""
    e = site.op_expr
    if isinstance(e, ast.JoinedStr) and len(e.values) == 2 and isinstance(e.values[0], ast.FormattedValue) \
            and isinstance(e.values[0].value, ast.Name) and isinstance(e.values[1], ast.Constant) and e.values[1].value == ":":
        return e.values[0].value.id
    return None


# ------------------------------------------------------------------ R01.e / R05.c
def rule_loop_labels(repo: Repo, chk: Check, rule: str):
    from ..emit import collect_sites
    g = repo.mod("generate_code")
    fns = [fn for fn in handler_functions(repo, ["For", "While"]) if body_loops(fn)]
    if len(fns) < 3:
        raise AnalysisError(f"{rule}: only {len(fns)} loop lowerings found (expected the for-range, for-list and while lowerings)")
    all_sites = collect_sites(repo, ["generate_code"])
    for fn in fns:
        chk.saw("generate_code", fn.qual)
        cfg, rd = fn_ctx(fn)
        dom = cfg.dominators()
        loops = body_loops(fn)
        loop_ids = [i for lp in loops for i in live_ids(cfg, lp.iter)]
        where = f"{g.path}:{fn.lineno} in {fn.qual}"
        sites = sorted([s for s in all_sites if s.fn is fn], key=lambda s: (s.call.lineno, s.call.col_offset))
        label_sites = {}
        for s in sites:
            v = label_var_of(s)
            if v:
                label_sites.setdefault(v, []).append(s)
        E = [s for s in sites if s.how == "add" and s.section == "end"]

        def kind(s):
            if label_var_of(s):
                return "label"
            ops = s.opcodes
            if ops is not TOP and ops and all(isinstance(o, str) and o in ("j", "jal", "jr") for o in ops):
                return "jump"
            return "instr"
        kinds = [kind(s) for s in E]
        for attr, role in (("start_label", "continue"), ("end_label", "break")):
            stores = [st for st in ast.walk(fn) if isinstance(st, ast.Assign) and enclosing_def(st) is fn
                      and any(isinstance(t, ast.Attribute) and t.attr == attr for t in st.targets)]
            key = f"generate_code:{fn.qual}:{attr}"
            if not stores:
                chk.bad(rule, key, f"the loop lowering never sets {attr}: '{role}' inside this loop emits a jump to None", None, where)
                continue
            ok_dom = True
            for st in stores:
                sid = live_ids(cfg, st)
                if not sid or not all(sid[0] in dom.get(l, set()) for l in loop_ids):
                    ok_dom = False
            chk.judge(rule, key + " [set before the body is compiled]", ok_dom and len(stores) == 1,
                      f"{attr} is not assigned exactly once on every path before the loop body is compiled ({len(stores)} store(s))", None, where)
            st = stores[0]
            if not isinstance(st.value, ast.Name):
                chk.bad(rule, key + " [label]", f"{attr} is assigned {norm(st.value)}, not a label variable", None, where)
                continue
            var = st.value.id
            defs = label_sites.get(var, [])
            if len(defs) != 1:
                chk.bad(rule, key + " [label]", f"label {var} stored in {attr} is defined {len(defs)} time(s) in the lowering", None, where)
                continue
            d = defs[0]
            if role == "continue":
                if d in E:
                    k = E.index(d)
                    early = [norm(E[i].call)[:60] for i in range(k) if kinds[i] == "instr"]
                    later_jump = any(kinds[i] == "jump" for i in range(k + 1, len(E)))
                    chk.judge(rule, key + " [continue reaches the step code]", not early and later_jump,
                              f"'continue' jumps to {var}, which is placed after the step instruction(s) {early} / not followed by the back jump",
                              {"end_section": kinds}, d.where())
                else:
                    first_jump = next((i for i, kd in enumerate(kinds) if kd == "jump"), len(E))
                    skipped = [norm(E[i].call)[:60] for i in range(first_jump) if kinds[i] == "instr"]
                    chk.judge(rule, key + " [continue reaches the step code]", d.section == "" and not skipped,
                              f"'continue' jumps to {var} at the loop head and skips the step instruction(s) {skipped} emitted before the back jump",
                              {"end_section": kinds}, d.where())
            else:
                jumps = [i for i, kd in enumerate(kinds) if kd == "jump"]
                ok = d in E and jumps and E.index(d) > max(jumps)
                chk.judge(rule, key + " [break label follows the back jump]", bool(ok),
                          f"'break' jumps to {var}, which is not placed after the loop's back jump", {"end_section": kinds}, d.where())
                # the back jump itself is emitted whenever the loop is: a jump that is left out under a condition lets the last iteration run on
                # into whatever follows the loop (for a top-level 'while True:' that is the first function)
                for i in jumps:
                    js = E[i]
                    jid = live_ids(cfg, js.call)
                    lid = live_ids(cfg, d.call)
                    if not jid or not lid:
                        continue
                    gj = {(norm(t_), p_) for t_, p_ in guard_atoms(cfg, jid[0])}
                    gl = {(norm(t_), p_) for t_, p_ in guard_atoms(cfg, lid[0])}
                    extra = sorted(f"{t_}{'' if p_ else ' is False'}" for t_, p_ in gj - gl)
                    if extra:
                        chk.unresolved(rule, key + " [the back jump is emitted with the loop]",
                                       f"the jump back to the loop head is emitted only under {extra}; whether the loop body can never reach its end in the other case "
                                       f"is not something this rule can establish", js.where())
                    else:
                        chk.ok(rule, key + " [the back jump is emitted with the loop]", None)


# ------------------------------------------------------------------ R05.d / R06.b
def _is_qualified_source(e, rd, nid, depth=0):
    """Does *e* denote get_function_name(<node>) (the module-qualified name)?"""
    if depth > 5:
        return False
    if isinstance(e, ast.Call) and isinstance(e.func, ast.Name) and e.func.id == "get_function_name":
        return True
    if isinstance(e, ast.Name) and nid is not None:
        ds = rd.at(nid, e.id)
        return bool(ds) and all(d.kind == "assign" and not d.index and d.value is not None and _is_qualified_source(d.value, rd, d.node, depth + 1) for d in ds)
    return False


def _transform_of(e, rd, nid, depth=0):
    """If *e* is <qualified name>.replace(a, b) [+ suffix], return ((a, b), suffix, source_ok) else None."""
    if depth > 6:
        return None
    if isinstance(e, ast.Call) and isinstance(e.func, ast.Attribute) and e.func.attr == "replace" and len(e.args) == 2 \
            and all(isinstance(a, ast.Constant) and isinstance(a.value, str) for a in e.args):
        return ((e.args[0].value, e.args[1].value), "", _is_qualified_source(e.func.value, rd, nid), norm(e.func.value))
    if isinstance(e, ast.BinOp) and isinstance(e.op, ast.Add) and isinstance(e.right, ast.Constant) and isinstance(e.right.value, str):
        t = _transform_of(e.left, rd, nid, depth + 1)
        if t:
            return (t[0], t[1] + e.right.value, t[2], t[3])
    if isinstance(e, ast.JoinedStr) and e.values and isinstance(e.values[0], ast.FormattedValue):
        t = _transform_of(e.values[0].value, rd, nid, depth + 1)
        rest = e.values[1:]
        if t and all(isinstance(v, ast.Constant) for v in rest):
            return (t[0], t[1] + "".join(v.value for v in rest), t[2], t[3])
    if isinstance(e, ast.Name) and nid is not None:
        ds = rd.at(nid, e.id)
        if ds and all(d.kind == "assign" and not d.index and d.value is not None for d in ds):
            ts = [_transform_of(d.value, rd, d.node, depth + 1) for d in ds]
            if all(ts) and len({(t[0], t[1]) for t in ts}) == 1:
                return (ts[0][0], ts[0][1], all(t[2] for t in ts), ts[0][3])
    return None


def rule_function_labels(repo: Repo, chk: Check, rule: str):
    """All constructions of a function's label agree (3 writers in the code
    generator, 1 reader in the ra logic)."""
    from ..emit import collect_sites
    uses = []  # (module, fn, expr, transform, suffix, source_ok, role)
    for mn in ("generate_code", "compile_pass"):
        m = repo.mod(mn)
        for fn in m.funcs.values():
            if isinstance(fn, ast.Lambda):
                continue
            cands = [c for c in ast.walk(fn) if enclosing_def(c) is fn and isinstance(c, ast.Call) and isinstance(c.func, ast.Attribute)
                     and c.func.attr == "replace" and len(c.args) == 2]
            if not cands:
                continue
            cfg, rd = fn_ctx(fn)
            for c in cands:
                ids = live_ids(cfg, c)
                if not ids:
                    continue
                t = _transform_of(c, rd, ids[0])
                if t is None:
                    continue
                # only name->label transformations: receiver is a function name (qualified or not)
                recv = t[3]
                if not (t[2] or "name" in recv):
                    continue
                uses.append((m, fn, c, t))
    if len(uses) < 4:
        raise AnalysisError(f"{rule}: only {len(uses)} function-label constructions found (expected the 3 writers of the code generator and the reader of the ra logic)")
    transforms = {}
    for m, fn, c, t in uses:
        transforms.setdefault(t[0], []).append(f"{m.name}:{fn.qual}")
    majority = max(transforms, key=lambda k: len(transforms[k]))
    for m, fn, c, t in uses:
        chk.saw(m.name, fn.qual)
        key = f"{m.name}:{fn.qual}:function label from {t[3]}"
        where = f"{m.path}:{c.lineno} in {fn.qual}"
        chk.judge(rule, key + " [qualified name]", t[2],
                  f"the label is built from {t[3]}, not from get_function_name(...): for a function of a library module the label "
                  f"'<module>.<name>' and this spelling differ", {"source": t[3]}, where)
        chk.judge(rule, key + " [same transformation]", t[0] == majority,
                  f"this site maps {t[0][0]!r}->{t[0][1]!r}, the other sites {majority[0]!r}->{majority[1]!r}", {"transform": list(t[0])}, where)
    # '<name>end' suffix: definition, references and the ra logic
    suffixes = []  # (module, fn, text, where, has_colon)
    for mn in ("generate_code", "compile_pass"):
        m = repo.mod(mn)
        for fn in m.funcs.values():
            if isinstance(fn, ast.Lambda):
                continue
            cfg = rd = None
            for e in ast.walk(fn):
                if enclosing_def(e) is not fn:
                    continue
                if isinstance(e, ast.BinOp) and isinstance(e.op, ast.Add) and isinstance(e.right, ast.Constant) and isinstance(e.right.value, str) \
                        and e.right.value != "" and not isinstance(getattr(e, "parent", None), ast.BinOp) or \
                        isinstance(e, ast.JoinedStr) and len(e.values) >= 2 and isinstance(e.values[0], ast.FormattedValue):
                    if cfg is None:
                        cfg, rd = fn_ctx(fn)
                    ids = live_ids(cfg, e)
                    if not ids:
                        continue
                    t = _transform_of(e, rd, ids[0])
                    if t and t[1] and t[1] != ":":
                        suffixes.append((m, fn, t[1], f"{m.path}:{e.lineno} in {fn.qual}"))
    stripped = {}
    for m, fn, sfx, where in suffixes:
        stripped.setdefault(sfx.rstrip(":"), []).append((m, fn, sfx, where))
    defs = [x for x in suffixes if x[2].endswith(":") and x[0].name == "generate_code"]
    if not defs:
        raise AnalysisError(f"{rule}: definition site of the '<name>end:' label not found")
    want = defs[0][2].rstrip(":")
    for m, fn, sfx, where in suffixes:
        chk.judge(rule, f"{m.name}:{fn.qual}:end-label suffix {sfx!r}", sfx.rstrip(":") == want,
                  f"this site spells the function's end label with suffix {sfx!r}, its definition uses {want + ':'!r}", None, where)
    mods = {m.name for m, fn, sfx, where in suffixes}
    if "compile_pass" not in mods:
        raise AnalysisError(f"{rule}: the ra logic no longer refers to the '<name>end' label")
    # every jal operand is a generated label variable or such a transformed name
    g = repo.mod("generate_code")
    for s in collect_sites(repo, ["generate_code"]):
        ops = s.opcodes
        if ops is TOP or not ops or set(ops) != {"jal"}:
            continue
        cfg, rd = fn_ctx(s.fn)
        ids = live_ids(cfg, s.call)
        arg = s.input_exprs[0] if s.input_exprs else None
        ok = False
        if arg is not None and ids:
            if _transform_of(arg, rd, ids[0]):
                ok = True
            elif isinstance(arg, ast.Name):
                ds = rd.at(ids[0], arg.id)
                ok = bool(ds) and all(d.kind == "assign" and isinstance(d.value, ast.Call) and norm(d.value.func).endswith("get_label") for d in ds)
        chk.judge(rule, f"generate_code:{s.qual}:jal target {norm(arg) if arg is not None else '?'}", ok,
                  "the call target is neither a generated label nor the transformed qualified function name", None, s.where())


# ------------------------------------------------------------------ R02.d / R06.a roles
_ROLE_CACHE = {}


def convention_roles(repo: Repo):
    """{(role, uses_push_pop): [sites]} for the four roles of the calling convention."""
    from ..emit import collect_sites
    if id(repo) in _ROLE_CACHE and _ROLE_CACHE[id(repo)][0] is repo:
        return _ROLE_CACHE[id(repo)][1]
    g = repo.mod("generate_code")
    hs = repo.handlers()
    for need in ("Call", "Return"):
        if need not in hs:
            raise AnalysisError(f"no handler registered for nodes.{need}")
    fns = {
        "caller": g.func(f"{GEN_CLASS}.{hs['Call']}"),
        "callee": g.func(f"{GEN_CLASS}.compile_function"),
        "return": g.func(f"{GEN_CLASS}.{hs['Return']}"),
    }
    table = {
        ("caller-arg", True): ("caller", "push"), ("caller-arg", False): ("caller", "put"),
        ("callee-arg", True): ("callee", "pop"), ("callee-arg", False): ("callee", "get"),
        ("callee-result", True): ("return", "push"), ("callee-result", False): ("return", "put"),
        ("caller-result", True): ("caller", "pop"), ("caller-result", False): ("caller", "get"),
    }
    sites = collect_sites(repo, ["generate_code"])
    out = {k: [] for k in table}
    for s in sites:
        if s.opcodes is TOP or len(s.opcodes) != 1:
            continue
        op = next(iter(s.opcodes))
        for (role, conv), (who, want) in table.items():
            if s.fn is fns[who] and op == want:
                cfg, rd = fn_ctx(s.fn)
                ids = live_ids(cfg, s.call)
                pol = None
                for t, p in (guard_atoms(cfg, ids[0]) if ids else []):
                    if norm(t).endswith("use_push_pop_functions"):
                        pol = p
                if pol is conv:
                    out[(role, conv)].append(s)
    _ROLE_CACHE[id(repo)] = (repo, out)
    return out


def rule_convention_roles(repo: Repo, chk: Check, rule: str):
    roles = convention_roles(repo)
    g = repo.mod("generate_code")
    for (role, conv), sites in sorted(roles.items(), key=lambda kv: (kv[0][0], kv[0][1])):
        name = "push/pop" if conv else "fixed slots"
        for s in sites:
            chk.saw("generate_code", s.qual)
        chk.judge(rule, f"generate_code:convention role {role} under {name}", len(sites) >= 1,
                  f"no emission site for the role '{role}' under the {name} convention (guarded by use_push_pop_functions "
                  f"{'true' if conv else 'false'}): with that option the value is never transferred",
                  {"sites": [norm(s.call)[:70] for s in sites]}, str(g.path))


# ------------------------------------------------------------------ R04.e / R13.d
def class_attr_value(mod, fn, e):
    """self.X / Cls.X where X is assigned once in the class body of *fn*'s class -> that value, else None."""
    cls = getattr(fn, "cls", None)
    if cls is None or not (isinstance(e, ast.Attribute) and isinstance(e.value, ast.Name) and e.value.id in ("self", "cls", cls.name)):
        return None
    vals = [st.value for st in cls.body if isinstance(st, ast.Assign) and any(isinstance(t, ast.Name) and t.id == e.attr for t in st.targets)]
    vals += [st.value for st in cls.body if isinstance(st, ast.AnnAssign) and isinstance(st.target, ast.Name) and st.target.id == e.attr and st.value is not None]
    return vals[0] if len(vals) == 1 else None


def lifetime_leaves(mod, lf, cfg, rd):
    """[(value expression, statement that decides it)] for everything stored into self._lifetime: local names are followed to
    their defining assignments, class-level constants to their value."""
    out, seen = [], set()

    def follow(v, st):
        if isinstance(v, ast.Name):
            ids = live_ids(cfg, st)
            ds = rd.at(ids[0], v.id) if ids else []
            if ds and all(d.kind == "assign" and not d.index and d.value is not None for d in ds):
                for d in ds:
                    if d.node not in seen:
                        seen.add(d.node)
                        follow(d.value, cfg.nodes[d.node].ast)
                return
        if isinstance(v, ast.Constant) and v.value is None:
            return
        ca = class_attr_value(mod, lf, v)
        out.append((ca if ca is not None else v, st))

    for st in ast.walk(lf):
        if isinstance(st, ast.Assign) and any(norm(x).endswith("_lifetime") for x in st.targets):
            follow(st.value, st)
    return out


def _is_module_scope_test(e, var=None):
    return isinstance(e, ast.Call) and norm(e.func) == "isinstance" and len(e.args) == 2 and ".scope()" in norm(e.args[0]) and norm(e.args[1]).endswith("Module") \
        and (var is None or norm(e.args[0]).startswith(var + "."))


def rule_module_lifetime(repo: Repo, chk: Check, rule: str):
    t = repo.mod("types")
    lf = t.func("IC10Register.lifetime")
    chk.saw("types", "IC10Register.lifetime")
    # a global that is assigned only inside functions ('global g; g = ..'): the node that writes it stands in the function, so "the writer's scope is a
    # module" does not hold for it; the decision has to come from where the NAME lives (the global statement, the module's own table of names, the
    # symbol's own scope), not only from where the writer stands
    txt_ = " ".join(norm(x) for x in ast.walk(lf) if isinstance(x, (ast.Attribute, ast.Name, ast.Call)))
    looks_at_name = any(w in txt_ for w in ("Global", ".globals", ".lookup(", ".root()", "scope_name", "self.scope", "is_global"))
    if rule.startswith("R04"):      # a question of register sharing (C04); how a program is split over modules (C13) does not change it
      chk.judge(rule, "types:IC10Register.lifetime:a global assigned only inside functions lives for the whole program", looks_at_name,
                "module level is recognised by the scope in which the WRITER stands; a name declared 'global' in a function is written by a node of that function, gets the line "
                "interval of its accesses, and a temporary of the main code takes its register between the call that writes it and the call that reads it", None,
                f"{t.path}:{lf.lineno} in IC10Register.lifetime")
    cfg, rd = fn_ctx(lf)
    where = f"{t.path}:{lf.lineno} in IC10Register.lifetime"
    leaves = lifetime_leaves(t, lf, cfg, rd)
    stores = [(v, st) for v, st in leaves if isinstance(v, ast.Call) and norm(v.func) == "range" and v.args and "maxsize" in norm(v.args[-1])]
    if not stores:
        chk.bad(rule, "types:IC10Register.lifetime:module-level values live for the whole program",
                "no unbounded lifetime is assigned any more: a global is released after its last textual use although functions read it later", None, where)
        return
    for v, st in stores:
        ids = live_ids(cfg, st)
        atoms = guard_atoms(cfg, ids[0]) if ids else []
        by_name = [norm(tst) for tst, p in atoms if isinstance(tst, ast.Compare) and any(isinstance(c, ast.Constant) and isinstance(c.value, str) for c in tst.comparators)
                   and ".name" in norm(tst.left)]
        # (a) inside 'for n in self.nodes_writing' under isinstance(n.scope(), Module)
        loopvars = []
        partial_iter = None
        p = st
        while p is not None and p is not lf:
            if isinstance(p, ast.For) and "nodes_writing" in norm(p.iter) and isinstance(p.target, ast.Name):
                it_ = p.iter
                while isinstance(it_, ast.Call) and norm(it_.func) in ("list", "tuple", "sorted", "reversed", "iter", "set") and it_.args:
                    it_ = it_.args[0]
                if isinstance(it_, ast.Subscript):
                    # only some of the writers are looked at: a global that is (also) assigned inside a function defined further up
                    # has its first writer there and is missed
                    partial_iter = norm(p.iter)
                else:
                    loopvars.append(p.target.id)
            p = getattr(p, "parent", None)
        ok = any(pol and any(_is_module_scope_test(tst, lv) for lv in loopvars) for tst, pol in atoms)
        # (a') the scope is held in a local: isinstance(V, Module) where V = n.scope(), possibly re-defined for function
        #      definitions only (a FunctionDef's own scope() is the function itself, never a module, so such a re-definition
        #      cannot take the unbounded lifetime away from a value written at module level)
        for tst, pol in atoms:
            if not (pol and isinstance(tst, ast.Call) and norm(tst.func) == "isinstance" and len(tst.args) == 2 and isinstance(tst.args[0], ast.Name)
                    and norm(tst.args[1]).endswith("Module")):
                continue
            tid = nid_of_test(cfg, tst, ids[0] if ids else 0)
            ds = rd.at(tid, tst.args[0].id)
            base = [d for d in ds if d.kind == "assign" and not d.index and d.value is not None and any(norm(d.value) == f"{lv}.scope()" for lv in loopvars)]
            rest = [d for d in ds if d not in base]
            only_functions = all(any(p2 and isinstance(t2, ast.Call) and norm(t2.func) == "isinstance" and len(t2.args) == 2 and norm(t2.args[0]) in loopvars
                                     and norm(t2.args[1]).endswith("FunctionDef") for t2, p2 in guard_atoms(cfg, d.node)) for d in rest)
            if base and only_functions:
                ok = True
        # (b) under any(isinstance(n.scope(), Module) for n in self.nodes_writing)
        for tst, pol in atoms:
            if pol and isinstance(tst, ast.Call) and norm(tst.func) == "any" and len(tst.args) == 1 and isinstance(tst.args[0], (ast.GeneratorExp, ast.ListComp)):
                g = tst.args[0]
                if len(g.generators) == 1 and not g.generators[0].ifs and "nodes_writing" in norm(g.generators[0].iter) and isinstance(g.generators[0].target, ast.Name) \
                        and _is_module_scope_test(g.elt, g.generators[0].target.id):
                    ok = True
        if partial_iter and not ok:
            chk.bad(rule, "types:IC10Register.lifetime:module-level values live for the whole program",
                    f"only {partial_iter} is examined for a writer at module level: a global whose first recorded assignment sits inside a function (assigned there via 'global', "
                    f"the function defined above the module-level assignment) gets a line interval and shares its register", {"iterates": partial_iter},
                    f"{t.path}:{st.lineno} in IC10Register.lifetime")
            continue
        chk.judge(rule, "types:IC10Register.lifetime:module-level values live for the whole program", ok and not by_name,
                  "the unbounded lifetime is assigned " + (f"only for the module whose name satisfies {by_name}" if by_name else "without testing that a writer's scope is a Module")
                  + ": globals of library modules get line intervals and two of them (or a global and a function local) can share a register",
                  {"guards": [norm(tst) + ("" if p_ else "=False") for tst, p_ in atoms]}, f"{t.path}:{st.lineno} in IC10Register.lifetime")


# ------------------------------------------------------------------ symbolic return paths
def _sub(e, env):
    from ..inline import _clone

    class S_(ast.NodeTransformer):
        def visit_Name(self, n):
            if isinstance(n.ctx, ast.Load) and n.id in env:
                return _clone(env[n.id])
            return n
    return S_().visit(_clone(e))


def return_paths(fn, max_paths=64):
    """[(conds, value)] for every syntactic path of *fn* to a return: conds is a list of (expr, polarity) with local
    names replaced by their defining expressions, value the returned expression (None for a bare return / falling
    off the end).  if/elif/else, early returns and conditional expressions are all normalised to paths.  Loops, try and
    with blocks are not entered: names they assign become unknown."""
    out = []

    def split_value(conds, v):
        if isinstance(v, ast.IfExp):
            split_value(conds + [(v.test, True)], v.body)
            split_value(conds + [(v.test, False)], v.orelse)
        else:
            out.append((conds, v))

    def walk(stmts, env, conds):
        for i, st in enumerate(stmts):
            if len(out) > max_paths:
                raise AnalysisError(f"{fn.name}: too many paths")
            if isinstance(st, ast.Return):
                split_value(conds, _sub(st.value, env) if st.value is not None else None)
                return
            if isinstance(st, ast.Raise):
                return
            if isinstance(st, ast.If):
                test = _sub(st.test, env)
                rest = stmts[i + 1:]
                walk(list(st.body) + rest, dict(env), conds + [(test, True)])
                walk(list(st.orelse) + rest, dict(env), conds + [(test, False)])
                return
            if isinstance(st, ast.Assign) and len(st.targets) == 1 and isinstance(st.targets[0], ast.Name):
                env[st.targets[0].id] = _sub(st.value, env)
            elif isinstance(st, ast.AnnAssign) and isinstance(st.target, ast.Name) and st.value is not None:
                env[st.target.id] = _sub(st.value, env)
            elif isinstance(st, ast.AugAssign) and isinstance(st.target, ast.Name):
                cur = env.get(st.target.id, ast.Name(id=st.target.id, ctx=ast.Load()))
                env[st.target.id] = ast.BinOp(left=cur, op=st.op, right=_sub(st.value, env))
            elif isinstance(st, (ast.For, ast.While, ast.Try, ast.With)):
                for n in ast.walk(st):
                    if isinstance(n, ast.Name) and isinstance(n.ctx, ast.Store):
                        env.pop(n.id, None)
                        env[n.id] = ast.Name(id=f"<{n.id} after {type(st).__name__.lower()}>", ctx=ast.Load())
        out.append((conds, None))

    walk(list(fn.body), {}, [])
    return out


def cond_polarity(conds, pred):
    """Evaluate the predicate-recognising function *pred* (expr -> True/False/None meaning 'expr says P holds / does not /
    is unrelated') over a path's conditions: returns True / False / None (unconstrained)."""
    val = None
    for e, pol in conds:
        for t, p in decompose(e, pol):
            r = pred(t)
            if r is None:
                continue
            v = r if p else (not r)
            if val is not None and v != val:
                return "infeasible"
            val = v
    return val


# ------------------------------------------------------------------ what CompilerPassGatherCode.run puts into the program
class Emission:
    """One statement of GatherCode.run that adds instruction lines to self.code."""
    def __init__(self, stmt, conds, sources, order, region=None):
        self.stmt, self.conds, self.sources, self.order = stmt, conds, sources, order
        self.region = region      # "main" when the statement emits exactly the entry under the key ''

    def guard_text(self):
        return [norm(t) + ("" if p else " is False") for t, p in self.conds]


def gather_model(repo: Repo):
    """[Emission] of generate_code.CompilerPassGatherCode.run: for every statement that appends/extends/assigns self.code the
    conditions under which a region's lines get there (enclosing tests, early 'continue's, filters of the comprehensions the
    regions are drawn from; locals replaced by their definitions) and the outermost iteration source that fixes the order."""
    from .c15 import symbolic_path, _subst
    g = repo.mod("generate_code")
    fn = g.func("CompilerPassGatherCode.run")
    out = []
    _MAIN_NAMES.clear()
    _KEY_NAMES.clear()
    # the loop variables that hold a key of the table of functions ('' is the main region): "if not key" asks for the main region
    for lp in ast.walk(fn):
        gens = [(lp.target, lp.iter)] if isinstance(lp, ast.For) else [(g_.target, g_.iter) for g_ in getattr(lp, "generators", [])] if isinstance(
            lp, (ast.ListComp, ast.SetComp, ast.GeneratorExp, ast.DictComp)) else []
        for tg, it in gens:
            txt = norm(it)
            if "functions" not in txt:
                continue
            if ".items()" in txt and isinstance(tg, ast.Tuple) and len(tg.elts) == 2 and isinstance(tg.elts[0], ast.Name):
                _KEY_NAMES.add(tg.elts[0].id)
            elif ".items()" not in txt and ".values()" not in txt and isinstance(tg, ast.Name):
                _KEY_NAMES.add(tg.id)
    # every binding of such a name is a loop / comprehension target (alone or first of a pair): it is never given another kind of value
    loop_targets = set()
    for lp in ast.walk(fn):
        tgs = [lp.target] if isinstance(lp, ast.For) else [g_.target for g_ in getattr(lp, "generators", [])] if isinstance(
            lp, (ast.ListComp, ast.SetComp, ast.GeneratorExp, ast.DictComp)) else []
        for tg in tgs:
            first = tg.elts[0] if isinstance(tg, ast.Tuple) and tg.elts else tg
            if isinstance(first, ast.Name):
                loop_targets.add(id(first))
    _KEY_NAMES.difference_update({n for n in _KEY_NAMES if any(isinstance(x, ast.Name) and isinstance(x.ctx, ast.Store) and x.id == n and id(x) not in loop_targets
                                                             for x in ast.walk(fn))})
    for st in ast.walk(fn):
        if isinstance(st, ast.Assign):
            names = [t.id for t in st.targets if isinstance(t, ast.Name)]
            others = [t for t in st.targets if not isinstance(t, ast.Name)] + [st.value]
            if names and any(_is_main_entry(x) for x in others):
                stores = {n.id for n in ast.walk(fn) if isinstance(n, ast.Name) and isinstance(n.ctx, ast.Store)}
                _MAIN_NAMES.update(n for n in names if sum(1 for x in ast.walk(fn) if isinstance(x, ast.Name) and isinstance(x.ctx, ast.Store) and x.id == n) == 1)
    for st in ast.walk(fn):
        src = None
        if isinstance(st, ast.Expr) and isinstance(st.value, ast.Call) and isinstance(st.value.func, ast.Attribute) and st.value.func.attr in ("append", "extend", "insert") \
                and norm(st.value.func.value) == "self.code" and st.value.args:
            src = st.value.args[-1]
        elif isinstance(st, ast.AugAssign) and norm(st.target) == "self.code":
            src = st.value
        elif isinstance(st, ast.Assign) and any(norm(t) == "self.code" for t in st.targets) and not (isinstance(st.value, (ast.List, ast.Tuple)) and not st.value.elts):
            src = st.value
        if src is None:
            continue
        env, conds = symbolic_path(fn, st)
        conds = list(conds)
        sources = []
        # enclosing loops, outermost first
        chain = []
        p = getattr(st, "parent", None)
        while p is not None and p is not fn:
            if isinstance(p, ast.For):
                chain.append(p)
            p = getattr(p, "parent", None)
        pending = [_subst(lp.iter, env) for lp in reversed(chain)]
        s2 = _subst(src, env)
        if isinstance(s2, (ast.ListComp, ast.GeneratorExp)):
            pending.append(s2)
        elif isinstance(s2, ast.Call) and norm(s2.func) in ("list", "tuple") and len(s2.args) == 1 and isinstance(s2.args[0], (ast.ListComp, ast.GeneratorExp)):
            pending.append(s2.args[0])
        for conds_k, sources_k, region_k in _expand_sources(pending, list(conds)):
            out.append(_finish_emission(st, conds_k, sources_k, s2, region_k))
    return fn, out


def _expand_sources(pending, conds, depth=0):
    """[(conds, sources, forced region)]: comprehensions contribute their filters and iterables; a display of regions
    (main, *called) / [main] + called  yields one alternative per element, each with its own conditions."""
    if depth > 12:
        raise AnalysisError("GatherCode.run: iteration sources nest too deeply")
    pending = list(pending)
    sources = []
    while pending:
        it = pending.pop(0)
        if isinstance(it, (ast.ListComp, ast.GeneratorExp)):
            for gen in it.generators:
                for c in gen.ifs:
                    conds.append((c, True))
            pending = [gen.iter for gen in it.generators] + pending
            continue
        parts = None
        if isinstance(it, (ast.Tuple, ast.List)) and it.elts:
            parts = list(it.elts)
        elif isinstance(it, ast.BinOp) and isinstance(it.op, ast.Add) and isinstance(it.left, (ast.List, ast.Tuple)) and it.left.elts:
            parts = list(it.left.elts) + [ast.Starred(value=it.right, ctx=ast.Load())]
        if parts is not None:
            alts = []
            for el in parts:
                if isinstance(el, ast.Starred):
                    for c2, s2_, r2 in _expand_sources([el.value] + pending, list(conds), depth + 1):
                        alts.append((c2, sources + s2_, r2))
                else:
                    if not _is_main_entry(el):
                        raise AnalysisError(f"GatherCode.run: the single region {norm(el)[:40]} in a display of regions is not the main entry")
                    for c2, s2_, r2 in _expand_sources(pending, list(conds), depth + 1):
                        alts.append((c2, sources + s2_, "main"))
            return alts
        sources.append(it)
    return [(conds, sources, None)]


_MAIN_NAMES = set()
_KEY_NAMES = set()


def _is_main_entry(e):
    """functions['']  or the object made for it (FunctionData(None, None)), or a local of run() bound to it"""
    if isinstance(e, ast.Name) and e.id in _MAIN_NAMES:
        return True
    if isinstance(e, ast.Subscript) and isinstance(e.slice, ast.Constant) and e.slice.value == "" and "functions" in norm(e.value):
        return True
    if isinstance(e, ast.Call) and norm(e.func).split(".")[-1] == "FunctionData" and e.args and isinstance(e.args[0], ast.Constant) and e.args[0].value is None:
        return True
    return False


def _finish_emission(st, conds, sources, s2, forced_region):
    if True:
        order = None
        for it in sources:
            calls = [c for c in ast.walk(it) if isinstance(c, ast.Call) and norm(c.func) == "sorted"]
            if calls:
                order = calls[0]
                break
        region = None
        for a in ast.walk(s2):
            if isinstance(a, ast.Subscript) and isinstance(a.slice, ast.Constant) and a.slice.value == "" and "functions" in norm(a.value):
                region = "main"
        if region == "main" and (sources or order is not None):
            region = None       # inside a loop: judged by its conditions
        if forced_region is not None:
            region = forced_region
            order = None
        return Emission(st, conds, sources, order, region)


def _main_atom(e):
    """key == ''  /  <f>.node is None   ->  +1;  the negated spellings -> -1; else 0"""
    if isinstance(e, ast.Name) and e.id in _KEY_NAMES:
        return -1       # a key that is true, i.e. not '': not the main region
    if isinstance(e, ast.Compare) and len(e.ops) == 1:
        l, r = e.left, e.comparators[0]
        if any(isinstance(x, ast.Constant) and x.value == "" for x in (l, r)) and isinstance(e.ops[0], (ast.Eq, ast.NotEq)):
            return 1 if isinstance(e.ops[0], ast.Eq) else -1
        if isinstance(r, ast.Constant) and r.value is None and isinstance(l, ast.Attribute) and l.attr == "node" and isinstance(e.ops[0], (ast.Is, ast.IsNot, ast.Eq, ast.NotEq)):
            return 1 if isinstance(e.ops[0], (ast.Is, ast.Eq)) else -1
        # <f> is the main entry itself
        if (_is_main_entry(l) or _is_main_entry(r)) and isinstance(e.ops[0], (ast.Is, ast.IsNot, ast.Eq, ast.NotEq)):
            return 1 if isinstance(e.ops[0], (ast.Is, ast.Eq)) else -1
    return 0


def region_formula(e):
    """Boolean formula over the atoms M (main region), C (is_called), X (is_constexpr) and free atoms (other tests)."""
    if isinstance(e, ast.BoolOp):
        return ("and" if isinstance(e.op, ast.And) else "or", [region_formula(v) for v in e.values])
    if isinstance(e, ast.UnaryOp) and isinstance(e.op, ast.Not):
        return ("not", region_formula(e.operand))
    if isinstance(e, ast.Constant):
        return ("const", bool(e.value))
    m = _main_atom(e)
    if m:
        return ("atom", "M") if m > 0 else ("not", ("atom", "M"))
    if isinstance(e, ast.Attribute) and e.attr == "is_called":
        return ("atom", "C")
    if isinstance(e, ast.Attribute) and e.attr == "is_constexpr":
        return ("atom", "X")
    return ("atom", "?" + norm(e))


def _fatoms(f, acc):
    if f[0] == "atom":
        acc.add(f[1])
    elif f[0] == "not":
        _fatoms(f[1], acc)
    elif f[0] in ("and", "or"):
        for x in f[1]:
            _fatoms(x, acc)
    return acc


def _feval(f, a):
    if f[0] == "atom":
        return a[f[1]]
    if f[0] == "const":
        return f[1]
    if f[0] == "not":
        return not _feval(f[1], a)
    if f[0] == "and":
        return all(_feval(x, a) for x in f[1])
    return any(_feval(x, a) for x in f[1])


def emission_table(em: Emission):
    """(rows, free): rows = [(assignment dict, emitted?)] over all feasible truth assignments of M, C, X and the free atoms
    (feasible: the main region always counts as called, FunctionData.is_called)."""
    import itertools
    fs = [region_formula(t) if p else ("not", region_formula(t)) for t, p in em.conds]
    atoms = set(["M", "C", "X"])
    for f in fs:
        _fatoms(f, atoms)
    free = sorted(a for a in atoms if a.startswith("?"))
    if len(free) > 6:
        raise AnalysisError("GatherCode.run: too many unrecognised tests around the emission of a region")
    names = ["M", "C", "X"] + free
    rows = []
    for vals in itertools.product([False, True], repeat=len(names)):
        a = dict(zip(names, vals))
        if a["M"] and not a["C"]:
            continue
        if em.region == "main" and (not a["M"] or a["X"]):
            continue        # this statement emits the main entry and nothing else (run() has just made it: FunctionData(None, None), is_constexpr False)
        rows.append((a, all(_feval(f, a) for f in fs)))
    return rows, free


# ------------------------------------------------------------------ pass-level stacks (push ... pop around a body)
def rule_stack_balance(repo: Repo, chk: Check, rule: str, modules=("generate_code", "compile_pass")):
    """self.<attr>.append(x) on an attribute that the same module also pops (a stack kept by a pass while it compiles a
    construct) is followed by self.<attr>.pop() on every path to a normal return of the function: an entry left behind
    makes every later consumer of <attr>[-1] see the wrong construct (the loop of a break/continue, the current function)."""
    n = 0
    for mn in modules:
        if not repo.has_mod(mn):
            continue
        m = repo.mod(mn)
        popped = {norm(c.func.value) for c in ast.walk(m.tree) if isinstance(c, ast.Call) and isinstance(c.func, ast.Attribute) and c.func.attr == "pop" and not c.args
                  and isinstance(c.func.value, ast.Attribute) and isinstance(c.func.value.value, ast.Name) and c.func.value.value.id == "self"}
        if not popped:
            continue
        for q, fn in m.funcs.items():
            pushes = [c for c in ast.walk(fn) if isinstance(c, ast.Call) and isinstance(c.func, ast.Attribute) and c.func.attr == "append" and norm(c.func.value) in popped
                      and enclosing_def(c) is fn]
            if not pushes:
                continue
            cfg, rd = fn_ctx(fn)
            for c in pushes:
                stack = norm(c.func.value)
                n += 1
                ids = live_ids(cfg, c)
                if not ids:
                    continue
                pops = {i for x in ast.walk(fn) if isinstance(x, ast.Call) and isinstance(x.func, ast.Attribute) and x.func.attr == "pop" and not x.args and norm(x.func.value) == stack
                        for i in live_ids(cfg, x)}
                # follow normal control flow only (an exception aborts the compilation)
                seen, work, leak = set(), [b for b, lab in cfg.succ[ids[0]] if not (isinstance(lab, tuple) and lab[0] == "exc")], None
                prev = {}
                while work:
                    a = work.pop()
                    if a in seen or a in pops:
                        continue
                    seen.add(a)
                    if a == cfg.exit.id:
                        leak = a
                        break
                    for b, lab in cfg.succ[a]:
                        if isinstance(lab, tuple) and lab[0] == "exc":
                            continue
                        prev.setdefault(b, a)
                        work.append(b)
                via = None
                if leak is not None:
                    a = leak
                    while a in prev and cfg.nodes[a].kind != "return":
                        a = prev[a]
                    via = getattr(cfg.nodes[a].ast, "lineno", None) if cfg.nodes[a].ast is not None else None
                chk.judge(rule, f"{mn}:{q}:{stack}.append(..) is popped on every path", leak is None,
                          f"{stack}.append({norm(c.args[0]) if c.args else ''}) at line {c.lineno} reaches the end of {q} without {stack}.pop()"
                          + (f" (through the return at line {via})" if via else "") + f": the entry stays on the stack and every later reader of {stack}[-1] "
                          f"sees this construct instead of its own", {"stack": stack}, f"{m.path}:{c.lineno} in {q}")
    if n == 0:
        chk.ok(rule, "package:no pass-level stack is pushed in a handler", None, vacuous=True)


def register_roles(ra_mod):
    """The locals of the register allocator by what they do, not by what they are called:
       mapping    assign_registers: the table that gets  T[<symbol>.code_expr] = f"r{n}"
       free pool  assign_colors:    the list a colour is taken from with  <sym>._color = F.pop()
       active     assign_colors:    the list that receives  (<end>, <sym>._color)"""
    roles = {}
    af = ra_mod.func("assign_registers")
    for st in ast.walk(af):
        if isinstance(st, ast.Assign) and isinstance(st.value, ast.JoinedStr) and st.value.values and isinstance(st.value.values[0], ast.Constant) \
                and st.value.values[0].value == "r":
            for t in st.targets:
                if isinstance(t, ast.Subscript) and isinstance(t.value, ast.Name):
                    roles.setdefault("mapping", t.value.id)
    ac = ra_mod.func("assign_colors")
    for st in ast.walk(ac):
        if isinstance(st, ast.Assign) and any(isinstance(t, ast.Attribute) and t.attr == "_color" for t in st.targets) and isinstance(st.value, ast.Call) \
                and isinstance(st.value.func, ast.Attribute) and st.value.func.attr == "pop" and isinstance(st.value.func.value, ast.Name):
            roles.setdefault("free", st.value.func.value.id)
        if isinstance(st, ast.Call) and isinstance(st.func, ast.Attribute) and st.func.attr == "append" and isinstance(st.func.value, ast.Name) and st.args \
                and isinstance(st.args[0], ast.Tuple) and len(st.args[0].elts) == 2 and norm(st.args[0].elts[1]).endswith("._color"):
            roles.setdefault("active", st.func.value.id)
    return roles
