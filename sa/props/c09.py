"""C09 — emitted text is loadable IC10 (structural clauses R09.a–d)."""
from __future__ import annotations

import ast
from ..model import Repo, AnalysisError, norm, name_referenced, isinstance_types
from ..report import Check
from ..emit import collect_sites, label_def
from ..consteval import TOP, Pattern, FnEval
from ..tables import helper_rows
from ..isa import ISA, ACCESS_KINDS
from ..linnorm import compare_upper_bound, lin, NotLinear
from ..cfg import CFG, ReachingDefs


def check_isa_sync(repo: Repo, chk: Check, rule="R09.a"):
    names = set(repo.ic10_json().get("instructions", []))
    if not names:
        raise AnalysisError("ic10.json has no instruction list")
    miss = names - set(ISA)
    extra = set(ISA) - names
    chk.judge(rule, "isa-oracle == ic10.json instruction names", not miss and not extra,
              f"instruction name sets differ: only in ic10.json {sorted(miss)}, only in isa oracle {sorted(extra)}",
              {"n": len(names)}, where=str(repo.root / "webapp/src/ic10.json"))


def decompose_test(test):
    from ..cfg import decompose
    return decompose(test, True)


def site_opcode_check(repo, chk, s, rule):
    """Judge one emission site against the ISA oracle."""
    ops = s.opcodes
    key = s.key()
    if ops is TOP:
        return "top"
    judged = 0
    facts = {"opcodes": ops, "n_inputs": s.n_inputs, "output": s.has_output, "section": s.section, "how": s.how}
    any_bad = False
    for v in sorted(ops, key=repr):
        if v is None:
            continue  # constructing the instruction text fails: an error, not output
        bad = []
        if label_def(v):
            judged += 1
            if s.n_inputs not in (0,) or s.has_output:
                bad.append(f"label definition {v!r} with operands")
        elif isinstance(v, Pattern):
            # a spelling with a part that was not evaluated: not judged, and not a pass
            chk.unresolved(rule, f"{key} [opcode {v!r}]", "the opcode has a part that could not be evaluated", s.where())
            continue
        elif not isinstance(v, str):
            bad.append(f"opcode is not a string: {v!r}")
        else:
            judged += 1
            if v not in ISA:
                bad.append(f"opcode {v!r} does not exist in IC10")
            else:
                n_in, out = ISA[v]
                if s.n_inputs is None:
                    # a list that is put together at run time: its length is not decided here, and that is not a finding
                    chk.unresolved(rule, f"{key} [opcode {v!r}]", f"the operand list of {v!r} is not a literal list: the number of operands was not determined", s.where())
                    any_bad = True
                    continue
                elif s.n_inputs != n_in:
                    bad.append(f"{v!r} takes {n_in} input operand(s), site passes {s.n_inputs}")
                if s.has_output != out:
                    bad.append(f"{v!r} {'writes' if out else 'does not write'} a register, site {'has' if s.has_output else 'has no'} output")
        if bad:
            any_bad = True
            chk.bad(rule, f"{s.stable_key()} [opcode {v!r}]", "; ".join(bad), facts, s.where())
    if not any_bad:
        chk.ok(rule, key, facts, vacuous=(judged == 0))
    return "ok"


def run(repo: Repo, chk: Check):
    chk.rule("R09.a", "every emission site and operator-table row names an existing IC10 opcode with the operand "
                      "count and output register the ISA oracle prescribes (oracle name set == ic10.json)", floor=85)
    chk.rule("R09.b", "no Python spelling can be printed: bool is normalised before the int branch of "
                      "IC10Operand.to_string, None cannot reach the str() fall-back, handle_const maps no constant to ''", floor=3)
    chk.rule("R09.c", "the version note is appended only under a linear bound len(line)+len(note) <= 90 and starts with ' #'", floor=1)
    chk.rule("R09.e", "at every device / slot / batch / stack access site the operands have the kinds the instruction takes, in its order "
                      "(device or prefab hash, name hash, slot index, logic/slot type, batch mode, address, value)", floor=14)
    chk.rule("R09.d", "every float format in IC10Operand.to_string carries >= 16 significant digits", floor=2)

    check_isa_sync(repo, chk)
    sites = [s for s in collect_sites(repo) if s.mod.name != "intrinsics"]
    n_top = 0
    for s in sites:
        chk.saw(s.mod.name, s.qual)
        unreachable = s.fn is not None and not name_referenced(repo, s.fn.name)
        if unreachable:
            chk.ok("R09.a", s.key() + " [unreferenced function: listed, not judged]", {"opcodes": s.opcodes}, vacuous=True)
            continue
        if site_opcode_check(repo, chk, s, "R09.a") == "top":
            n_top += 1
            declared = s.mod.name == "compile_pass" and s.qual.endswith("handle_call")
            if declared:
                chk.ok("R09.a", s.key() + " [declared TOP: user text of @emit_code]", None, vacuous=True)
                chk.assume("lines returned by a user's @emit_code function are emitted verbatim (compile_pass.handle_call): their syntax is the user's responsibility")
            else:
                chk.unresolved("R09.a", s.key(), "opcode of this emission site cannot be resolved to a finite set", s.where())
    # intrinsic wrappers: opcode exists and token count fits (exact signature is R16.d)
    for s in collect_sites(repo, ["intrinsics"]):
        ops = s.opcodes
        if s.qual.startswith("_") and ops is TOP:
            continue    # a private helper with the opcode as parameter: judged in the wrappers it is expanded into
        ok = ops is not TOP and all(isinstance(v, str) and v in ISA for v in ops)
        msg = ""
        if ok:
            (v,) = tuple(ops)[:1] if len(ops) == 1 else (None,)
            if v is None:
                ok, msg = False, "more than one opcode"
            else:
                n_in, out = ISA[v]
                tok = (s.n_inputs or 0) + (1 if s.has_output else 0)
                if tok != n_in + (1 if out else 0):
                    ok, msg = False, f"{v!r} is written with {n_in + (1 if out else 0)} operand tokens, wrapper emits {tok}"
        else:
            msg = f"opcode {ops!r} does not exist in IC10"
        chk.judge("R09.a", "intrinsic:" + s.qual, ok, msg, {"opcodes": ops, "n_inputs": s.n_inputs, "output": s.has_output}, s.where())

    # operator tables
    for fname, arity in (("get_binop_instruction", 2), ("get_unop_instruction", 1)):
        rows, how, default = helper_rows(repo, "utils", fname)
        chk.saw("utils", fname)
        for r in rows:
            vs = r.values
            ops = set()
            if vs is not TOP:
                for v in vs:
                    if isinstance(v, tuple) and v:
                        ops.add(v[0])
            key = f"utils:{fname}:row {r.key!r} -> {sorted(ops, key=repr)}"
            if not ops or any(isinstance(op, Pattern) for op in ops):
                chk.unresolved("R09.a", key, "row opcode could not be evaluated", f"{repo.mod('utils').path}:{r.node.lineno}")
                continue
            bad = []
            for op in ops:
                if op not in ISA:
                    bad.append(f"opcode {op!r} does not exist in IC10")
                elif not ISA[op][1]:
                    bad.append(f"{op!r} writes no register")
                elif ISA[op][0] != arity and not (arity == 1 and op == "sub"):
                    bad.append(f"{op!r} takes {ISA[op][0]} inputs, operator has {arity}")
            chk.judge("R09.a", key, not bad, "; ".join(bad), {"opcodes": ops}, f"{repo.mod('utils').path}:{r.node.lineno}")

    r09b(repo, chk)
    r09c(repo, chk)
    r09d(repo, chk)
    chk.guarded(r09e, repo, chk, "R09.e")
    chk.rule("R09.f", "the register numbers chosen by assign_registers are written into every register object that occurs in the emitted "
                      "instructions (the set collected from the instruction list), not only into the objects stored in the symbol table: "
                      "otherwise a virtual name '__register.N_' is printed as an operand", floor=2)
    chk.guarded(r09f, repo, chk)
    chk.guarded(r09_exact_integral, repo, chk)
    chk.guarded(r09_opcode_is_text, repo, chk)
    chk.guarded(r09a_rewrites, repo, chk)
    chk.guarded(r09a_output_kept, repo, chk)


# ---------------------------------------------------------------------- R09.b
def _if_chain(stmts):
    """Flatten top-level if/elif chains of a body into [(test|None, body)]."""
    out = []
    for st in stmts:
        if isinstance(st, ast.If):
            cur = st
            while True:
                out.append((cur.test, cur.body, cur))
                if len(cur.orelse) == 1 and isinstance(cur.orelse[0], ast.If):
                    cur = cur.orelse[0]
                    continue
                if cur.orelse:
                    out.append((None, cur.orelse, cur))
                break
    return out


def _matches_kind(test, var_texts, kind):
    """Does ``isinstance(<var>, T)`` (possibly inside an `and`) accept a value
    of python type *kind* ('bool' | 'NoneType')?  Returns True/False/None(unknown)."""
    atoms = test.values if isinstance(test, ast.BoolOp) and isinstance(test.op, ast.And) else [test]
    first = atoms[0]
    it = isinstance_types(first)
    if it is None:
        if kind == "NoneType" and isinstance(first, ast.Compare) and len(first.ops) == 1 and norm(first.left) in var_texts \
                and isinstance(first.comparators[0], ast.Constant) and first.comparators[0].value is None:
            return isinstance(first.ops[0], (ast.Is, ast.Eq))
        return None
    var, names = it
    if var not in var_texts:
        return None
    sup = {"bool": {"bool", "int", "object"}, "NoneType": {"NoneType", "object"}}[kind]
    hit = any(n in sup for n in names)
    if hit and len(atoms) > 1:
        return None  # further conditions: unknown
    return hit


def r09b(repo: Repo, chk: Check):
    m = repo.mod("types")
    init = m.func("IC10Operand.__init__")
    tostr = m.func("IC10Operand.to_string")
    chk.saw("types", "IC10Operand.__init__")
    chk.saw("types", "IC10Operand.to_string")
    where_i = f"{m.path}:{init.lineno} in IC10Operand.__init__"
    where_t = f"{m.path}:{tostr.lineno} in IC10Operand.to_string"
    param = init.args.args[1].arg if len(init.args.args) > 1 else "value"

    def init_outcome(kind):
        """'int' (normalised), 'raise', or kind (unchanged)."""
        for test, body, node in _if_chain(init.body):
            if test is None:
                continue
            mt = _matches_kind(test, {param}, kind)
            if mt is None:
                continue
            if mt:
                for st in body:
                    if isinstance(st, ast.Raise):
                        return "raise"
                    if isinstance(st, ast.Assign) and any(isinstance(t, ast.Name) and t.id == param for t in st.targets):
                        v = st.value
                        if isinstance(v, ast.Call) and isinstance(v.func, ast.Name) and v.func.id in ("int", "float") and v.args and norm(v.args[0]) == param:
                            return "int"
                        if isinstance(v, ast.Constant) and isinstance(v.value, (int, float, str)) and not isinstance(v.value, bool) and v.value != "":
                            return "const"
                        return "other"
                return kind
        return kind

    def tostring_outcome(kind):
        """Which branch of to_string a value of *kind* takes."""
        for test, body, node in _if_chain(tostr.body):
            if test is None:
                return "else", body
            mt = _matches_kind(test, {"self.value"}, kind)
            if mt:
                return norm(test), body
        return "fallback", [st for st in tostr.body if isinstance(st, ast.Return)]

    for kind, spell in (("bool", "True/False"), ("NoneType", "None")):
        oc = init_outcome(kind)
        key = f"types:IC10Operand:{kind}"
        if oc in ("int", "raise", "const"):
            chk.ok("R09.b", key, {"__init__": oc})
            continue
        branch, body = tostring_outcome(kind)
        # a branch is safe if it returns a numeric/explicit spelling not derived from str(value)/format_int(value)
        rets = [r for st in body for r in ast.walk(st) if isinstance(r, ast.Return)]
        unsafe = False
        for r in rets:
            t = norm(r.value) if r.value is not None else ""
            if "str(self.value)" in t or "format_int(self.value)" in t or t == "self.value":
                unsafe = True
        if kind == "bool" and branch != "fallback" and "bool" in branch and not unsafe:
            chk.ok("R09.b", key, {"to_string": branch})
            continue
        chk.judge("R09.b", key, not unsafe and bool(rets),
                  f"a {kind} operand is not normalised by IC10Operand.__init__ and reaches to_string branch "
                  f"[{branch}] which prints Python's spelling {spell}", {"__init__": oc, "to_string_branch": branch}, where_t)

    # handle_const: no constant becomes the empty string / None spelling
    g = repo.mod("generate_code")
    hc = g.func("CompilerPassGenerateCode.handle_const")
    chk.saw("generate_code", "CompilerPassGenerateCode.handle_const")
    arms = _if_chain(hc.body)
    if not arms:
        raise AnalysisError("handle_const: if/elif chain on the constant's type not found")
    for test, body, node in arms:
        label = norm(test) if test is not None else "else"
        empties = []
        for st in body:
            for a in ast.walk(st):
                if isinstance(a, ast.Assign) and isinstance(a.value, ast.Constant) and a.value.value in ("", None):
                    empties.append(norm(a))
        chk.judge("R09.b", f"generate_code:handle_const:arm {label}", not empties,
                  f"constant of this kind is compiled to an empty operand: {empties}", {"arm": label},
                  f"{g.path}:{body[0].lineno} in handle_const")


# ---------------------------------------------------------------------- R09.c
def r09c(repo: Repo, chk: Check):
    g = repo.mod("generate_code")
    fn = g.anchor("CompilerPassGatherCode.get_code")
    chk.saw("generate_code", "CompilerPassGatherCode.get_code")
    cfg = CFG(fn)
    rd = ReachingDefs(cfg)
    # the note variable: an f-string/str containing "Generated by"
    note_names = set()
    for d in rd.all_defs:
        if d.kind == "assign" and d.value is not None and "Generated by" in norm(d.value):
            note_names.add(d.name)
            v = d.value
            txt = None
            if isinstance(v, ast.JoinedStr) and v.values and isinstance(v.values[0], ast.Constant):
                txt = v.values[0].value
            elif isinstance(v, ast.Constant):
                txt = v.value
            chk.judge("R09.c", "generate_code:get_code:note starts with ' #'", isinstance(txt, str) and txt.startswith(" #"),
                      f"version note {norm(v)} does not start with ' #': it would be parsed as operands", {"note": norm(v)},
                      f"{g.path}:{v.lineno}")
    if not note_names:
        raise AnalysisError("get_code: version note definition not found")
    appends = []
    for n in cfg.nodes:
        st = n.ast
        if n.kind == "stmt" and isinstance(st, ast.AugAssign) and isinstance(st.op, ast.Add) and isinstance(st.value, ast.Name) and st.value.id in note_names:
            appends.append((n, st.target, st.value))
        elif n.kind == "stmt" and isinstance(st, ast.Assign) and isinstance(st.value, ast.BinOp) and isinstance(st.value.op, ast.Add) \
                and isinstance(st.value.right, ast.Name) and st.value.right.id in note_names:
            appends.append((n, st.value.left, st.value.right))
    if not appends:
        raise AnalysisError("get_code: statement appending the version note not found")

    for n, target, note in appends:
        def resolve(nm, _nid=n.id):
            ds = rd.at(_nid, nm.id)
            if len(ds) == 1 and ds[0].kind == "assign" and not ds[0].index:
                return ds[0].value
            return None
        from ..inline import _clone
        # the index through a local copy ('target = i'), and 'for i, ln in enumerate(lines)': ln is lines[i]
        if isinstance(target, ast.Subscript) and isinstance(target.slice, ast.Name):
            r_ = resolve(target.slice)
            if isinstance(r_, ast.Name):
                target = ast.Subscript(value=target.value, slice=r_, ctx=ast.Load())
        elem = {}
        p_ = n.ast
        while p_ is not None and p_ is not fn:
            if isinstance(p_, ast.For) and isinstance(p_.iter, ast.Call) and norm(p_.iter.func) == "enumerate" and len(p_.iter.args) == 1 \
                    and isinstance(p_.target, ast.Tuple) and len(p_.target.elts) == 2 and all(isinstance(x, ast.Name) for x in p_.target.elts):
                rebinds = [x for x in ast.walk(p_) if isinstance(x, ast.Name) and isinstance(x.ctx, ast.Store) and x.id == p_.target.elts[1].id and x is not p_.target.elts[1]]
                if not rebinds:
                    elem[p_.target.elts[1].id] = ast.Subscript(value=p_.iter.args[0], slice=ast.Name(id=p_.target.elts[0].id, ctx=ast.Load()), ctx=ast.Load())
            p_ = getattr(p_, "parent", None)

        class _Elem(ast.NodeTransformer):
            def visit_Name(self, nm):
                return _clone(elem[nm.id]) if nm.id in elem and isinstance(nm.ctx, ast.Load) else nm
        if elem:
            target = _Elem().visit(_clone(target))
        want = {f"len({norm(target)})": 1, f"len({norm(note)})": 1}
        best = None
        for test, pol in cfg.guards(n.id):
            if not isinstance(test, ast.expr):
                continue
            if elem:
                test = _Elem().visit(_clone(test))
            ub = compare_upper_bound(test, pol, resolve)
            if ub is None:
                continue
            co, bound = ub
            if co == want:
                best = bound if best is None else min(best, bound)
        chk.judge("R09.c", f"generate_code:get_code:append {norm(target)} += {norm(note)}", best is not None and best <= 90,
                  f"appending the version note is not dominated by len(line)+len(note) <= 90 (bound found: {best})",
                  {"bound": best}, f"{g.path}:{n.ast.lineno} in get_code")


# ---------------------------------------------------------------------- R09.d
def r09d(repo: Repo, chk: Check):
    import string as _string
    m = repo.mod("types")
    fn = m.func("IC10Operand.to_string")
    cfg = CFG(fn)
    rd = ReachingDefs(cfg)
    found = 0

    def judge_prec(key, prec_desc, ok, where):
        chk.judge("R09.d", key, ok, f"float format carries fewer than 16 significant digits ({prec_desc})", {"precision": prec_desc}, where)

    def judge_computed(h, node):
        """precision given by an expression: accepted is C +/- int(log10(|v|)) with C >= 16 under the guard |v| < 1"""
        ids = [n.id for n in cfg.nodes_of(node)]
        expr = h
        if isinstance(h, ast.Name) and ids:
            ds = rd.at(ids[0], h.id)
            if len(ds) == 1 and ds[0].kind == "assign":
                expr = ds[0].value
                ids = [ds[0].node]
        ok = False
        desc = norm(expr)
        if isinstance(expr, ast.BinOp) and isinstance(expr.op, (ast.Add, ast.Sub)):
            left, right = expr.left, expr.right
            neg_log = None
            const = None
            if isinstance(expr.op, ast.Sub) and isinstance(left, ast.Constant) and isinstance(left.value, int):
                const, neg_log = left.value, right          # C - int(log10(..))
            elif isinstance(expr.op, ast.Add):
                for c_, o in ((left, right), (right, left)):
                    if isinstance(c_, ast.Constant) and isinstance(c_.value, int) and isinstance(o, ast.UnaryOp) and isinstance(o.op, ast.USub):
                        const, neg_log = c_.value, o.operand   # C + -int(log10(..))
            if const is not None and const >= 16 and "log10" in norm(neg_log) and norm(neg_log).startswith("int("):
                # guard: some atom  X >= c  is False with c <= 1  (value below 1 => log10 < 0)
                for test, pol in cfg.guards(ids[0]) if ids else []:
                    if isinstance(test, ast.Compare) and len(test.ops) == 1 and isinstance(test.ops[0], (ast.GtE, ast.Gt)) and not pol \
                            and isinstance(test.comparators[0], ast.Constant) and isinstance(test.comparators[0].value, (int, float)) \
                            and test.comparators[0].value <= 1:
                        ok = True
        elif isinstance(expr, ast.Constant) and isinstance(expr.value, int):
            ok = expr.value >= 16 + 1
        judge_prec("types:to_string:computed precision", desc, ok, f"{m.path}:{node.lineno}")

    for node in ast.walk(fn):
        # f"{x:.Ng}"
        if isinstance(node, ast.FormattedValue) and node.format_spec is not None:
            spec = node.format_spec
            if all(isinstance(v, ast.Constant) for v in spec.values):
                txt = "".join(v.value for v in spec.values)
                if txt.startswith(".") and txt[-1] in "gfe" and txt[1:-1].isdigit():
                    found += 1
                    p = int(txt[1:-1])
                    if txt[-1] == "f":
                        # p decimals give p - (leading zeros) significant digits: needs a lower bound on |value| on every path to here
                        import math as _m
                        lead = None
                        for nid_ in [n.id for n in cfg.nodes_of(node)]:
                            for test, pol in cfg.guards(nid_):
                                if isinstance(test, ast.Compare) and len(test.ops) == 1 and isinstance(test.comparators[0], ast.Constant) \
                                        and isinstance(test.comparators[0].value, (int, float)) and test.comparators[0].value > 0:
                                    c_ = test.comparators[0].value
                                    if isinstance(test.ops[0], (ast.GtE, ast.Gt)) and pol or isinstance(test.ops[0], (ast.Lt, ast.LtE)) and not pol:
                                        z = max(0, _m.ceil(-_m.log10(c_)))
                                        lead = z if lead is None else min(lead, z)
                        ok_f = lead is not None and p - lead >= 16
                        judge_prec(f"types:to_string:format {txt!r}", f"{txt} with values as small as {'unbounded' if lead is None else '1e-%d' % lead}", ok_f, f"{m.path}:{node.lineno}")
                    else:
                        judge_prec(f"types:to_string:format {txt!r}", txt, p >= 16, f"{m.path}:{node.lineno}")
                else:
                    raise AnalysisError(f"to_string: float format {txt!r} not recognised")
            elif len(spec.values) == 3 and isinstance(spec.values[0], ast.Constant) and spec.values[0].value == "." and isinstance(spec.values[1], ast.FormattedValue) \
                    and isinstance(spec.values[2], ast.Constant) and spec.values[2].value == "f":
                # f"{x:.{ndigits}f}"
                found += 1
                judge_computed(spec.values[1].value, node)
            else:
                raise AnalysisError(f"to_string: float format {norm(spec)} not recognised")
        # format_str = f"{{value:.{ndigits}f}}"
        if isinstance(node, ast.JoinedStr):
            consts = "".join(v.value for v in node.values if isinstance(v, ast.Constant))
            holes = [v for v in node.values if isinstance(v, ast.FormattedValue)]
            if "{" in consts and ":." in consts and holes and consts.rstrip("}").endswith("f"):
                found += 1
                judge_computed(holes[0].value, node)
    if found < 2:
        raise AnalysisError(f"to_string: expected two float formats, recognised {found}")
    # whole numbers leave IC10Operand.__init__ as int, of any size: the 16-digit format of to_string switches to exponent notation ('1e+16') from 1e16 on,
    # which IC10 does not read; what reaches it must therefore be a fraction (and every double from 2**53 on is whole)
    init_f = m.func("IC10Operand.__init__")
    p_ = init_f.args.args[1].arg if len(init_f.args.args) > 1 else "value"
    whole_arms = []
    for test, body, node in _if_chain(init_f.body):
        if test is None:
            continue
        atoms = [a_ for a_, pol_ in decompose_test(test)]
        if any(isinstance(a_, ast.Call) and norm(a_.func) == "isinstance" and "float" in norm(a_) for a_ in atoms) and any(
                isinstance(st, ast.Assign) and isinstance(st.value, ast.Call) and norm(st.value.func) == "int" for st in body):
            whole_arms.append((test, atoms))
    if not whole_arms:
        chk.unresolved("R09.d", "types:IC10Operand.__init__:whole floats become int whatever their size", "the arm that turns a whole float into an int was not found",
                       f"{m.path}:{init_f.lineno} in IC10Operand.__init__")
    for test, atoms in whole_arms:
        extra = [norm(a_) for a_ in atoms if not (isinstance(a_, ast.Call) and norm(a_.func) == "isinstance")
                 and norm(a_) not in (f"int({p_}) == {p_}", f"{p_} == int({p_})", f"{p_}.is_integer()", f"{p_} % 1 == 0", f"math.floor({p_}) == {p_}", f"{p_} == math.floor({p_})")]
        chk.judge("R09.d", "types:IC10Operand.__init__:whole floats become int whatever their size", not extra,
                  f"a whole float becomes an int only if also {extra}: the others reach the 16-digit format of to_string, which prints 1e+16, 2.5e+20 for them - "
                  f"exponent notation is not an IC10 number", {"test": norm(test)}, f"{m.path}:{init_f.lineno} in IC10Operand.__init__")
    # a register object may carry a literal instead of a register name (a variable that stands for a constant): the float among
    # them must not be returned as it is (Python would print 1e-05)
    from .shared import return_paths
    n_reg = 0
    for conds, v in return_paths(fn):
        if v is None or not (isinstance(v, ast.Attribute) and v.attr == "code_expr"):
            continue
        n_reg += 1
        ruled_out = False
        from ..cfg import decompose
        for t, pol in [a_ for t0, p0 in conds for a_ in decompose(t0, p0)]:
            if not pol and isinstance(t, ast.Call) and norm(t.func) == "isinstance" and len(t.args) == 2 and norm(t.args[0]) == norm(v):
                kinds = norm(t.args[1])
                if "float" in kinds or "Number" in kinds or "Real" in kinds:
                    ruled_out = True
            if pol and isinstance(t, ast.Call) and norm(t.func) == "isinstance" and len(t.args) == 2 and norm(t.args[0]) == norm(v) and norm(t.args[1]) == "str":
                ruled_out = True
        # ... and neither a truth value (a constant name that holds True / False, handed to an inlined function, becomes the parameter's "register")
        bool_out = False
        for t, pol in [a_ for t0, p0 in conds for a_ in decompose(t0, p0)]:
            if isinstance(t, ast.Call) and norm(t.func) == "isinstance" and len(t.args) == 2 and norm(t.args[0]) == norm(v):
                kinds = norm(t.args[1])
                if not pol and ("bool" in kinds or "int" in kinds or "Number" in kinds or "Integral" in kinds):
                    bool_out = True
                if pol and kinds == "str":
                    bool_out = True
        chk.judge("R09.d", "types:to_string:a truth value carried by a register object is spelled as a number", bool_out,
                  f"IC10Operand.to_string returns {norm(v)} unchanged also when it is True / False (a constant name handed to an inlined function stands for the parameter): "
                  f"the instruction text then reads 's db Setting True'", None, f"{m.path}:{fn.lineno} in IC10Operand.to_string")
        chk.judge("R09.d", "types:to_string:a float carried by a register object is formatted, not returned as it is", ruled_out,
                  f"IC10Operand.to_string returns {norm(v)} unchanged also when it is a float (a variable or an inlined parameter that stands for a float literal): "
                  f"the instruction text then contains Python's repr, e.g. 'mul r0 1e-05 2'", None, f"{m.path}:{fn.lineno} in IC10Operand.to_string")
    if n_reg == 0:
        raise AnalysisError("to_string: the branch that prints a register's code_expr was not found")


# ---------------------------------------------------------------------- R09.e
def operand_kind(e, fn):
    """Kind of an operand expression at an access site, from what it names."""
    t = norm(e)
    if isinstance(e, ast.Constant):
        if e.value == "db":
            return "device"
        if isinstance(e.value, (int, float)):
            return "number"
        return "const"
    if isinstance(e, ast.BoolOp) and isinstance(e.op, ast.Or):
        ks = {operand_kind(v, fn) for v in e.values}
        return ks.pop() if len(ks) == 1 else "?"
    last = t.split(".")[-1]
    table = {"_id": "device", "Id": "device", "_device_hash": "deviceHash", "_prefab_hash": "deviceHash", "_name_hash": "nameHash",
             "_logic_type": "logicType", "_slot_type": "slotType", "_slot_index": "slotIndex", "batch_mode": "batchMode", "_batch_mode": "batchMode",
             "_addr": "address", "value": "value"}
    if last in table:
        return table[last]
    params = [a.arg for a in fn.args.args] if fn is not None else []
    if isinstance(e, ast.Name) and e.id in params:
        return {"value": "value", "batch_mode": "batchMode", "index": "address", "addr": "address"}.get(e.id, "param:" + e.id)
    return "?"


def r09e(repo: Repo, chk: Check, R="R09.e"):
    n = 0
    for s in collect_sites(repo, ["types", "generate_code"]):
        ops = s.opcodes
        if ops is TOP or len(ops) != 1:
            continue
        op = next(iter(ops))
        if op not in ACCESS_KINDS or s.n_inputs is None:
            continue
        fn = s.fn
        # the enclosing function for parameter names: lambdas inherit the method's parameters
        kinds = [operand_kind(e, fn) for e in s.input_exprs]
        want = ACCESS_KINDS[op]
        if s.mod.name == "generate_code":
            # calling convention: put db <slot> <value> / get <r> db <slot>: kinds by position, device must be "db"
            ok = len(kinds) == len(want) and kinds[0] == "device"
            detail = kinds
        else:
            ok = kinds == want
            detail = kinds
        n += 1
        chk.saw(s.mod.name, s.qual)
        chk.judge(R, f"{s.mod.name}:{s.qual}:{op} operands", ok,
                  f"'{op}' takes ({', '.join(want)}) after its output register; this site passes ({', '.join(detail)}): {norm(s.call)[:100]}",
                  {"expected": want, "got": detail}, s.where())
    if n < 14:
        raise AnalysisError(f"{R}: only {n} device/slot/batch/stack access sites found")


# ---------------------------------------------------------------------- R09.f
def r09f(repo: Repo, chk: Check, R="R09.f"):
    ra = repo.mod("register_assignment")
    fn = ra.func("assign_registers")
    chk.saw("register_assignment", "assign_registers")
    where = f"{ra.path}:{fn.lineno} in assign_registers"
    params = [a.arg for a in fn.args.args]
    code_param = params[1] if len(params) > 1 else None
    # the set of register objects collected from the instruction list
    collected = set()
    for lp in ast.walk(fn):
        if isinstance(lp, ast.For) and isinstance(lp.iter, ast.Name) and lp.iter.id == code_param:
            for c in ast.walk(lp):
                if isinstance(c, ast.Call) and isinstance(c.func, ast.Attribute) and c.func.attr in ("add", "append", "update") and isinstance(c.func.value, ast.Name):
                    collected.add(c.func.value.id)
    for st in ast.walk(fn):
        if isinstance(st, ast.Assign) and len(st.targets) == 1 and isinstance(st.targets[0], ast.Name) and isinstance(st.value, (ast.SetComp, ast.ListComp, ast.Call)) \
                and any(isinstance(n, ast.Name) and n.id == code_param for n in ast.walk(st.value)) and any(isinstance(g_, ast.comprehension) for g_ in ast.walk(st.value)):
            collected.add(st.targets[0].id)
    if not collected:
        raise AnalysisError("assign_registers: the set of register objects collected from the instruction list was not found")
    # the mapping: name -> 'r<N>'
    maps = {st.targets[0].value.id for st in ast.walk(fn) if isinstance(st, ast.Assign) and len(st.targets) == 1 and isinstance(st.targets[0], ast.Subscript)
            and isinstance(st.targets[0].value, ast.Name) and isinstance(st.value, ast.JoinedStr) and norm(st.value).startswith("f'r{")}
    if not maps:
        raise AnalysisError("assign_registers: the table virtual name -> 'r<N>' was not found")
    chk.ok(R, "register_assignment:assign_registers:register objects are collected from the emitted instructions", {"sets": sorted(collected), "tables": sorted(maps)})
    for u in sorted(collected):
        applied = False
        for lp in ast.walk(fn):
            # (a second walk over the instruction list itself serves as well)
            if isinstance(lp, ast.For) and isinstance(lp.iter, ast.Name) and lp.iter.id in (u, code_param):
                for st in ast.walk(lp):
                    if isinstance(st, ast.Assign) and any(isinstance(t, ast.Attribute) and t.attr == "code_expr" for t in st.targets) \
                            and any(isinstance(x, ast.Subscript) and isinstance(x.value, ast.Name) and x.value.id in maps for x in ast.walk(st.value)):
                        applied = True
        chk.judge(R, f"register_assignment:assign_registers:the mapping is applied to every object of {u}", applied,
                  f"no loop over {u} stores {sorted(maps)[0]}[...] into code_expr: a register object that is used by an instruction but is not the object kept in the symbol "
                  f"table (the register of a batch access, a copy) keeps its virtual name and is printed as '__register.N_'", None, where)


# ---------------------------------------------------------------------- R09.d (second clause) / R03.l
def r09_exact_integral(repo: Repo, chk: Check, R="R09.d"):
    """IC10Operand.__init__ turns a float into an int only when the float IS that integer: the literal that is printed reads back
    as the value the transpiler computed."""
    m = repo.mod("types")
    init = m.func("IC10Operand.__init__")
    chk.saw("types", "IC10Operand.__init__")
    cfg = CFG(init)
    where = f"{m.path}:{init.lineno} in IC10Operand.__init__"
    param = init.args.args[1].arg if len(init.args.args) > 1 else "value"
    n = 0
    for node in cfg.nodes:
        st = node.ast
        if node.kind != "stmt" or node.id not in cfg.reachable() or not (isinstance(st, ast.Assign) and any(isinstance(t, ast.Name) and t.id == param for t in st.targets)):
            continue
        v = st.value
        if not (isinstance(v, ast.Call) and isinstance(v.func, ast.Name) and v.func.id in ("int", "round", "floor", "trunc") or
                isinstance(v, ast.Call) and norm(v.func) in ("math.floor", "math.trunc", "math.ceil")):
            continue
        if not any(norm(a) == param for a in v.args):
            continue
        floaty = False
        exact = None
        for t, p in cfg.guards(node.id):
            if not isinstance(t, ast.expr):
                continue
            tt = norm(t)
            if p and tt.startswith("isinstance(") and "float" in tt:
                floaty = True
            if p and tt in (f"int({param}) == {param}", f"{param} == int({param})", f"{param}.is_integer()", f"{param} % 1 == 0", f"{param} == round({param})", f"round({param}) == {param}",
                            f"{param} == math.floor({param})", f"math.floor({param}) == {param}"):
                exact = True
            elif p and ("isclose" in tt or "abs(" in tt and ("<" in tt) or "round(" in tt and "," in tt):
                exact = False if exact is None else exact
        if not floaty:
            continue        # the bool -> int normalisation and the like
        n += 1
        key = "types:IC10Operand.__init__:a float becomes an integer only when it is one"
        if exact is True:
            chk.ok(R, key, None)
        elif exact is False:
            chk.bad(R, key, f"'{norm(st)}' replaces a float by an integer under a tolerance test ({[norm(t) for t, p in cfg.guards(node.id) if isinstance(t, ast.expr)][-1][:60]}): "
                    f"a constant that is merely close to an integer (1 - 1e-10, or any fraction above 5e8 with a relative tolerance) is emitted as that integer, "
                    f"so the program computes with another value than the folded expression had", None, where)
        else:
            raise AnalysisError(f"IC10Operand.__init__: the condition under which '{norm(st)}' runs was not understood")
    if n == 0:
        raise AnalysisError("IC10Operand.__init__: the float -> int normalisation was not found")


# ---------------------------------------------------------------------- R09.b (the opcode itself)
def r09_opcode_is_text(repo: Repo, chk: Check, R="R09.b"):
    """IC10Instruction.to_string puts self.op into the line by an operation that fails for a missing opcode (None), or checks it: an
    f-string / str() / format() would print the text 'None' as opcode."""
    m = repo.mod("types")
    fn = m.func("IC10Instruction.to_string")
    chk.saw("types", "IC10Instruction.to_string")
    cfg = CFG(fn)
    where = f"{m.path}:{fn.lineno} in IC10Instruction.to_string"
    uses = [a for a in ast.walk(fn) if isinstance(a, ast.Attribute) and a.attr == "op" and norm(a.value) == "self" and isinstance(a.ctx, ast.Load)]
    if not uses:
        raise AnalysisError("IC10Instruction.to_string: self.op is not used")
    checked = any(isinstance(i, ast.If) and "self.op" in norm(i.test) and ("None" in norm(i.test) or "isinstance" in norm(i.test) or norm(i.test).startswith("not "))
                  and any(isinstance(x, ast.Raise) for x in ast.walk(i)) for i in ast.walk(fn))
    tolerant, strict = [], []
    for a in uses:
        p = getattr(a, "parent", None)
        if isinstance(p, ast.FormattedValue) or isinstance(p, ast.Call) and norm(p.func) in ("str", "format", "repr") or isinstance(p, ast.Call) and isinstance(p.func, ast.Attribute) and p.func.attr in ("format", "join"):
            tolerant.append(norm(p)[:50] if not isinstance(p, ast.FormattedValue) else "{self.op}")
        elif isinstance(p, ast.BinOp) and isinstance(p.op, ast.Add):
            strict.append(norm(p)[:50])
    if tolerant and not checked:
        chk.bad(R, "types:IC10Instruction.to_string:a missing opcode cannot be printed",
                f"the opcode enters the line through {tolerant[0]}, which turns None into the text 'None': an instruction whose opcode was never set (an augmented assignment with "
                f"an operator the table does not have) is emitted as 'None r0 r0 2' instead of failing", {"uses": tolerant}, where)
    elif strict or checked:
        chk.ok(R, "types:IC10Instruction.to_string:a missing opcode cannot be printed", {"how": "checked" if checked else "string concatenation"})
    else:
        raise AnalysisError("IC10Instruction.to_string: how self.op enters the line was not understood")


# ---------------------------------------------------------------------- R09.a (opcodes assigned to an existing instruction)
def r09a_rewrites(repo: Repo, chk: Check, R="R09.a"):
    """<instr>.op = <expr>: every value the expression can take is an opcode IC10 has.  A value chosen by a table key is evaluated
    for every key of that table."""
    from ..tables import const_dict
    from ..consteval import S
    n = 0
    for mn in ("utils", "generate_code", "compile_pass"):
        m = repo.mod(mn)
        for q, fn in m.funcs.items():
            if isinstance(fn, ast.Lambda):
                continue
            stores = [st for st in ast.walk(fn) if isinstance(st, ast.Assign) and any(isinstance(t, ast.Attribute) and t.attr == "op" and not (isinstance(t.value, ast.Name) and t.value.id == "self") for t in st.targets)]
            if not stores:
                continue
            cfg = CFG(fn)
            for st in stores:
                n += 1
                where = f"{m.path}:{st.lineno} in {q}"
                key = f"{mn}:{q}:{norm(st)[:70]}"
                # names that a guard ties to the keys of a module-level table
                splits = {}
                ids = [x.id for x in cfg.nodes_of(st)]
                for t, p in (cfg.guards(ids[0]) if ids else []):
                    if p and isinstance(t, ast.Compare) and len(t.ops) == 1 and isinstance(t.ops[0], ast.In) and isinstance(t.left, ast.Name) and isinstance(t.comparators[0], ast.Name):
                        try:
                            tab = const_dict(repo, mn, t.comparators[0].id)
                        except Exception:
                            tab = None
                        if tab:
                            splits[t.left.id] = sorted(tab)
                flags = [a.arg for a in fn.args.args if a.arg in {x.id for x in ast.walk(st.value) if isinstance(x, ast.Name)} and a.arg not in splits]
                import itertools
                combos = [dict()]
                for name, keys in splits.items():
                    combos = [dict(c, **{name: k}) for c in combos for k in keys]
                for f_ in flags:
                    combos = [dict(c, **{f_: b}) for c in combos for b in (False, True)]
                bad, unknown = [], False
                for c in combos:
                    fe = FnEval(repo, m, fn, {k: S(v) for k, v in c.items()})
                    nid = fe.node_ids(st)
                    got = fe.eval(st.value, nid[0]) if nid else TOP
                    if got is TOP:
                        unknown = True
                        continue
                    for op in got:
                        if isinstance(op, str) and op not in ISA and not label_def(op):
                            bad.append((c, op))
                if bad:
                    chk.bad(R, key, "the opcode of an instruction is rewritten to " + "; ".join(f"{op!r} for {c}" for c, op in bad[:3]) + ": IC10 has no such instruction",
                            {"bad": [(str(c), op) for c, op in bad[:6]]}, where)
                elif unknown:
                    chk.ok(R, key + " [value not enumerable]", None, vacuous=True)
                else:
                    chk.ok(R, key, {"cases": len(combos)})
    if n == 0:
        raise AnalysisError("no statement that rewrites the opcode of an instruction found (expected the branch fusion and the tail call)")


# ---------------------------------------------------------------------- R09.a (the destination register of an instruction is not taken away)
def r09a_output_kept(repo: Repo, chk: Check, R="R09.a"):
    """<instr>.output = None is legitimate only where the instruction is turned into one that writes no register (its opcode is rewritten
    next to it).  Anywhere else an instruction that writes a register is printed without its first operand ('pop', 'l db Setting')."""
    from .shared import fn_ctx, live_ids, guard_atoms
    n = 0
    for mn in ("utils", "generate_code", "compile_pass"):
        m = repo.mod(mn)
        for fn in m.funcs.values():
            if not isinstance(fn, (ast.FunctionDef, ast.AsyncFunctionDef)):
                continue
            for st in ast.walk(fn):
                if not (isinstance(st, ast.Assign) and len(st.targets) == 1 and isinstance(st.targets[0], ast.Attribute) and st.targets[0].attr == "output"
                        and isinstance(st.value, ast.Constant) and st.value.value is None):
                    continue
                recv = norm(st.targets[0].value)
                if recv == "self":
                    continue
                n += 1
                blk = None
                par = getattr(st, "parent", None)
                for fld in ("body", "orelse", "finalbody"):
                    if st in (getattr(par, fld, None) or []):
                        blk = getattr(par, fld)
                rewritten = any(isinstance(x, ast.Assign) and any(isinstance(t_, ast.Attribute) and t_.attr == "op" and norm(t_.value) == recv for t_ in x.targets) for x in (blk or []))
                chk.judge(R, f"{mn}:{fn.qual}:{recv}.output is cleared only together with a rewrite of the opcode", rewritten,
                          f"{norm(st)} takes the destination register away from an instruction whose opcode stays the same: an instruction that writes a register "
                          f"(pop, peek, l, rand ...) is then printed without its first operand", None, f"{m.path}:{st.lineno} in {fn.qual}")
    if n < 1:
        chk.ok(R, "no instruction has its output cleared", None, vacuous=True)
