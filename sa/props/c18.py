"""C18 — share links round-trip (R18.a–c): encoder/decoder are stage-wise inverse."""
from __future__ import annotations

import ast
from ..model import Repo, AnalysisError, norm
from ..report import Check

B64_ALPHABET = set("ABCDEFGHIJKLMNOPQRSTUVWXYZabcdefghijklmnopqrstuvwxyz0123456789+/=")
URL_SAFE = set("ABCDEFGHIJKLMNOPQRSTUVWXYZabcdefghijklmnopqrstuvwxyz0123456789-_")

# library inverse pairs (oracle data): encoder stage -> decoder stage
INVERSE = {
    "json.dumps": "json.loads",
    "str.encode": "bytes.decode",
    "zlib.compress": "zlib.decompress",
    "base64.b64encode": "base64.b64decode",
    "base64.urlsafe_b64encode": "base64.urlsafe_b64decode",
    "base64.standard_b64encode": "base64.standard_b64decode",
    "bytes.decode": "str.encode",
}
# keyword arguments that do not influence the round trip
NEUTRAL_KW = {
    "json.dumps": {"separators", "indent", "sort_keys"},
    "json.loads": set(),
    "zlib.compress": {"level"},
    "zlib.decompress": {"bufsize"},
    "base64.b64decode": {"validate"},
}


class Stage:
    def __init__(self, kind, name, args, kwargs, node):
        self.kind, self.name, self.args, self.kwargs, self.node = kind, name, args, kwargs, node

    def __repr__(self):
        a = ",".join([norm(x) for x in self.args] + [f"{k}={norm(v)}" for k, v in self.kwargs.items()])
        return f"{self.name}({a})"


def _pipeline(e, env):
    """Flatten nested calls / method chains into (source, [Stage...]) inner to outer."""
    if isinstance(e, ast.Name):
        if e.id in env:
            return env[e.id]
        return (e.id, [])
    if isinstance(e, ast.Call):
        f = e.func
        kw = {k.arg: k.value for k in e.keywords if k.arg}
        if isinstance(f, ast.Attribute) and isinstance(f.value, ast.Name) and f.value.id in env and isinstance(env[f.value.id][0], str) \
                and env[f.value.id][0].startswith("<zlib.") and f.attr in ("decompress", "compress") and e.args:
            # streaming (de)compressor bound to a local and used for one shot
            src, st = _pipeline(e.args[0], env)
            return (src, st + [Stage("func", "zlib." + f.attr, list(e.args[1:]), kw, e)])
        if isinstance(f, ast.Attribute) and isinstance(f.value, ast.Name) and f.value.id == "zlib" and f.attr in ("decompressobj", "compressobj") and not e.args:
            return ("<zlib." + f.attr + ">", [])
        if isinstance(f, ast.Attribute) and isinstance(f.value, ast.Name) and f.value.id in ("json", "zlib", "base64"):
            if not e.args:
                raise AnalysisError(f"C18: call without data argument: {norm(e)}")
            src, st = _pipeline(e.args[0], env)
            return (src, st + [Stage("func", f"{f.value.id}.{f.attr}", e.args[1:], kw, e)])
        if isinstance(f, ast.Attribute) and isinstance(f.value, ast.Call) and norm(f.value.func) in ("zlib.decompressobj", "zlib.compressobj") \
                and f.attr in ("decompress", "compress") and e.args:
            # streaming object used for one shot: same stage, extra arguments (max_length, wbits) are kept for the per-stage rule
            src, st = _pipeline(e.args[0], env)
            return (src, st + [Stage("func", "zlib." + f.attr, list(e.args[1:]) + list(f.value.args), dict(kw, **{k.arg: k.value for k in f.value.keywords if k.arg}), e)])
        if isinstance(f, ast.Attribute):
            src, st = _pipeline(f.value, env)
            return (src, st + [Stage("method", f.attr, e.args, kw, e)])
    raise AnalysisError(f"C18: expression shape not recognised in pipeline: {norm(e)[:80]}")


def _const_str(e):
    return e.value if isinstance(e, ast.Constant) and isinstance(e.value, str) else None


def _ieval(e, r):
    """Integer evaluation of a padding-count expression with len(x)%4 == r."""
    if isinstance(e, ast.Constant) and isinstance(e.value, int):
        return e.value
    if isinstance(e, ast.BinOp):
        if isinstance(e.op, ast.Mod) and isinstance(e.left, ast.Call) and norm(e.left.func) == "len" and isinstance(e.right, ast.Constant) and e.right.value == 4:
            return r
        a, b = _ieval(e.left, r), _ieval(e.right, r)
        if isinstance(e.op, ast.Add):
            return a + b
        if isinstance(e.op, ast.Sub):
            return a - b
        if isinstance(e.op, ast.Mult):
            return a * b
        if isinstance(e.op, ast.Mod):
            return a % b
        if isinstance(e.op, ast.FloorDiv):
            return a // b
    if isinstance(e, ast.UnaryOp) and isinstance(e.op, ast.USub):
        if isinstance(e.operand, ast.Call) and norm(e.operand.func) == "len":
            return -r  # -len(x) is congruent to -r mod 4
        return -_ieval(e.operand, r)
    raise AnalysisError(f"C18: padding expression not recognised: {norm(e)}")


def run(repo: Repo, chk: Check):
    chk.rule("R18.a", "the stages of encode_data (inner to outer) and of decode_data (outer to inner) are inverse partners "
                      "of the library inverse-pair table, with matching codecs and no behaviour-changing keyword", floor=4)
    chk.rule("R18.b", "the decoder's character substitutions invert the encoder's, the encoder replaces exactly + / = and "
                      "only by characters outside the base64 alphabet, so the output alphabet is [A-Za-z0-9_-]", floor=3)
    chk.rule("R18.c", "padding is restored as (-len) mod 4 '=' characters before base64 decoding", floor=1)
    m = repo.mod("types")
    enc = m.func("encode_data")
    dec = m.func("decode_data")
    chk.saw("types", "encode_data")
    chk.saw("types", "decode_data")
    we = f"{m.path}:{enc.lineno} in encode_data"
    wd = f"{m.path}:{dec.lineno} in decode_data"

    unknown = []

    def body_pipeline(fn, allow_pad):
        env = {}
        pads = []
        ret = None
        for st in fn.body:
            if isinstance(st, (ast.Import, ast.ImportFrom)) or (isinstance(st, ast.Expr) and isinstance(st.value, ast.Constant)):
                continue
            if isinstance(st, ast.Assign) and len(st.targets) == 1 and isinstance(st.targets[0], ast.Name):
                env[st.targets[0].id] = _pipeline(st.value, env)
                continue
            if allow_pad and isinstance(st, (ast.If, ast.AugAssign)):
                aug = st
                cond = None
                if isinstance(st, ast.If):
                    if len(st.body) != 1 or st.orelse or not isinstance(st.body[0], ast.AugAssign):
                        raise AnalysisError("decode_data: conditional statement is not the padding restoration")
                    aug, cond = st.body[0], st.test
                if not (isinstance(aug.target, ast.Name) and isinstance(aug.op, ast.Add)):
                    raise AnalysisError("decode_data: augmented assignment not recognised")
                var = aug.target.id
                src, stg = env.get(var, (var, []))
                env[var] = (src, stg + [Stage("pad", "pad", [aug.value], {"cond": cond} if cond is not None else {}, st)])
                continue
            if isinstance(st, ast.Return) and st.value is not None:
                ret = _pipeline(st.value, env)
                continue
            unknown.append(st)
        if ret is None:
            raise AnalysisError(f"{fn.name}: no return value")
        return ret

    esrc, est = body_pipeline(enc, False)
    dsrc, dst = body_pipeline(dec, True)
    for st in unknown:
        fn_ = "decode_data" if any(st is x for x in ast.walk(dec)) else "encode_data"
        chk.bad("R18.a", f"types:{fn_}:only the codec stages touch the data",
                f"{fn_} contains the statement '{norm(st)[:90]}', which is not one of the encoding stages: whatever it does to the data is not undone by the other function",
                None, f"{m.path}:{st.lineno} in {fn_}")
    chk.judge("R18.a", "types:encode_data:source is the parameter", esrc == enc.args.args[0].arg, f"pipeline starts from {esrc}", None, we)
    chk.judge("R18.a", "types:decode_data:source is the parameter", dsrc == dec.args.args[0].arg, f"pipeline starts from {dsrc}", None, wd)

    def classify(stages):
        core, subs, pads = [], [], []
        for s in stages:
            if s.kind == "method" and s.name == "replace":
                subs.append(s)
            elif s.kind == "method" and s.name in ("rstrip", "strip") :
                subs.append(s)
            elif s.kind == "pad":
                pads.append(s)
            else:
                core.append(s)
        return core, subs, pads

    ecore, esubs, epads = classify(est)
    dcore, dsubs, dpads = classify(dst)
    chk.extra["encoder_stages"] = [repr(s) for s in est]
    chk.extra["decoder_stages"] = [repr(s) for s in dst]

    # typed names: method encode/decode get a receiver type from position
    def typed(core):
        out = []
        cur = None
        for s in core:
            if s.kind == "func":
                out.append(s.name)
            elif s.name == "encode":
                out.append("str.encode")
            elif s.name == "decode":
                out.append("bytes.decode")
            else:
                out.append("?." + s.name)
        return out

    et, dt = typed(ecore), typed(dcore)
    # base64 output is ASCII and b64decode accepts ASCII text: the encoder's text decode right
    # after the base64 stage has the decoder's implicit str->bytes acceptance as its inverse
    for i in range(len(et) - 1):
        if et[i].startswith("base64.") and et[i + 1] == "bytes.decode" and "str.encode" not in dt[:1]:
            codec = ecore[i + 1].args[0].value if ecore[i + 1].args and isinstance(ecore[i + 1].args[0], ast.Constant) else "utf-8"
            chk.judge("R18.a", "types:encode_data:text form of base64", str(codec).lower().replace("_", "-") in ("utf-8", "utf8", "ascii", "latin-1", "latin1"),
                      f"base64 bytes are turned into text with codec {codec!r}", {"codec": codec}, we)
            del et[i + 1]
            del ecore[i + 1]
            break
    want = [INVERSE.get(n, "<no inverse for %s>" % n) for n in reversed(et)]
    chk.judge("R18.a", "types:stage lists are inverse", dt == want,
              f"decoder stages {dt} are not the inverse of encoder stages {et} (expected {want})", {"encoder": et, "decoder": dt}, wd)
    # per stage: codecs and keywords
    ascii_text = False
    for s, n in zip(ecore, et):
        key = f"types:encode_data:stage {n}"
        bad = []
        if n == "json.dumps":
            ea = s.kwargs.get("ensure_ascii")
            ascii_text = ea is None or (isinstance(ea, ast.Constant) and ea.value is True)
            extra = set(s.kwargs) - NEUTRAL_KW["json.dumps"] - {"ensure_ascii"}
            if extra or s.args:
                bad.append(f"keyword(s) {sorted(extra)} / extra positional arguments may change what json.loads returns")
        elif n == "str.encode":
            codec = _const_str(s.args[0]) if s.args else (_const_str(s.kwargs["encoding"]) if "encoding" in s.kwargs else "utf-8")
            errors = _const_str(s.args[1]) if len(s.args) > 1 else (_const_str(s.kwargs["errors"]) if "errors" in s.kwargs else "strict")
            if codec is None or codec.lower().replace("_", "-") not in ("utf-8", "utf8", "ascii"):
                bad.append(f"codec {codec!r} is not utf-8/ascii")
            if not ascii_text and errors != "surrogatepass":
                bad.append("text may contain lone surrogates (json.dumps(ensure_ascii=False)) and .encode() is strict: encode_data raises for such source text")
            if codec and codec.lower() == "ascii" and not ascii_text:
                bad.append("ascii codec on non-ascii text")
            s._codec = (codec or "").lower().replace("_", "-").replace("utf8", "utf-8")
        elif n == "bytes.decode":
            codec = _const_str(s.args[0]) if s.args else "utf-8"
            s._codec = (codec or "").lower()
        elif n in ("zlib.compress",):
            extra = set(s.kwargs) - NEUTRAL_KW[n]
            if "wbits" in s.kwargs or len(s.args) > 1:
                bad.append("non-default wbits/positional arguments must be mirrored by the decoder")
        elif n.startswith("base64."):
            if s.args or s.kwargs:
                bad.append(f"altchars/extra arguments {[norm(a) for a in s.args]} {sorted(s.kwargs)} not mirrored by the decoder table")
        chk.judge("R18.a", key, not bad, "; ".join(bad), {"stage": repr(s)}, we)
    for s, n in zip(dcore, dt):
        key = f"types:decode_data:stage {n}"
        bad = []
        if n == "json.loads" and (s.args or s.kwargs):
            bad.append("json.loads with hooks/keywords changes the decoded value")
        if n == "zlib.decompress" and (s.args or set(s.kwargs) - NEUTRAL_KW[n]):
            bad.append(f"zlib.decompress is given extra arguments {[norm(a) for a in s.args]} {sorted(s.kwargs)} (wbits / max_length): it no longer returns everything zlib.compress wrote")
        if n.startswith("base64.") and (s.args or set(s.kwargs) - NEUTRAL_KW.get(n, set())):
            bad.append("base64 decode with altchars not used by the encoder")
        if n == "bytes.decode":
            codec = _const_str(s.args[0]) if s.args else (_const_str(s.kwargs["encoding"]) if "encoding" in s.kwargs else "utf-8")
            errs = _const_str(s.args[1]) if len(s.args) > 1 else (_const_str(s.kwargs["errors"]) if "errors" in s.kwargs else "strict")
            if (codec or "").lower().replace("_", "-").replace("utf8", "utf-8") not in ("utf-8", "ascii"):
                bad.append(f"codec {codec!r}")
            if errs not in ("strict", "surrogatepass"):
                bad.append(f"errors={errs!r} silently alters undecodable text")
        chk.judge("R18.a", key, not bad, "; ".join(bad), {"stage": repr(s)}, wd)
    # positions: all encoder substitutions come after the base64 stage and its text decode; decoder's before b64decode
    def index_of(stages, pred):
        for i, s in enumerate(stages):
            if pred(s):
                return i
        return -1

    ib = index_of(est, lambda s: s.kind == "func" and s.name.startswith("base64."))
    chk.judge("R18.b", "types:encode_data:substitutions follow base64", all(est.index(s) > ib for s in esubs) and ib >= 0,
              "a character substitution is applied before base64 encoding", None, we)
    idb = index_of(dst, lambda s: s.kind == "func" and s.name.startswith("base64."))
    chk.judge("R18.b", "types:decode_data:substitutions precede base64", all(dst.index(s) < idb for s in dsubs + dpads) and idb >= 0,
              "a substitution or the padding restoration is applied after base64 decoding", None, wd)

    # R18.b substitution maps
    def submap(subs, where):
        mp, deleted = {}, set()
        produced = set()
        for s in subs:
            if s.name != "replace" or len(s.args) != 2 or s.kwargs:
                if s.name in ("rstrip", "strip") and len(s.args) == 1 and _const_str(s.args[0]) == "=":
                    deleted.add("=")
                    continue
                raise AnalysisError(f"C18: substitution {s!r} not recognised")
            a, b = _const_str(s.args[0]), _const_str(s.args[1])
            if a is None or b is None or len(a) != 1 or len(b) > 1:
                raise AnalysisError(f"C18: substitution {s!r} is not a single-character replace")
            if a in produced:
                chk.bad("R18.b", f"types:{where}:chained replace {a!r}", f"replace source {a!r} was produced by an earlier replace: substitutions compose", None, where)
            if b == "":
                deleted.add(a)
            else:
                mp[a] = b
                produced.add(b)
        return mp, deleted

    emap, edel = submap(esubs, "encode_data")
    dmap, ddel = submap(dsubs, "decode_data")
    urlsafe_enc = any(s.kind == "func" and "urlsafe" in s.name for s in est)
    alphabet = set(B64_ALPHABET)
    if urlsafe_enc:
        alphabet = (alphabet - {"+", "/"}) | {"-", "_"}
    out_alphabet = {emap.get(c, c) for c in alphabet if c not in edel}
    chk.judge("R18.b", "types:encode_data:output alphabet is URL-safe", out_alphabet <= URL_SAFE,
              f"characters {sorted(out_alphabet - URL_SAFE)} of the base64 alphabet survive into the link", {"map": emap, "deleted": sorted(edel)}, we)
    inj_bad = [f"{a!r}->{b!r}" for a, b in emap.items() if b in alphabet and b not in emap]
    chk.judge("R18.b", "types:encode_data:substitution is injective", not inj_bad and len(set(emap.values())) == len(emap),
              f"replacement character(s) {inj_bad} already belong to the base64 alphabet: two different encodings collide", {"map": emap}, we)
    inv = {b: a for a, b in emap.items()}
    chk.judge("R18.b", "types:decode_data:substitution inverts the encoder's", dmap == inv and not ddel,
              f"decoder map {dmap} (deletes {sorted(ddel)}) is not the inverse {inv} of the encoder map", {"decoder": dmap, "inverse": inv}, wd)
    only_pad_deleted = edel <= {"="}
    chk.judge("R18.b", "types:encode_data:only padding is removed", only_pad_deleted, f"encoder deletes {sorted(edel)}", None, we)

    # R18.c
    if "=" in edel:
        if len(dpads) != 1:
            chk.bad("R18.c", "types:decode_data:padding restoration", f"encoder strips '=' but decoder has {len(dpads)} padding statement(s)", None, wd)
        else:
            p = dpads[0]
            v = p.args[0]
            ok = False
            why = ""
            if isinstance(v, ast.BinOp) and isinstance(v.op, ast.Mult):
                s_, cnt = (v.left, v.right) if _const_str(v.left) is not None else (v.right, v.left)
                if _const_str(s_) == "=":
                    cond = p.kwargs.get("cond")
                    good = True
                    for r in range(4):
                        applies = True
                        if cond is not None:
                            if isinstance(cond, ast.BinOp) or isinstance(cond, ast.Compare) or isinstance(cond, ast.Call):
                                if isinstance(cond, ast.Compare) and len(cond.ops) == 1 and isinstance(cond.comparators[0], ast.Constant):
                                    l = _ieval(cond.left, r)
                                    c = cond.comparators[0].value
                                    applies = {ast.NotEq: l != c, ast.Gt: l > c, ast.Eq: l == c, ast.Lt: l < c, ast.GtE: l >= c, ast.LtE: l <= c}[type(cond.ops[0])]
                                else:
                                    applies = bool(_ieval(cond, r))
                            else:
                                raise AnalysisError("C18: padding condition not recognised")
                        n = max(0, _ieval(cnt, r)) if applies else 0
                        if n != (-r) % 4:
                            good = False
                            why = f"for len % 4 == {r} it appends {n} '=' instead of {(-r) % 4}"
                    ok = good
                else:
                    why = "padding character is not '='"
            else:
                why = f"padding expression {norm(v)} not of the form '=' * n"
            chk.judge("R18.c", "types:decode_data:padding restoration", ok, why or "padding formula wrong", {"expr": norm(v)}, wd)
    else:
        chk.ok("R18.c", "types:decode_data:padding kept by the encoder", None)
    # decoder must not cache/mutate shared results: no decorator, no module state
    for fn, w in ((enc, we), (dec, wd)):
        chk.judge("R18.a", f"types:{fn.name}:no memoising decorator", not fn.decorator_list,
                  f"{fn.name} is wrapped by {[norm(d) for d in fn.decorator_list]}: a cached mutable result is shared between callers, so a later decode no longer equals the encoded dictionary",
                  None, w)
