"""C18 — share links round-trip (R18.a–c): encoder/decoder are stage-wise inverse."""
from __future__ import annotations

import ast
from ..model import Repo, AnalysisError, norm
from ..report import Check

B64_ALPHABET = set("ABCDEFGHIJKLMNOPQRSTUVWXYZabcdefghijklmnopqrstuvwxyz0123456789+/=")
URL_SAFE = set("ABCDEFGHIJKLMNOPQRSTUVWXYZabcdefghijklmnopqrstuvwxyz0123456789-_")

# library inverse pairs (oracle data): encoder stage -> decoder stage
INVERSE = {
    "json.dumps": "json.loads",
    "str.encode": "bytes.decode",
    "zlib.compress": "zlib.decompress",
    "base64.b64encode": "base64.b64decode",
    "base64.urlsafe_b64encode": "base64.urlsafe_b64decode",
    "base64.standard_b64encode": "base64.standard_b64decode",
    "bytes.decode": "str.encode",
}
# keyword arguments that do not influence the round trip
NEUTRAL_KW = {
    "json.dumps": {"separators", "indent", "sort_keys"},
    "json.loads": set(),
    "zlib.compress": {"level"},
    "zlib.decompress": {"bufsize"},
    "base64.b64decode": {"validate"},
}


class Stage:
    def __init__(self, kind, name, args, kwargs, node):
        self.kind, self.name, self.args, self.kwargs, self.node = kind, name, args, kwargs, node

    def __repr__(self):
        a = ",".join([norm(x) for x in self.args] + [f"{k}={norm(v)}" for k, v in self.kwargs.items()])
        return f"{self.name}({a})"


def _pipeline(e, env):
    """Flatten nested calls / method chains into (source, [Stage...]) inner to outer."""
    if isinstance(e, ast.Name):
        if e.id in env:
            return env[e.id]
        return (e.id, [])
    if isinstance(e, ast.Call):
        f = e.func
        kw = {k.arg: k.value for k in e.keywords if k.arg}
        if isinstance(f, ast.Attribute) and isinstance(f.value, ast.Name) and f.value.id in env and isinstance(env[f.value.id][0], str) \
                and env[f.value.id][0].startswith("<zlib.") and f.attr in ("decompress", "compress") and e.args:
            # streaming (de)compressor bound to a local and used for one shot
            src, st = _pipeline(e.args[0], env)
            return (src, st + [Stage("func", "zlib." + f.attr, list(e.args[1:]), kw, e)])
        if isinstance(f, ast.Attribute) and isinstance(f.value, ast.Name) and f.value.id == "zlib" and f.attr in ("decompressobj", "compressobj") and not e.args:
            return ("<zlib." + f.attr + ">", [])
        if isinstance(f, ast.Attribute) and isinstance(f.value, ast.Name) and f.value.id in ("json", "zlib", "base64"):
            if not e.args:
                raise AnalysisError(f"C18: call without data argument: {norm(e)}")
            src, st = _pipeline(e.args[0], env)
            return (src, st + [Stage("func", f"{f.value.id}.{f.attr}", e.args[1:], kw, e)])
        if isinstance(f, ast.Attribute) and isinstance(f.value, ast.Call) and norm(f.value.func) in ("zlib.decompressobj", "zlib.compressobj") \
                and f.attr in ("decompress", "compress") and e.args:
            # streaming object used for one shot: same stage, extra arguments (max_length, wbits) are kept for the per-stage rule
            src, st = _pipeline(e.args[0], env)
            return (src, st + [Stage("func", "zlib." + f.attr, list(e.args[1:]) + list(f.value.args), dict(kw, **{k.arg: k.value for k in f.value.keywords if k.arg}), e)])
        if isinstance(f, ast.Attribute):
            src, st = _pipeline(f.value, env)
            return (src, st + [Stage("method", f.attr, e.args, kw, e)])
    raise AnalysisError(f"C18: expression shape not recognised in pipeline: {norm(e)[:80]}")


def _const_str(e):
    return e.value if isinstance(e, ast.Constant) and isinstance(e.value, str) else None


def _ieval(e, r):
    """Integer evaluation of a padding-count expression with len(x)%4 == r."""
    if isinstance(e, ast.Constant) and isinstance(e.value, int):
        return e.value
    if isinstance(e, ast.BinOp):
        if isinstance(e.op, ast.Mod) and isinstance(e.left, ast.Call) and norm(e.left.func) == "len" and isinstance(e.right, ast.Constant) and e.right.value == 4:
            return r
        a, b = _ieval(e.left, r), _ieval(e.right, r)
        if isinstance(e.op, ast.Add):
            return a + b
        if isinstance(e.op, ast.Sub):
            return a - b
        if isinstance(e.op, ast.Mult):
            return a * b
        if isinstance(e.op, ast.Mod):
            return a % b
        if isinstance(e.op, ast.FloorDiv):
            return a // b
    if isinstance(e, ast.UnaryOp) and isinstance(e.op, ast.USub):
        if isinstance(e.operand, ast.Call) and norm(e.operand.func) == "len":
            return -r  # -len(x) is congruent to -r mod 4
        return -_ieval(e.operand, r)
    raise AnalysisError(f"C18: padding expression not recognised: {norm(e)}")


def _cstr(v):
    """str constant carried by a symbolic value (bytes are decoded as latin-1)."""
    if v.kind == "const" and isinstance(v.a, str):
        return v.a
    if v.kind == "const" and isinstance(v.a, bytes):
        return v.a.decode("latin-1")
    return None


def _charmap_of(stage):
    """Character map of a text/bytes substitution stage: ({char: replacement}, {deleted chars}) or None."""
    n = stage.name
    if n == ".replace" and len(stage.args) == 2 and not stage.kwargs:
        a, b = _cstr(stage.args[0]), _cstr(stage.args[1])
        if a is not None and b is not None and len(a) == 1 and len(b) <= 1:
            return ({a: b}, set()) if b else ({}, {a})
        return None
    if n in (".rstrip", ".strip") and len(stage.args) == 1 and _cstr(stage.args[0]) == "=":
        return ({}, {"="})  # '=' only occurs at the end of base64 text: stripping it there deletes all of it
    if n == ".translate" and len(stage.args) == 1:
        t = stage.args[0]
        if t.kind == "call" and t.a in ("str.maketrans", "bytes.maketrans") and len(t.b) == 1 and t.b[0].kind == "const" and isinstance(t.b[0].a, dict):
            m, dele = {}, set()
            for k, v in t.b[0].a.items():
                k = chr(k) if isinstance(k, int) else k
                if not isinstance(k, str) or len(k) != 1:
                    return None
                if v is None or v == "":
                    dele.add(k)
                elif isinstance(v, str) and len(v) == 1:
                    m[k] = v
                elif isinstance(v, int):
                    m[k] = chr(v)
                else:
                    return None
            return (m, dele)
        if t.kind == "call" and t.a in ("str.maketrans", "bytes.maketrans") and 2 <= len(t.b) <= 3:
            x, y = _cstr(t.b[0]), _cstr(t.b[1])
            z = _cstr(t.b[2]) if len(t.b) == 3 else ""
            if x is None or y is None or z is None or len(x) != len(y):
                return None
            return (dict(zip(x, y)), set(z))
        return None
    return None


URLSAFE_ENC = {"+": "-", "/": "_"}
URLSAFE_DEC = {"-": "+", "_": "/"}
CORE = {"json.dumps", "json.loads", "zlib.compress", "zlib.decompress", "base64.b64encode", "base64.b64decode", "str.encode", "bytes.decode"}


def canonical(stages):
    """[(kind, payload, stage)] with kind in core / map / pad / other."""
    out = []
    for st in stages:
        n = st.name
        if n in ("base64.urlsafe_b64encode",):
            out.append(("core", "base64.b64encode", st))
            out.append(("map", (dict(URLSAFE_ENC), set()), st))
        elif n in ("base64.urlsafe_b64decode",):
            out.append(("map", (dict(URLSAFE_DEC), set()), st))
            out.append(("core", "base64.b64decode", st))
        elif n in ("base64.standard_b64encode",):
            out.append(("core", "base64.b64encode", st))
        elif n in ("base64.standard_b64decode",):
            out.append(("core", "base64.b64decode", st))
        elif n == ".encode":
            out.append(("core", "str.encode", st))
        elif n == ".decode":
            out.append(("core", "bytes.decode", st))
        elif n in CORE:
            out.append(("core", n, st))
        elif n == "pad":
            out.append(("pad", None, st))
        else:
            cm = _charmap_of(st)
            if cm is not None:
                out.append(("map", cm, st))
            else:
                out.append(("other", n, st))
    return out


def run(repo: Repo, chk: Check):
    from ..symstage import Interp, linearise, pad_count
    chk.rule("R18.a", "the stages of encode_data (inner to outer) and of decode_data (outer to inner) are inverse partners "
                      "of the library inverse-pair table, applied unconditionally, with matching codecs and no behaviour-changing argument; "
                      "nothing but codec stages touches the data", floor=4)
    chk.rule("R18.b", "the decoder's character substitutions invert the encoder's, the encoder replaces exactly + / = and "
                      "only by characters outside the base64 alphabet, so the output alphabet is [A-Za-z0-9_-]", floor=3)
    chk.rule("R18.c", "padding is restored as (-len) mod 4 '=' characters before base64 decoding", floor=1)
    m = repo.mod("types")
    enc = m.func("encode_data")
    dec = m.func("decode_data")
    chk.saw("types", "encode_data")
    chk.saw("types", "decode_data")
    we = f"{m.path}:{enc.lineno} in encode_data"
    wd = f"{m.path}:{dec.lineno} in decode_data"
    results = {}
    for fn, w in ((enc, we), (dec, wd)):
        it = Interp(repo, m)
        try:
            val = it.run(fn)
        except AnalysisError as e:
            val = None
            if not it.unknown:
                raise
        for st in it.unknown:
            chk.bad("R18.a", f"types:{fn.name}:only the codec stages touch the data",
                    f"{fn.name} contains the statement '{norm(st)[:90]}', which is not a straight-line codec stage: whatever it does to the data is not "
                    f"provably undone by the other function", None, f"{m.path}:{st.lineno} in {fn.name}")
        if val is None:
            results[fn.name] = None
            continue
        try:
            stages = linearise(val, fn.args.args[0].arg)
        except AnalysisError as e:
            msg = str(e)
            if "different routes" in msg or "conditional" in msg:
                chk.bad("R18.a", f"types:{fn.name}:every stage is applied unconditionally",
                        f"{fn.name}: {msg}. A stage that is applied only for some inputs is not the inverse of an unconditional partner "
                        f"(and a partner that guesses from the data which route was taken can guess wrong)", None, w)
                results[fn.name] = None
                continue
            raise
        results[fn.name] = canonical(stages)
        chk.extra[f"{fn.name}_stages"] = [repr(s) for s in stages]
    for fn, w in ((enc, we), (dec, wd)):
        chk.judge("R18.a", f"types:{fn.name}:no memoising decorator", not fn.decorator_list,
                  f"{fn.name} is wrapped by {[norm(d) for d in fn.decorator_list]}: a cached mutable result is shared between callers, so a later decode no longer equals the encoded dictionary",
                  None, w)
    E, D = results.get("encode_data"), results.get("decode_data")
    if E is None or D is None:
        return
    for fn_, lst, w in (("encode_data", E, we), ("decode_data", D, wd)):
        for kind, payload, st in lst:
            if kind == "other":
                chk.bad("R18.a", f"types:{fn_}:stage {payload}", f"{fn_} applies {st!r} to the data, which is not a stage of the inverse-pair table", None, w)
    ecore = [(n, st) for k, n, st in E if k == "core"]
    dcore = [(n, st) for k, n, st in D if k == "core"]
    et, dt = [n for n, _ in ecore], [n for n, _ in dcore]
    # base64 output is ASCII and b64decode accepts ASCII text: the encoder's text decode right after the
    # base64 stage has the decoder's implicit str->bytes acceptance as its inverse (and vice versa for bytes maps)
    for i in range(len(et) - 1):
        if et[i] == "base64.b64encode" and "bytes.decode" in et[i + 1:]:
            j = et.index("bytes.decode", i + 1)
            st = ecore[j][1]
            codec = (_cstr(st.args[0]) if st.args else None) or (_cstr(st.kwargs["encoding"]) if "encoding" in st.kwargs else "utf-8")
            chk.judge("R18.a", "types:encode_data:text form of base64", str(codec).lower().replace("_", "-") in ("utf-8", "utf8", "ascii", "latin-1", "latin1"),
                      f"base64 bytes are turned into text with codec {codec!r}", {"codec": codec}, we)
            del et[j]
            del ecore[j]
            break
    if dt[:1] == ["str.encode"] and dt[1:2] == ["base64.b64decode"]:
        del dt[0]
        del dcore[0]
    want = [INVERSE.get(n, "<no inverse for %s>" % n) for n in reversed(et)]
    chk.judge("R18.a", "types:stage lists are inverse", dt == want,
              f"decoder stages {dt} are not the inverse of encoder stages {et} (expected {want})", {"encoder": et, "decoder": dt}, wd)
    ascii_text = False
    for n, st in ecore:
        bad = []
        if n == "json.dumps":
            ea = st.kwargs.get("ensure_ascii")
            ascii_text = ea is None or (ea.kind == "const" and ea.a is True)
            extra = set(st.kwargs) - NEUTRAL_KW["json.dumps"] - {"ensure_ascii"}
            if extra or st.args:
                bad.append(f"keyword(s) {sorted(extra)} / extra positional arguments may change what json.loads returns")
        elif n == "str.encode":
            codec = (_cstr(st.args[0]) if st.args else None) or (_cstr(st.kwargs["encoding"]) if "encoding" in st.kwargs else "utf-8")
            errors = (_cstr(st.args[1]) if len(st.args) > 1 else None) or (_cstr(st.kwargs["errors"]) if "errors" in st.kwargs else "strict")
            if codec is None or codec.lower().replace("_", "-") not in ("utf-8", "utf8", "ascii"):
                bad.append(f"codec {codec!r} is not utf-8/ascii")
            if not ascii_text and errors != "surrogatepass":
                bad.append("text may contain lone surrogates (json.dumps(ensure_ascii=False)) and .encode() is strict: encode_data raises for such source text")
        elif n == "zlib.compress":
            if "wbits" in st.kwargs or len(st.args) > 1:
                bad.append("non-default wbits/positional arguments must be mirrored by the decoder")
        elif n == "base64.b64encode":
            if (st.args or st.kwargs) and st.name == "base64.b64encode":
                bad.append(f"altchars/extra arguments {st.args} {sorted(st.kwargs)} not mirrored by the decoder table")
        chk.judge("R18.a", f"types:encode_data:stage {n}", not bad, "; ".join(bad), {"stage": repr(st)}, we)
    for n, st in dcore:
        bad = []
        if n == "json.loads" and (st.args or st.kwargs):
            bad.append("json.loads with hooks/keywords changes the decoded value")
        if n == "zlib.decompress" and (st.args or set(st.kwargs) - NEUTRAL_KW[n]):
            bad.append(f"zlib.decompress is given extra arguments {st.args} {sorted(st.kwargs)} (wbits / max_length): it no longer returns everything zlib.compress wrote")
        if n == "base64.b64decode" and st.name == "base64.b64decode" and (st.args or set(st.kwargs) - NEUTRAL_KW.get(n, set())):
            bad.append("base64 decode with altchars not used by the encoder")
        if n == "bytes.decode":
            codec = (_cstr(st.args[0]) if st.args else None) or (_cstr(st.kwargs["encoding"]) if "encoding" in st.kwargs else "utf-8")
            errs = (_cstr(st.args[1]) if len(st.args) > 1 else None) or (_cstr(st.kwargs["errors"]) if "errors" in st.kwargs else "strict")
            if (codec or "").lower().replace("_", "-").replace("utf8", "utf-8") not in ("utf-8", "ascii"):
                bad.append(f"codec {codec!r}")
            if errs not in ("strict", "surrogatepass"):
                bad.append(f"errors={errs!r} silently alters undecodable text")
        chk.judge("R18.a", f"types:decode_data:stage {n}", not bad, "; ".join(bad), {"stage": repr(st)}, wd)

    # ------------------------------------------------------------ R18.b: character maps relative to the base64 stage
    def split_maps(lst, b64name):
        idx = [i for i, (k, n, st) in enumerate(lst) if k == "core" and n == b64name]
        if not idx:
            return None
        ib = idx[0]
        before = [(i, p) for i, (k, p, st) in enumerate(lst) if k in ("map", "pad") and i < ib]
        after = [(i, p) for i, (k, p, st) in enumerate(lst) if k in ("map", "pad") and i > ib]
        return ib, before, after
    se = split_maps(E, "base64.b64encode")
    sd = split_maps(D, "base64.b64decode")
    if se is None or sd is None:
        chk.bad("R18.b", "types:base64 stage present on both sides", "no base64 stage found in encoder or decoder", None, we)
        return
    chk.judge("R18.b", "types:encode_data:substitutions follow base64", not se[1], "a character substitution or padding change is applied before base64 encoding", None, we)
    chk.judge("R18.b", "types:decode_data:substitutions precede base64", not sd[2], "a substitution or the padding restoration is applied after base64 decoding", None, wd)

    def compose(lst, idxs):
        mp, deleted = {}, set()
        for i, payload in idxs:
            if lst[i][0] != "map":
                continue
            m_, d_ = payload
            # apply after what is there: existing images are mapped further, new sources are added
            for a in list(mp):
                if mp[a] in d_:
                    deleted.add(a)
                    del mp[a]
                elif mp[a] in m_:
                    mp[a] = m_[mp[a]]
            for a, b in m_.items():
                if a not in mp and a not in deleted and a not in [v for v in mp.values()]:
                    mp[a] = b
                elif a not in mp and a not in deleted:
                    mp[a] = b
            deleted |= {c for c in d_ if c not in mp.values()} | {c for c in d_}
        return mp, deleted
    emap, edel = compose(E, se[2])
    dmap, ddel = compose(D, sd[1])
    alphabet = B64_ALPHABET
    out_alphabet = {emap.get(c, c) for c in alphabet if c not in edel}
    chk.judge("R18.b", "types:encode_data:output alphabet is URL-safe", out_alphabet <= URL_SAFE,
              f"characters {sorted(out_alphabet - URL_SAFE)} of the base64 alphabet survive into the link", {"map": emap, "deleted": sorted(edel)}, we)
    inj_bad = [f"{a!r}->{b!r}" for a, b in emap.items() if b in alphabet and b not in emap]
    chk.judge("R18.b", "types:encode_data:substitution is injective", not inj_bad and len(set(emap.values())) == len(emap),
              f"replacement character(s) {inj_bad} already belong to the base64 alphabet, or two characters share one replacement: two different encodings collide", {"map": emap}, we)
    inv = {b: a for a, b in emap.items()}
    chk.judge("R18.b", "types:decode_data:substitution inverts the encoder's", dmap == inv and not ddel,
              f"decoder map {dmap} (deletes {sorted(ddel)}) is not the inverse {inv} of the encoder map", {"decoder": dmap, "inverse": inv}, wd)
    chk.judge("R18.b", "types:encode_data:only padding is removed", edel <= {"="}, f"encoder deletes {sorted(edel)}", None, we)

    # ------------------------------------------------------------ R18.c
    dpads = [st for k, p, st in D if k == "pad"]
    if "=" in edel:
        if len(dpads) != 1:
            chk.bad("R18.c", "types:decode_data:padding restoration", f"encoder strips '=' but decoder has {len(dpads)} padding step(s)", None, wd)
        else:
            p = dpads[0]
            why = ""
            for r in range(4):
                n = pad_count(p.args[0], r, p.kwargs.get("cond"), p.kwargs.get("cond_selects_pad", True))
                if n is None:
                    raise AnalysisError(f"decode_data: padding expression {p.args[0]!r} not understood")
                if n != (-r) % 4:
                    why = f"for len % 4 == {r} it appends {n} '=' instead of {(-r) % 4}"
            chk.judge("R18.c", "types:decode_data:padding restoration", not why, why or "padding formula wrong", {"expr": repr(p.args[0])}, wd)
    else:
        chk.ok("R18.c", "types:decode_data:padding kept by the encoder", None)
