"""C07 — when the top-level script finishes, nothing else runs (R07.a–c)."""
from __future__ import annotations

import ast
from ..model import Repo, AnalysisError, norm, enclosing_def
from ..report import Check
from ..consteval import TOP, FnEval, S
from ..emit import collect_sites
from ..isa import ISA
from .shared import fn_ctx, live_ids, guard_atoms, GEN_CLASS

# opcodes after which the next line is never executed by sequential flow
NO_FALL_THROUGH = {"j", "jr", "hcf"}


def run(repo: Repo, chk: Check):
    chk.rule("R07.a", "the gather pass emits the main region first: regions are appended in sorted key order, the main region's "
                      "key is the empty string, and nothing is appended to the program before that loop", floor=3)
    chk.rule("R07.b", "between the main region and the first function region an instruction that cannot fall through (j, jr, hcf) "
                      "is appended", floor=1)
    chk.rule("R07.c", "every function region that is emitted ends, after its end label, in an instruction that cannot fall "
                      "through whenever something can jump to that label (early return) — also when the final 'j ra' is "
                      "replaced by a tail call", floor=2)
    chk.rule("R07.d", "a function is emitted as a region with a final 'j ra' exactly when it is not inlined: all sites evaluate the same "
                      "predicate (inline_functions AND called once) or its negation (shared with R02.c)", floor=8)
    from .c02 import r02c, r02e
    chk.guarded(r02c, repo, chk, "R07.d")
    chk.rule("R07.e", "a call is turned into a tail jump only if neither the function being compiled nor the callee is inlined, and the "
                      "final 'j ra' is dropped exactly then (shared with R02.e): otherwise code pasted into the main region jumps into a function with a stale ra", floor=3)
    chk.guarded(r02e, repo, chk, "R07.e")
    g = repo.mod("generate_code")
    qual = "CompilerPassGatherCode.run"
    fn = g.func(qual)
    chk.saw("generate_code", qual)
    cfg, rd = fn_ctx(fn)
    where = f"{g.path}:{fn.lineno} in {qual}"
    from .shared import gather_model, emission_table
    _, ems = gather_model(repo)
    if not ems:
        raise AnalysisError("CompilerPassGatherCode.run: no statement that adds lines to self.code found")
    # the region order

    def key_order(call):
        """sorted(<functions>) / sorted(<functions>.keys()) / sorted(<functions>.items()[, key=lambda it: it[0]]) ascending"""
        if call is None or len(call.args) != 1:
            return False, "?"
        src = call.args[0]
        kw = {k.arg: k.value for k in call.keywords}
        if "reverse" in kw and not (isinstance(kw["reverse"], ast.Constant) and kw["reverse"].value is False):
            return False, norm(call)
        base = src
        items = False
        if isinstance(src, ast.Call) and isinstance(src.func, ast.Attribute) and src.func.attr in ("keys", "items") and not src.args:
            base = src.func.value
            items = src.func.attr == "items"
        if "functions" not in norm(base):
            return False, norm(call)
        if "key" in kw:
            k = kw["key"]
            by_first = isinstance(k, ast.Lambda) and len(k.args.args) == 1 and isinstance(k.body, ast.Subscript) and isinstance(k.body.value, ast.Name) \
                and k.body.value.id == k.args.args[0].arg and isinstance(k.body.slice, ast.Constant) and k.body.slice.value == 0
            ident = isinstance(k, ast.Lambda) and len(k.args.args) == 1 and isinstance(k.body, ast.Name) and k.body.id == k.args.args[0].arg
            return (by_first if items else ident), norm(call)
        return True, norm(call)
    # either every region comes out of one loop in ascending key order (the key '' sorts first), or the main entry is emitted by a
    # statement of its own before that loop
    ordered = sorted(ems, key=lambda e: (e.stmt.lineno, e.stmt.col_offset))
    explicit_main = ordered[0].region == "main" and not ordered[0].conds
    for em in ems:
        if em.region == "main" and explicit_main and em is ordered[0]:
            chk.ok("R07.a", "generate_code:run:the main region is emitted first by a statement of its own", {"statement": norm(em.stmt)[:80]})
            continue
        ok_sorted, txt = key_order(em.order)
        if explicit_main:
            ok_sorted = em.order is not None or bool(em.sources)    # the order among the functions does not matter for this property
        chk.judge("R07.a", "generate_code:run:regions are emitted in sorted key order", ok_sorted,
                  f"the regions that reach self.code are drawn from {[norm(x)[:80] for x in em.sources] or 'no loop at all'}: the main region (key '') is first only in "
                  f"plain ascending order of the keys of the function table", {"order": txt}, where)
    # main key is ""
    main_keys = [st for st in ast.walk(fn) if isinstance(st, ast.Assign) and any(isinstance(t, ast.Subscript) and "functions" in norm(t.value) for t in st.targets)]
    okk = bool(main_keys) and all(isinstance(t.slice, ast.Constant) and t.slice.value == "" for st in main_keys for t in st.targets if isinstance(t, ast.Subscript))
    # ... and the main target is registered before the tree is gathered
    visit = [c for c in ast.walk(fn) if isinstance(c, ast.Call) and norm(c.func) == "self._visit_node"]
    before = bool(main_keys) and all(main_keys[0].lineno < v.lineno for v in visit)
    chk.judge("R07.a", "generate_code:run:the main region is registered under the key '' before code is gathered", okk and before,
              f"main region key is {[norm(t) for st in main_keys for t in st.targets]}", None, where)
    others = [em for em in ems if em.order is None and not (explicit_main and em is ordered[0])]
    chk.judge("R07.a", "generate_code:run:nothing is emitted outside the region loop", not others and len({norm(em.order) for em in ems if em.order is not None}) <= 1,
              f"self.code also receives lines at {[norm(em.stmt)[:60] for em in others] or [norm(em.stmt)[:60] for em in ems]}", None, where)
    for em in ems:
        if explicit_main and em is not ordered[0]:
            continue      # the main entry has its own statement
        rows, free = emission_table(em)
        if not free:
            chk.judge("R07.a", "generate_code:run:the main region is always emitted", all(e for a, e in rows if a["M"] and not a["X"]),
                      f"under the guards {em.guard_text()} the main region is not emitted", None, where)
    # the condition under which a region is emitted
    emit_guard = ems[0].guard_text()
    # ------------------------------------------------------------ R07.b
    term = []
    for s in collect_sites(repo, ["generate_code"]):
        if s.fn is fn and s.opcodes is not TOP and s.opcodes and all(isinstance(o, str) and o in NO_FALL_THROUGH for o in s.opcodes):
            term.append(s)
    key = "generate_code:CompilerPassGatherCode.run:terminator after the main region"
    if not term:
        chk.bad("R07.b", key,
                "the main region is followed directly by the first function region: when the top-level code reaches its end the chip "
                "runs into that function's body (and its 'j ra' jumps to a stale or zero address)", {"region_guard": emit_guard}, where)
    else:
        ok = False
        for s in term:
            ids = live_ids(cfg, s.call)
            atoms = guard_atoms(cfg, ids[0]) if ids else []
            # appended for the main region (fname == "") or right after the first region
            if any(isinstance(t, ast.Compare) and isinstance(t.ops[0], ast.Eq) and p and any(isinstance(c, ast.Constant) and c.value == "" for c in t.comparators) for t, p in atoms):
                ok = True
        chk.judge("R07.b", key, ok, "a non-fall-through instruction is emitted, but not under the guard that selects the main region (fname == \"\")",
                  {"sites": [norm(s.call) for s in term]}, where)

    chk.guarded(r07c, repo, chk)
    chk.guarded(r07c_tail_kept, repo, chk)
    chk.rule("R07.g", "after the code of a function definition has been gathered, emission goes on where it was before (the target saved on entry is "
                      "restored): the rest of an enclosing function, its end label and its terminator belong to that function's region, not to the main code", floor=1)
    chk.guarded(r07g, repo, chk)
    chk.rule("R07.h", "a function can be called only after its definition has been visited (the table of known functions grows in visiting order): the gather "
                      "pass splices a once-called function into its call site and needs its code to exist then; a body gathered later stays behind the main code "
                      "without a terminator", floor=1)
    chk.guarded(r07h, repo, chk)
    chk.rule("R07.f", "an early return jumps to the end label of its own function: definition and reference of '<name>end' spell the module-qualified "
                      "name the same way, so the jump cannot land in (or fall through to) another function's region (shared with R05.d)", floor=6)
    from .shared import rule_function_labels
    chk.guarded(rule_function_labels, repo, chk, "R07.f")
    chk.rule("R07.i", "a loop is closed by its back jump: the jump to the loop head is emitted together with the loop and the exit label follows it, so the end of "
                      "a top-level 'while True:' is never reached by running off the loop body into the first function (shared with R01.e / R05.c)", floor=9)
    from .shared import rule_loop_labels
    chk.guarded(rule_loop_labels, repo, chk, "R07.i")
    chk.rule("R07.j", "a function body is left through the return address of the call that entered it: ra is saved and restored around inner calls in both "
                      "conventions and 'pop ra' never takes a pushed return value for the address, otherwise 'j ra' jumps into the body of some other function "
                      "(shared with R06.c/d/f/i)", floor=6)
    from .c06 import r06cdf
    chk.shared({"R06.c": "R07.j", "R06.d": "R07.j", "R06.f": "R07.j", "R06.i": "R07.j"}, r06cdf, repo, chk)


# ---------------------------------------------------------------------- R07.c
def r07c(repo: Repo, chk: Check, R="R07.c"):
    g = repo.mod("generate_code")
    cf = g.func(f"{GEN_CLASS}.compile_function")
    chk.saw("generate_code", cf.qual)
    ccfg, crd = fn_ctx(cf)
    sites = sorted([s for s in collect_sites(repo, ["generate_code"]) if s.fn is cf and s.section == "end" and s.how == "add"], key=lambda s: s.call.lineno)
    labels = [s for s in sites if s.opcodes is not TOP and any(hasattr(o, "endswith") and o.endswith("end:") for o in s.opcodes)]
    finals = [s for s in sites if s.opcodes is not TOP and s.opcodes and all(isinstance(o, str) and o in NO_FALL_THROUGH for o in s.opcodes)]
    wherec = f"{g.path}:{cf.lineno} in {cf.qual}"
    if not labels:
        raise AnalysisError("compile_function: definition of the '<name>end:' label not found")
    chk.judge(R, "generate_code:compile_function:a terminator follows the end label", bool(finals) and all(f.call.lineno > labels[0].call.lineno for f in finals),
              "no non-fall-through instruction is added after the function's end label", None, wherec)
    for f in finals:
        ids = live_ids(ccfg, f.call)
        if not ids:
            continue
        # the enclosing if-test decides when the terminator is emitted
        par = f.call
        while par is not None and not isinstance(par, ast.If):
            par = getattr(par, "parent", None)
        if par is None or enclosing_def(par) is not cf:
            chk.ok(R, "generate_code:compile_function:terminator is unconditional", None)
            continue
        conj = par.test.values if isinstance(par.test, ast.BoolOp) and isinstance(par.test.op, ast.And) else [par.test]
        tid = live_ids(ccfg, par.test)[0]
        # the 'not inlined' half of the condition must speak about the function being compiled, on every path
        from ..origin import Origin
        o = Origin(cf)
        for c in conj:
            for a in ast.walk(c):
                if isinstance(a, ast.Attribute) and a.attr in ("is_read", "can_inline"):
                    tg = o.tags(a.value, tid)
                    own = bool(tg) and all(x.startswith("param:") for x in tg)
                    chk.judge(R, "generate_code:compile_function:the final 'j ra' is decided by the call count of the function being compiled", own,
                              f"the condition of the final 'j ra' reads {norm(a)}, and on some path {norm(a.value)} is not the symbol of the function being compiled "
                              f"(it derives from {sorted(tg)}): the function can lose its 'j ra' because of another function's call count and fall into the next region",
                              {"origins": sorted(tg)}, wherec)
        # names: the tail-call flag and predicates about early returns
        for c in conj:
            names = [n.id for n in ast.walk(c) if isinstance(n, ast.Name)]
            if not any("tail" in n for n in names):
                continue  # the inlining predicate (judged by C02)
            ov_base = {}
            for n in names:
                if "tail" in n:
                    continue
                ds = crd.at(tid, n)

                def about_returns(d):
                    # any(... nodes_of_class(Return) ...), or a flag raised inside a loop over the Return nodes
                    if d.value is None:
                        return False
                    if "Return" in norm(d.value):
                        return True
                    if isinstance(d.value, ast.Constant) and isinstance(d.value.value, bool):
                        if d.value.value is False:
                            return True
                        p_ = ccfg.nodes[d.node].ast
                        while p_ is not None and p_ is not cf:
                            if isinstance(p_, ast.For) and "Return" in norm(p_.iter):
                                return True
                            p_ = getattr(p_, "parent", None)
                    return False
                if ds and all(about_returns(d) for d in ds) and any(not (isinstance(d.value, ast.Constant) and d.value.value is False) for d in ds):
                    ov_base[n] = S(True)  # 'the function has an early return'
            # the predicate written out inside the condition: any(<... Return ...>)
            for sub in ast.walk(c):
                if isinstance(sub, ast.Call) and isinstance(sub.func, ast.Name) and sub.func.id == "any" and "Return" in norm(sub):
                    ov_base[norm(sub)] = S(True)
            tail = [n for n in names if "tail" in n]
            # the function is emitted as a region of its own (the case in which a terminator is needed at all): it is called more than once / cannot be inlined
            for a in ast.walk(c):
                if isinstance(a, ast.Attribute) and a.attr == "is_read":
                    ov_base[norm(a)] = S(2)
                if isinstance(a, ast.Attribute) and a.attr == "can_inline":
                    ov_base[norm(a)] = S(False)
                if isinstance(a, ast.Attribute) and a.attr == "inline_functions":
                    ov_base[norm(a)] = S(True)
            verdicts = {}
            for tv in (False, True):
                ov = dict(ov_base)
                for n in tail:
                    ov[n] = S(tv)
                fe = FnEval(repo, g, cf, ov)
                v = fe.eval(c, tid)
                verdicts[tv] = None if v is TOP or not v else all(bool(x) for x in v)
            if None in verdicts.values():
                chk.unresolved(R, "generate_code:compile_function:the end label is terminated also under tail-call optimisation",
                               f"the condition {norm(c)} of the final terminator could not be evaluated for a function with an early return", wherec)
                continue
            chk.judge(R, "generate_code:compile_function:the end label is terminated also under tail-call optimisation", verdicts.get(True) is True and verdicts.get(False) is True,
                      f"with an early return present, the terminator after the end label is emitted: without tail call {verdicts.get(False)}, with tail call {verdicts.get(True)} "
                      f"(condition {norm(c)}): an early 'return' jumps to the end label and falls into the next function", {"condition": norm(c), "verdicts": {str(k): v for k, v in verdicts.items()}}, wherec)


# ---------------------------------------------------------------------- R07.c (regions are not cut after they were compiled)
def r07c_tail_kept(repo: Repo, chk: Check, R="R07.c"):
    """After compile_function has closed a region with its terminator, no later pass takes instructions off its end."""
    g = repo.mod("generate_code")
    cp = repo.mod("compile_pass")
    n = 0
    for m, quals in ((g, [q for q in g.funcs if q.startswith("CompilerPassGatherCode.")]), (cp, [q for q in cp.funcs if q.startswith("FunctionData.")])):
        for q in quals:
            fn = m.funcs[q]
            cfg, rd = fn_ctx(fn)

            def is_region(e, at, depth=0):
                """<x>.code of a FunctionData (func.code, self.code inside FunctionData) or a local bound to it"""
                if isinstance(e, ast.Attribute) and e.attr == "code" and not (m is g and norm(e) == "self.code"):
                    return True
                if isinstance(e, ast.Name) and depth < 4:
                    ids = live_ids(cfg, at)
                    ds = rd.at(ids[0], e.id) if ids else []
                    return bool(ds) and all(d.kind == "assign" and not d.index and d.value is not None and is_region(d.value, cfg.nodes[d.node].ast, depth + 1) for d in ds)
                return False

            def from_end(ix):
                if isinstance(ix, ast.UnaryOp) and isinstance(ix.op, ast.USub) and isinstance(ix.operand, ast.Constant):
                    return True
                if isinstance(ix, ast.Slice) and ix.upper is None and ix.lower is not None:
                    return True
                return False
            for st in ast.walk(fn):
                cut = None
                if isinstance(st, ast.Delete):
                    for t in st.targets:
                        if isinstance(t, ast.Subscript) and is_region(t.value, st) and from_end(t.slice):
                            cut = norm(st)
                elif isinstance(st, ast.Expr) and isinstance(st.value, ast.Call) and isinstance(st.value.func, ast.Attribute) and st.value.func.attr == "pop" \
                        and is_region(st.value.func.value, st) and (not st.value.args or from_end(st.value.args[0])):
                    cut = norm(st)
                elif isinstance(st, ast.Assign) and len(st.targets) == 1 and isinstance(st.targets[0], ast.Subscript) and is_region(st.targets[0].value, st) \
                        and from_end(st.targets[0].slice) and isinstance(st.value, (ast.List, ast.Tuple)) and not st.value.elts:
                    cut = norm(st)
                if cut:
                    n += 1
                    chk.bad(R, f"{m.name}:{q}:a compiled region keeps its last instruction",
                            f"'{cut[:60]}' takes the last instruction off a function's code after compile_function closed it with its terminator: when the body can still reach "
                            f"the end (an early return, a loop that is left by break) the function runs into whatever is emitted next", {"statement": cut[:120]}, f"{m.path}:{st.lineno} in {q}")
    if n == 0:
        chk.ok(R, "generate_code/compile_pass:no pass removes instructions from the end of a compiled region", None)


# ---------------------------------------------------------------------- R07.g
def r07g(repo: Repo, chk: Check, R="R07.g"):
    g = repo.mod("generate_code")
    fn = g.func("CompilerPassGatherCode.handle_node")
    chk.saw("generate_code", fn.qual)
    cfg, rd = fn_ctx(fn)
    where = f"{g.path}:{fn.lineno} in {fn.qual}"
    stores = [st for st in ast.walk(fn) if isinstance(st, ast.Assign) and any(norm(t) == "self._target" for t in st.targets)]
    gathers = [c for c in ast.walk(fn) if isinstance(c, ast.Call) and norm(c.func) == "self.gather_code"]
    if not stores or not gathers:
        raise AnalysisError("GatherCode.handle_node: the switch of the emission target / the call of gather_code was not found")
    gline = max(c.lineno for c in gathers)
    switches = [st for st in stores if st.lineno < gline]
    restores = [st for st in stores if st.lineno > gline]
    if not switches:
        raise AnalysisError("GatherCode.handle_node: no switch of self._target before gather_code")
    if not restores:
        chk.bad(R, "generate_code:GatherCode.handle_node:the emission target is restored after a function definition",
                "self._target is switched to the function's region and never switched back: everything after the definition is appended to that function", None, where)
        return
    for st in restores:
        v = st.value
        ids = live_ids(cfg, st)
        saved = False
        if isinstance(v, ast.Name):
            ds = rd.at(ids[0], v.id) if ids else []
            saved = bool(ds) and all(d.kind == "assign" and d.value is not None and norm(d.value) == "self._target" and cfg.nodes[d.node].ast.lineno < min(s_.lineno for s_ in switches) for d in ds)
            if not saved and ds:
                raise AnalysisError(f"GatherCode.handle_node: what {v.id} holds when it is restored was not understood")
        elif isinstance(v, ast.Subscript) and isinstance(v.slice, ast.Constant):
            saved = False     # a fixed region
        else:
            raise AnalysisError(f"GatherCode.handle_node: value restored into self._target not understood: {norm(v)[:60]}")
        chk.judge(R, "generate_code:GatherCode.handle_node:the emission target is restored after a function definition", saved,
                  f"after a function definition self._target becomes {norm(v)} instead of the target that was active before: for a function defined inside another function "
                  f"the rest of the outer body, its end label and its 'j ra' go to the main code, and the outer function's region is left without a terminator", None,
                  f"{g.path}:{st.lineno} in {fn.qual}")


# ---------------------------------------------------------------------- R07.h
def r07h(repo: Repo, chk: Check, R="R07.h"):
    cp = repo.mod("compile_pass")
    cls = cp.classes.get("CompilerPassCheckUsed")
    if cls is None:
        raise AnalysisError("anchor vanished: class CompilerPassCheckUsed")
    fills = []
    for q, fn in cp.funcs.items():
        if not q.startswith("CompilerPassCheckUsed."):
            continue
        for st in ast.walk(fn):
            tgt = None
            if isinstance(st, ast.Assign) and any(isinstance(t, ast.Subscript) and norm(t.value) == "self._functions" for t in st.targets):
                tgt = st
            if isinstance(st, ast.Expr) and isinstance(st.value, ast.Call) and isinstance(st.value.func, ast.Attribute) and norm(st.value.func.value) == "self._functions" \
                    and st.value.func.attr in ("setdefault", "update", "__setitem__"):
                tgt = st
            if tgt is not None:
                fills.append((fn, tgt))
    if not fills:
        raise AnalysisError("CheckUsed: no statement that registers a function definition (self._functions[...] = ...) found")
    for fn, st in fills:
        in_handler = fn.name.startswith("handle_")
        chk.judge(R, f"compile_pass:{fn.qual}:definitions are registered when they are visited", in_handler,
                  f"'{norm(st)[:70]}' in {fn.name}() registers function definitions ahead of the visit: a call of a function that is defined further down is accepted, and when that "
                  f"function is called once (inlined) the gather pass reaches the call before the function's code exists", None, f"{cp.path}:{st.lineno} in {fn.qual}")
