"""C05 — every jump lands on the instruction the source construct meant (R05.a–f)."""
from __future__ import annotations

import ast
import re
import string
from ..model import Repo, AnalysisError, norm, enclosing_def
from ..report import Check
from ..consteval import TOP, FnEval, Pattern, Hole
from ..emit import collect_sites, label_def
from .shared import (rule_loop_labels, rule_function_labels, fn_ctx, live_ids, guard_atoms, label_var_of, GEN_CLASS)

MARK = "LBL"


def rule_nearest_function(repo, chk, R):
    """'return' jumps to the end label of the function it stands in: get_function_parent walks the ancestors from the inside out and
    stops at the FIRST FunctionDef.  A walk that goes on (keeps the last match) yields the outermost def: a return inside a nested def jumps
    into the outer function's epilogue."""
    u = repo.mod("utils")
    fn = u.func("get_function_parent")
    chk.saw("utils", "get_function_parent")
    where = f"{u.path}:{fn.lineno} in get_function_parent"
    key = "utils:get_function_parent:the walk over the ancestors stops at the first enclosing def"
    loops = [lp for lp in ast.walk(fn) if isinstance(lp, (ast.For, ast.While))]
    if len(loops) != 1:
        chk.unresolved(R, key, f"expected one loop over the ancestors, found {len(loops)}", where)
        return
    lp = loops[0]
    inner_first = isinstance(lp, ast.While) or ("node_ancestors" in norm(lp.iter) or ".parent" in norm(lp.iter)) and not norm(lp.iter).startswith(("reversed(", "sorted(")) \
        and "[::-1]" not in norm(lp.iter)
    hits = [i for i in ast.walk(lp) if isinstance(i, ast.If) and any(isinstance(c, ast.Call) and norm(c.func) == "isinstance" and "FunctionDef" in norm(c) for c in ast.walk(i.test))]
    if not hits:
        chk.unresolved(R, key, "no test for FunctionDef inside the loop", where)
        return
    def leaves(stmts):
        return bool(stmts) and isinstance(stmts[-1], (ast.Return, ast.Break, ast.Raise))
    stops = all(leaves(i.body) or (i.orelse and not leaves(i.body) and False) for i in hits)
    chk.judge(R, key, stops and inner_first,
              "after a FunctionDef has been found among the ancestors the walk goes on" if not stops else f"the ancestors are visited in the order of {norm(lp.iter)}, not from the inside out",
              {"loop": norm(lp.iter) if isinstance(lp, ast.For) else norm(lp.test)}, where)


def run(repo: Repo, chk: Check):
    chk.rule("R05.a", "the pattern with which remove_labels substitutes a label delimits whole operand tokens with respect to the "
                      "label alphabet of the repository's own label constructors (letters, digits, '_', '.'); the labelled mode "
                      "compares whole tokens", floor=3)
    chk.rule("R05.b", "per handler, every label variable that is referenced (operand of an emitted instruction or continue/break "
                      "label) is defined by exactly one label-definition site, and no label variable is defined twice", floor=10)
    chk.rule("R05.c", "every loop lowering sets its continue and break labels before compiling the body; continue reaches the "
                      "step code; the break label follows the back jump", floor=9)
    chk.rule("R05.d", "every construction of a function's label applies the same transformation to the qualified function name, "
                      "and the '<name>end' label is spelled the same by its definition, its references and the ra logic", floor=6)
    chk.rule("R05.e", "get_label advances the shared counter on every call, every name it returns contains the counter, and no "
                      "prefix ends in a digit (so two calls can never return the same name)", floor=3)
    chk.rule("R05.f", "remove_labels maps a label to the index of the instruction that follows it and substitutes every label in "
                      "every remaining line with the same pattern for search and replacement", floor=4)
    chk.rule("R05.i", "the substitution of labels touches operands only: text in quotes (HASH(\"...\"), STR(\"...\")) is never rewritten, whatever the "
                      "functions of the program are called", floor=1)
    chk.guarded(r05a, repo, chk)
    chk.guarded(r05b, repo, chk)
    chk.guarded(rule_loop_labels, repo, chk, "R05.c")
    chk.guarded(rule_function_labels, repo, chk, "R05.d")
    chk.guarded(rule_nearest_function, repo, chk, "R05.d")
    chk.guarded(r05e, repo, chk)
    chk.guarded(r05f, repo, chk)
    chk.rule("R05.j", "once remove_labels has turned labels into line numbers the listing keeps its line count: nothing inserts or removes a line afterwards, "
                      "otherwise every jump lands one line off", floor=1)
    chk.guarded(r05j, repo, chk)
    chk.rule("R05.g", "a stack kept by a pass while it compiles a construct (pushed in a handler, read as <stack>[-1] by break/continue or nested "
                      "constructs) is popped on every path to the handler's return", floor=1)
    from .shared import rule_stack_balance
    chk.guarded(rule_stack_balance, repo, chk, "R05.g")
    chk.rule("R05.h", "the ra logic restores ra behind the function's OWN end label: of the labels ending in '<name>end:' it keeps the last one, because an inlined "
                      "callee whose name ends in the caller's name leaves its end label inside the caller (shared with R06.f)", floor=1)
    from .c06 import r06k
    chk.guarded(r06k, repo, chk, "R05.h")


# ---------------------------------------------------------------------- alphabet
def label_alphabet(repo: Repo):
    """Characters that can occur in a label, from the label constructors."""
    g = repo.mod("generate_code")
    chars = set(string.ascii_letters + string.digits)  # identifiers and the counter
    prefixes = []
    for c in ast.walk(g.tree):
        if isinstance(c, ast.Call) and isinstance(c.func, ast.Attribute) and c.func.attr == "get_label":
            for a in c.args:
                if isinstance(a, ast.Constant) and isinstance(a.value, str):
                    prefixes.append(a.value)
                    chars |= set(a.value)
        # <name>.replace("_", ".")
        if isinstance(c, ast.Call) and isinstance(c.func, ast.Attribute) and c.func.attr == "replace" and len(c.args) == 2 \
                and all(isinstance(a, ast.Constant) and isinstance(a.value, str) for a in c.args):
            chars |= set(c.args[1].value)
            if c.args[0].value != "_":
                chars.add("_")
    # identifiers may contain '_' unless every constructor maps it away; user-written @emit_code labels may too
    chars.add("_")
    return chars, prefixes


# ---------------------------------------------------------------------- R05.a
def _pattern_templates(fn, cfg, rd):
    """(template string, how, node) for every regex pattern built in remove_labels."""
    out = []
    for c in ast.walk(fn):
        if isinstance(c, ast.Call) and isinstance(c.func, ast.Attribute) and c.func.attr == "format" and isinstance(c.func.value, ast.Constant) \
                and isinstance(c.func.value.value, str) and c.args and "escape" in norm(c.args[0]):
            out.append((c.func.value.value.replace("{}", MARK).replace("{0}", MARK), "format", c))
        if isinstance(c, ast.JoinedStr) and any(isinstance(v, ast.FormattedValue) and "escape" in norm(v.value) for v in c.values):
            t = ""
            for v in c.values:
                t += v.value if isinstance(v, ast.Constant) else MARK
            out.append((t, "fstring", c))
        if isinstance(c, ast.BinOp) and isinstance(c.op, ast.Add) and "escape" in norm(c) and not isinstance(getattr(c, "parent", None), ast.BinOp):
            parts = []

            def flat(e):
                if isinstance(e, ast.BinOp) and isinstance(e.op, ast.Add):
                    flat(e.left)
                    flat(e.right)
                elif isinstance(e, ast.Constant) and isinstance(e.value, str):
                    parts.append(e.value)
                else:
                    parts.append(MARK)
            flat(c)
            out.append(("".join(parts), "concat", c))
    return out


def _rewrite_group(fn):
    """How re.sub's replacement treats a match: None = every match is rewritten; k = only matches in which group k took part
    (replacement  lambda m: R if m.group(k) else m.group(0));  raises AnalysisError for any other callable."""
    ks = set()
    for c in ast.walk(fn):
        if isinstance(c, ast.Call) and (norm(c.func) == "re.sub" or isinstance(c.func, ast.Attribute) and c.func.attr == "sub") and len(c.args) >= 2:
            rep = c.args[1] if norm(c.func) == "re.sub" else c.args[0]
            if isinstance(rep, ast.Lambda):
                b = rep.body
                par = rep.args.args[0].arg if rep.args.args else None
                if isinstance(b, ast.IfExp) and isinstance(b.test, ast.Call) and norm(b.test.func) == f"{par}.group" and b.test.args \
                        and isinstance(b.test.args[0], ast.Constant) and isinstance(b.test.args[0].value, int) and norm(b.orelse) == f"{par}.group(0)":
                    ks.add(b.test.args[0].value)
                else:
                    raise AnalysisError(f"remove_labels: replacement function {norm(rep)[:70]} not understood")
            else:
                ks.add(None)
    if len(ks) > 1:
        raise AnalysisError("remove_labels: substitutions with different replacement disciplines")
    return next(iter(ks)) if ks else None


def _hits(rx, k, text):
    """matches of rx in text that the substitution rewrites and that contain the label"""
    return [m for m in rx.finditer(text) if MARK in m.group(0) and (k is None or (k <= rx.groups and m.group(k)))]


def r05a(repo, chk):
    g = repo.mod("generate_code")
    qual = "CompilerPassGatherCode.remove_labels"
    fn = g.func(qual)
    chk.saw("generate_code", qual)
    cfg, rd = fn_ctx(fn)
    alphabet, prefixes = label_alphabet(repo)
    temps = _pattern_templates(fn, cfg, rd)
    uses_re = [c for c in ast.walk(fn) if isinstance(c, ast.Call) and norm(c.func) in ("re.sub", "re.search", "re.match", "re.subn", "re.compile")]
    where = f"{g.path}:{fn.lineno} in {qual}"
    if not temps and uses_re:
        raise AnalysisError("remove_labels uses re but the pattern template was not recognised")
    if not temps:
        # token-equality implementation: accepted form
        toks = [c for c in ast.walk(fn) if isinstance(c, ast.Call) and isinstance(c.func, ast.Attribute) and c.func.attr == "split"]
        chk.judge("R05.a", "generate_code:remove_labels:substitution by token equality", bool(toks),
                  "remove_labels neither uses a delimiting regex nor splits lines into tokens", None, where)
    for templ, how, node in temps:
        key = f"generate_code:remove_labels:pattern template ({how})"
        try:
            rx = re.compile(templ)
            tree = re._parser.parse(templ)
        except re.error as e:
            chk.bad("R05.a", key, f"pattern template {templ!r} is not a valid regex: {e}", None, f"{g.path}:{node.lineno}")
            continue
        structure = [str(op) for op, _ in tree.data]
        k = _rewrite_group(fn)
        bad = []
        for ch in sorted(alphabet):
            if _hits(rx, k, MARK + ch) or _hits(rx, k, "j " + MARK + ch + " x"):
                bad.append(f"matches inside '{MARK}{ch}...'")
            if _hits(rx, k, ch + MARK) or _hits(rx, k, "j x" + ch + MARK):
                bad.append(f"matches inside '...{ch}{MARK}'")
        must = [MARK, "j " + MARK, "  beq r0 r1 " + MARK, "jal " + MARK + " # c", 'beq r0 HASH("x") ' + MARK]
        miss = [m for m in must if not _hits(rx, k, m)]
        # quoted text is data: the name of a device or prefab whose hash the game computes from exactly these characters
        quoted = ['s db Setting HASH("' + MARK + '")', 's db Setting HASH("my ' + MARK + ' x")', 'move r0 STR("' + MARK + '")']
        inside = [q for q in quoted if _hits(rx, k, q)]
        chk.judge("R05.i", f"generate_code:remove_labels:pattern template ({how}) leaves quoted text alone", not inside,
                  f"pattern {templ!r} also rewrites a label name inside a quoted string ({inside[0] if inside else ''}): with remove_labels a function named 'update' turns "
                  f"HASH(\"update\") into HASH(\"3\"), the hash of another name", {"template": templ, "rewrites_group": k},
                  f"{g.path}:{node.lineno} in {qual}")
        chk.judge("R05.a", key, not bad and not miss,
                  f"pattern {templ!r} does not delimit whole labels: {bad[:4]}{' ...' if len(bad) > 4 else ''}"
                  f"{'; fails to match a whole-token label in ' + repr(miss) if miss else ''} "
                  f"(labels contain {''.join(sorted(c for c in alphabet if not c.isalnum()))!r}: e.g. label 'update' inside 'update.display')",
                  {"template": templ, "regex_ast": structure, "alphabet_specials": "".join(sorted(c for c in alphabet if not c.isalnum())),
                   "prefixes": prefixes}, f"{g.path}:{node.lineno} in {qual}")
    # labelled mode: remove_unused_labels compares whole tokens
    ru = g.func("remove_unused_labels")
    chk.saw("generate_code", "remove_unused_labels")
    ins = [c for c in ast.walk(ru) if isinstance(c, ast.Compare) and len(c.ops) == 1 and isinstance(c.ops[0], (ast.In, ast.Eq))
           and isinstance(c.left, ast.Name) and isinstance(c.comparators[0], ast.Name)]
    cfg2, rd2 = fn_ctx(ru)
    ok = False
    detail = []

    def whole_line(v):
        # <line>.split()  /  <line>.strip().split(): all tokens of the line, nothing cut away
        if not (isinstance(v, ast.Call) and isinstance(v.func, ast.Attribute) and v.func.attr == "split" and not v.args):
            return False
        r = v.func.value
        if isinstance(r, ast.Call) and isinstance(r.func, ast.Attribute) and r.func.attr in ("strip", "rstrip", "lstrip") and not r.args:
            r = r.func.value
        return isinstance(r, ast.Name)

    ELEM = {"tokens": "token", "lines_tokens": "tokens"}

    def kind_of_expr(e, depth=0):
        """'tokens' (all tokens of one line), 'lines_tokens' (that for every line), 'token' (one whole token) or None."""
        if depth > 6:
            return None
        if whole_line(e):
            return "tokens"
        if isinstance(e, (ast.ListComp, ast.GeneratorExp)) and len(e.generators) == 1 and not e.generators[0].ifs and whole_line(e.elt):
            return "lines_tokens"
        if isinstance(e, ast.Name):
            return kind_of_name(e, depth + 1)
        return None

    def kind_of_name(nm, depth=0):
        # bound by an enclosing comprehension?
        p = getattr(nm, "parent", None)
        while p is not None and p is not ru:
            if isinstance(p, (ast.ListComp, ast.SetComp, ast.GeneratorExp, ast.DictComp)):
                for gen in p.generators:
                    if isinstance(gen.target, ast.Name) and gen.target.id == nm.id:
                        return ELEM.get(kind_of_expr(gen.iter, depth + 1))
            p = getattr(p, "parent", None)
        ids = live_ids(cfg2, nm)
        ds = rd2.at(ids[0], nm.id) if ids else []
        kinds = set()
        for d in ds:
            if d.kind == "assign" and not d.index and d.value is not None:
                kinds.add(kind_of_expr(d.value, depth + 1))
            elif d.kind == "for" and d.value is not None and not d.index:
                kinds.add(ELEM.get(kind_of_expr(d.value, depth + 1)))
            else:
                kinds.add(None)
        return kinds.pop() if len(kinds) == 1 else None

    for c in ins:
        lk, rk = kind_of_name(c.left), kind_of_name(c.comparators[0])
        if isinstance(c.ops[0], ast.In) and (rk == "tokens" or (lk == "token" and rk is None)):
            ok = True          # label in <tokens of the line>   /   <token> in <set of labels>
        elif isinstance(c.ops[0], ast.Eq) and "token" in (lk, rk):
            ok = True
        else:
            ids = live_ids(cfg2, c)
            ds = rd2.at(ids[0], c.comparators[0].id) if ids else []
            if ds:
                detail.append("tokens = " + "; ".join(norm(d.value) for d in ds if d.value is not None))
        detail.append(norm(c))
    # set form: unused = defined - {token for tokens in tokenized for token in tokens}
    def is_token_set(e, depth=0):
        if depth > 4:
            return False
        if isinstance(e, (ast.SetComp, ast.ListComp, ast.GeneratorExp)) and isinstance(e.elt, ast.Name):
            return kind_of_name(e.elt) == "token"
        if isinstance(e, ast.Call) and norm(e.func) in ("set", "frozenset") and len(e.args) == 1:
            return is_token_set(e.args[0], depth + 1)
        if isinstance(e, ast.Name):
            ids = live_ids(cfg2, e)
            ds = rd2.at(ids[0], e.id) if ids else []
            return bool(ds) and all(d.kind == "assign" and not d.index and d.value is not None and is_token_set(d.value, depth + 1) for d in ds)
        return False
    for e in ast.walk(ru):
        if isinstance(e, ast.BinOp) and isinstance(e.op, ast.Sub) and is_token_set(e.right):
            ok = True
            detail.append(norm(e))
        if isinstance(e, ast.Call) and isinstance(e.func, ast.Attribute) and e.func.attr in ("difference", "isdisjoint", "intersection") and e.args and is_token_set(e.args[0]):
            ok = True
            detail.append(norm(e))
    uses_re2 = [c for c in ast.walk(ru) if isinstance(c, ast.Call) and norm(c.func).startswith("re.")]
    substr = [c for c in ast.walk(ru) if isinstance(c, ast.Compare) and isinstance(c.ops[0], ast.In) and isinstance(c.comparators[0], ast.Name)
              and c.comparators[0].id in ("line", "code")]
    chk.judge("R05.a", "generate_code:remove_unused_labels:label use is decided on whole tokens", ok and not uses_re2 and not substr,
              f"remove_unused_labels decides whether a label is used by {detail or 'an unrecognised test'}: it must compare the label with all whitespace-separated tokens of "
              f"the whole line (substring / regex tests confuse 'update' with 'update.display'; cutting the line at '#' loses operands after HASH(\"a #1\"))",
              {"tests": detail}, f"{g.path}:{ru.lineno} in remove_unused_labels")
    # the definition test of both functions looks at the whole line / token
    for f, q in ((fn, qual), (ru, "remove_unused_labels")):
        ends = [c for c in ast.walk(f) if isinstance(c, ast.Call) and isinstance(c.func, ast.Attribute) and c.func.attr == "endswith"
                and c.args and isinstance(c.args[0], ast.Constant) and c.args[0].value == ":"]
        chk.judge("R05.a", f"generate_code:{q}:label definitions are recognised by the trailing ':'", bool(ends),
                  "no test for a trailing ':' found", None, f"{g.path}:{f.lineno} in {q}")


# ---------------------------------------------------------------------- R05.b
def r05b(repo, chk):
    g = repo.mod("generate_code")
    sites = collect_sites(repo, ["generate_code"])
    n_vars = 0
    for fn in g.funcs.values():
        if not (fn.qual.startswith(GEN_CLASS + ".")):
            continue
        cfg, rd = fn_ctx(fn)
        lvars = {}
        for d in rd.all_defs:
            if d.kind == "assign" and isinstance(d.value, ast.Call) and norm(d.value.func).endswith("get_label"):
                lvars.setdefault(d.name, []).append(d)
        if not lvars:
            continue
        chk.saw("generate_code", fn.qual)
        mine = [s for s in sites if s.fn is fn]
        for var, ds in sorted(lvars.items()):
            n_vars += 1
            defs = [s for s in mine if label_var_of(s) == var]
            refs = [s for s in mine if any(isinstance(e, ast.Name) and e.id == var for e in s.input_exprs)]
            stored = [st for st in ast.walk(fn) if isinstance(st, ast.Assign) and isinstance(st.value, ast.Name) and st.value.id == var
                      and any(isinstance(t, ast.Attribute) and t.attr in ("start_label", "end_label") for t in st.targets)]
            passed = [c for c in ast.walk(fn) if isinstance(c, ast.Call) and not norm(c.func).endswith(("IC10", "IC10Instruction"))
                      and any(isinstance(a, ast.Name) and a.id == var for a in c.args) and norm(c.func) != "IC10"]
            passed = [c for c in passed if not any(c is s.call for s in mine)]
            referenced = bool(refs or stored or passed)
            key = f"generate_code:{fn.qual}:label {var}"
            where = f"{g.path}:{fn.lineno} in {fn.qual}"
            if len(defs) > 1:
                chk.bad("R05.b", key, f"label {var} is defined at {len(defs)} sites: a jump to it is ambiguous", {"defs": [norm(s.call) for s in defs]}, where)
            elif referenced and len(defs) == 0:
                chk.bad("R05.b", key, f"label {var} is referenced ({len(refs)} operand use(s), {len(stored)} loop-label store(s)) but never defined",
                        None, where)
            else:
                # the definition must not sit in a loop of the handler (defined once per construct)
                in_loop = False
                for s in defs:
                    p = s.call
                    while p is not None and p is not fn:
                        if isinstance(p, (ast.For, ast.While)):
                            in_loop = True
                        p = getattr(p, "parent", None)
                chk.judge("R05.b", key, not in_loop, f"label {var} is defined inside a Python loop of the handler: once per iteration",
                          {"defs": len(defs), "refs": len(refs), "stores": len(stored)}, where)
    if n_vars < 10:
        raise AnalysisError(f"R05.b: only {n_vars} label variables found (expected >= 10)")


# ---------------------------------------------------------------------- R05.e
def r05e(repo, chk):
    g = repo.mod("generate_code")
    qual = f"{GEN_CLASS}.get_label"
    fn = g.func(qual)
    chk.saw("generate_code", qual)
    cfg, rd = fn_ctx(fn)
    where = f"{g.path}:{fn.lineno} in {qual}"
    incs = [n for n in cfg.nodes if n.kind == "stmt" and isinstance(n.ast, ast.AugAssign) and isinstance(n.ast.op, ast.Add)
            and isinstance(n.ast.value, ast.Constant) and n.ast.value.value >= 1 and isinstance(n.ast.target, ast.Attribute)]
    rets = [n.id for n in cfg.nodes if n.kind == "return" and n.id in cfg.reachable()]
    dom = cfg.dominators()
    counter = norm(incs[0].ast.target) if incs else None
    ok = bool(incs) and all(any(i.id in dom.get(r, set()) for i in incs) for r in rets)
    chk.judge("R05.e", "generate_code:get_label:counter advances on every call", ok,
              "get_label can return without having advanced the shared counter: two constructs receive the same label", {"counter": counter}, where)
    # every produced name contains the counter
    fstrs = [j for j in ast.walk(fn) if isinstance(j, ast.JoinedStr)]

    def is_counter(v, at):
        """the counter itself, or a local that holds the counter's value after the increment"""
        if norm(v) == counter:
            return True
        if isinstance(v, ast.Name):
            ids = live_ids(cfg, at)
            ds = rd.at(ids[0], v.id) if ids else []
            return bool(ds) and all(d.kind == "assign" and not d.index and d.value is not None and norm(d.value) == counter
                                    and any(i.id in dom.get(d.node, set()) for i in incs) for d in ds)
        return False
    okn = bool(fstrs) and counter is not None and all(any(isinstance(v, ast.FormattedValue) and is_counter(v.value, j) for v in j.values) for j in fstrs)
    # names built by concatenation: "lb" + prefix + str(counter)
    concats = [b for b in ast.walk(fn) if isinstance(b, ast.BinOp) and isinstance(b.op, ast.Add) and not (isinstance(getattr(b, "parent", None), ast.BinOp) and isinstance(b.parent.op, ast.Add))
               and any(isinstance(x, ast.Constant) and isinstance(x.value, str) for x in ast.walk(b))]
    if concats and counter is not None:
        def has_counter(b):
            for x in ast.walk(b):
                if isinstance(x, ast.Call) and norm(x.func) in ("str", "format", "repr") and x.args and is_counter(x.args[0], b):
                    return True
                if isinstance(x, ast.FormattedValue) and is_counter(x.value, b):
                    return True
            return False
        okc = all(has_counter(b) for b in concats)
        okn = okc and (okn or not fstrs)
        fstrs = fstrs + concats
    chk.judge("R05.e", "generate_code:get_label:every name contains the counter", okn,
              f"a label name is built without the counter {counter}", {"names": [norm(j) for j in fstrs]}, where)
    # the counter is shared only with get_register_name/get_constant_name, which also advance it
    others = []
    for f2 in g.funcs.values():
        if f2 is fn or not f2.qual.startswith(GEN_CLASS + "."):
            continue
        for st in ast.walk(f2):
            if isinstance(st, ast.Assign) and any(norm(t) == counter for t in st.targets) and f2.name != "__init__":
                others.append(f"{f2.qual}: {norm(st)}")
            if isinstance(st, ast.AugAssign) and norm(st.target) == counter and not (isinstance(st.op, ast.Add) and isinstance(st.value, ast.Constant) and st.value.value >= 1):
                others.append(f"{f2.qual}: {norm(st)}")
    chk.judge("R05.e", "generate_code:counter is never reset or decreased", not others, f"the label counter is modified by {others}", None, str(g.path))
    _, prefixes = label_alphabet(repo)
    bad = [p for p in prefixes if p and p[-1].isdigit()]
    chk.judge("R05.e", "generate_code:get_label prefixes do not end in a digit", not bad,
              f"prefix(es) {bad} end in a digit: 'lb<prefix><counter>' of two calls can coincide", {"prefixes": sorted(set(prefixes))}, str(g.path))


# ---------------------------------------------------------------------- R05.f
def r05f(repo, chk):
    g = repo.mod("generate_code")
    qual = "CompilerPassGatherCode.remove_labels"
    fn = g.func(qual)
    cfg, rd = fn_ctx(fn)
    where = f"{g.path}:{fn.lineno} in {qual}"
    # label_map[label] = len(new_code)   in the branch that does not append the line
    stores = [st for st in ast.walk(fn) if isinstance(st, ast.Assign) and any(isinstance(t, ast.Subscript) and isinstance(t.value, ast.Name) for t in st.targets)
              and enclosing_def(st) is fn]
    map_stores = []
    for st in stores:
        t = st.targets[0]
        if isinstance(t, ast.Subscript) and isinstance(t.slice, ast.Name) and "label" in t.slice.id:
            map_stores.append(st)
    if not map_stores:
        # the key written as an expression (the line without its colon): the table is the one whose entries are read back with .items() / [..] for the substitution
        read_back = {norm(c.func.value) for c in ast.walk(fn) if isinstance(c, ast.Call) and isinstance(c.func, ast.Attribute) and c.func.attr == "items"}
        map_stores = [st for st in stores if isinstance(st.targets[0], ast.Subscript) and norm(st.targets[0].value) in read_back
                      and (isinstance(st.value, ast.Name) or isinstance(st.value, ast.Call) and norm(st.value.func) == "len")]
    if len(map_stores) != 1:
        raise AnalysisError(f"remove_labels: expected one store label_map[label] = ..., found {len(map_stores)}")
    st = map_stores[0]
    mapname = st.targets[0].value.id
    v = st.value
    ok_val = isinstance(v, ast.Call) and norm(v.func) == "len" and len(v.args) == 1 and isinstance(v.args[0], ast.Name)
    listname = v.args[0].id if ok_val else None
    if not ok_val and isinstance(v, ast.Name):
        # a counter that is incremented exactly where lines are appended
        listname = None
        incs = [a for a in ast.walk(fn) if isinstance(a, ast.AugAssign) and norm(a.target) == v.id and isinstance(a.op, ast.Add)
                and isinstance(a.value, ast.Constant) and a.value.value == 1]
        for a in incs:
            sib = getattr(a, "parent", None)
            body = None
            for fld in ("body", "orelse"):
                if a in getattr(sib, fld, []):
                    body = getattr(sib, fld)
            if body and any(isinstance(x, ast.Expr) and isinstance(x.value, ast.Call) and norm(x.value.func).endswith(".append") for x in body) and len(incs) == 1:
                ok_val = True
                listname = norm([x for x in body if isinstance(x, ast.Expr) and isinstance(x.value, ast.Call) and norm(x.value.func).endswith(".append")][0].value.func.value)
    chk.judge("R05.f", "generate_code:remove_labels:label -> index of the following instruction", ok_val,
              f"label_map value is {norm(v)}: expected the number of instruction lines kept so far (len of the new code list)", {"value": norm(v)},
              f"{g.path}:{st.lineno} in {qual}")
    # the store and the append are in opposite branches of one if (a label line is not kept, an instruction line is)
    iff = getattr(st, "parent", None)
    ok_branch = False
    if isinstance(iff, ast.If) and listname:
        other = iff.orelse if st in iff.body else iff.body
        mine = iff.body if st in iff.body else iff.orelse
        app_other = any(isinstance(x, ast.Expr) and isinstance(x.value, ast.Call) and norm(x.value.func) == f"{listname}.append" for x in other)
        app_mine = any(isinstance(x, ast.Expr) and isinstance(x.value, ast.Call) and norm(x.value.func) == f"{listname}.append" for x in mine)
        ok_branch = app_other and not app_mine
    chk.judge("R05.f", "generate_code:remove_labels:label lines are dropped, all other lines are kept in order", ok_branch,
              "the branch that records a label also keeps the line, or the other branch does not append the line", None, where)
    # substitution loop: for every kept line, for every label: search and sub with the same pattern
    # re.sub(p, ..) / re.search(p, ..)  and  <compiled>.sub(..) / <compiled>.search(..): normalised to (call, pattern source, remaining args)
    def compiled_source(e, at, depth=0):
        """the expression handed to re.compile that *e* (a name, possibly a loop variable over a list of compiled patterns) stands for"""
        if depth > 5:
            return None
        if isinstance(e, ast.Call) and norm(e.func) == "re.compile" and e.args:
            return e.args[0]
        if isinstance(e, ast.Subscript) and isinstance(e.value, ast.Name):
            # TABLE[label] with TABLE = {label: re.compile(..) for label in ..}
            ids = live_ids(cfg, at)
            ds = rd.at(ids[0], e.value.id) if ids else []
            if len(ds) == 1 and ds[0].kind == "assign" and isinstance(ds[0].value, ast.DictComp):
                return compiled_source(ds[0].value.value, cfg.nodes[ds[0].node].ast, depth + 1)
            return None
        if isinstance(e, ast.Name):
            ids = live_ids(cfg, at)
            ds = rd.at(ids[0], e.id) if ids else []
            srcs = []
            for d in ds:
                v = d.value
                if d.kind == "assign" and v is not None and not d.index:
                    srcs.append(compiled_source(v, cfg.nodes[d.node].ast, depth + 1))
                elif d.kind == "for" and v is not None:
                    it = v
                    if isinstance(it, ast.Name):
                        ids2 = live_ids(cfg, cfg.nodes[d.node].ast) or ids
                        d2 = rd.at(ids2[0], it.id)
                        it = d2[0].value if len(d2) == 1 and d2[0].kind == "assign" else None
                    if isinstance(it, ast.Call) and norm(it.func) in ("list", "tuple") and it.args:
                        it = it.args[0]
                    if isinstance(it, (ast.ListComp, ast.GeneratorExp)):
                        elt = it.elt
                        for i_ in (d.index or ()):
                            elt = elt.elts[i_] if isinstance(elt, ast.Tuple) and i_ < len(elt.elts) else None
                            if elt is None:
                                break
                        srcs.append(compiled_source(elt, cfg.nodes[d.node].ast, depth + 1) if elt is not None else None)
                    else:
                        srcs.append(None)
                else:
                    srcs.append(None)
            if srcs and all(x is not None for x in srcs) and len({norm(x) for x in srcs}) == 1:
                return srcs[0]
        return None

    class _RC:
        def __init__(self, call, pat, rest):
            self.call, self.args, self.lineno = call, [pat] + list(rest), call.lineno

    subs, searches = [], []
    for c in ast.walk(fn):
        if not isinstance(c, ast.Call):
            continue
        f = norm(c.func)
        if f in ("re.sub", "re.search", "re.finditer") and c.args:
            (subs if f == "re.sub" else searches).append(_RC(c, c.args[0], c.args[1:]))
        elif isinstance(c.func, ast.Attribute) and c.func.attr in ("sub", "search", "finditer") and isinstance(c.func.value, ast.Name):
            src = compiled_source(c.func.value, c)
            if src is not None:
                (subs if c.func.attr == "sub" else searches).append(_RC(c, src, c.args))
    uses_regex = [c for c in ast.walk(fn) if isinstance(c, ast.Call) and isinstance(c.func, ast.Attribute) and c.func.attr in ("sub", "subn")]
    if uses_regex and not subs:
        raise AnalysisError("remove_labels: a regular-expression substitution is used but the pattern it is built from was not found")
    if subs:
        same = all(norm(s.args[0]) == norm(subs[0].args[0]) for s in subs + searches)
        chk.judge("R05.f", "generate_code:remove_labels:search and replacement use one pattern", same,
                  f"patterns differ: {sorted({norm(s.args[0]) for s in subs + searches})}", None, where)
        for s in subs:
            loops = []
            p = s.call
            while p is not None and p is not fn:
                if isinstance(p, ast.For):
                    it = p.iter
                    # a list built from the label map without a filter stands for the map itself
                    if isinstance(it, ast.Name):
                        ids_ = live_ids(cfg, p.iter)
                        ds_ = rd.at(ids_[0], it.id) if ids_ else []
                        if len(ds_) == 1 and ds_[0].kind == "assign" and isinstance(ds_[0].value, (ast.ListComp, ast.GeneratorExp)) \
                                and len(ds_[0].value.generators) == 1 and not ds_[0].value.generators[0].ifs:
                            it = ds_[0].value.generators[0].iter
                    loops.append(norm(it))
                p = getattr(p, "parent", None)
            ok = any(f"{mapname}.items()" in l or l == mapname for l in loops) and any("enumerate" in l or listname and listname in l for l in loops)
            brk = [b for lp in ast.walk(fn) if isinstance(lp, ast.For) for b in ast.walk(lp) if isinstance(b, (ast.Break,)) and any(x is s.call for x in ast.walk(lp))]
            chk.judge("R05.f", "generate_code:remove_labels:every label is substituted in every line", ok and not brk,
                      f"the substitution runs inside loops over {loops}{' with a break' if brk else ''}: expected all lines x all labels", {"loops": loops}, where)
            # the text that is searched and rewritten is the whole line, not a piece of it
            for rc in [s] + searches:
                subj = rc.args[-1] if len(rc.args) >= 2 else None
                if not isinstance(subj, ast.Name):
                    continue
                ids_ = live_ids(cfg, rc.call)
                ds_ = rd.at(ids_[0], subj.id) if ids_ else []
                partial = []
                for d_ in ds_:
                    v_ = d_.value
                    if d_.kind == "assign" and v_ is not None:
                        src_names = {x.id for x in ast.walk(v_) if isinstance(x, ast.Name)}
                        cuts = [x for x in ast.walk(v_) if isinstance(x, ast.Call) and isinstance(x.func, ast.Attribute) and x.func.attr in ("partition", "rpartition", "split", "rsplit")
                                or isinstance(x, ast.Subscript) and isinstance(x.slice, ast.Slice)]
                        whole = isinstance(v_, ast.Call) and (norm(v_.func) == "re.sub" or isinstance(v_.func, ast.Attribute) and v_.func.attr in ("sub", "replace"))
                        if cuts and not whole and d_.index is not None or cuts and not whole and src_names - {subj.id}:
                            partial.append(norm(v_)[:60])
                if partial:
                    chk.bad("R05.f", "generate_code:remove_labels:every label is substituted in every line",
                            f"the label is searched / replaced in {subj.id}, which is only a part of the line ({partial[0]}): a label operand in the rest of the line "
                            f"(behind a HASH(\"...\") constant of a branch) keeps its name although the label line is removed", {"subject": partial[0]}, where)
            # no line is exempted from the substitution: the only tests around it are the search for the label itself
            from .c15 import symbolic_path
            line_vars = set()
            p = s.call
            while p is not None and p is not fn:
                if isinstance(p, ast.For) and ("enumerate" in norm(p.iter) or listname and listname in norm(p.iter)):
                    line_vars |= {n.id for n in ast.walk(p.target) if isinstance(n, ast.Name)}
                p = getattr(p, "parent", None)
            _env, conds = symbolic_path(fn, s.call)
            for t_, pol in conds:
                txt = norm(t_)
                names = {n.id for n in ast.walk(t_) if isinstance(n, ast.Name)}
                if isinstance(t_, ast.Call) and norm(t_.func) in ("re.search", "re.match", "re.fullmatch") or "re.search(" in txt and pol:
                    continue
                if pol and isinstance(t_, ast.Call) and norm(t_.func) == "any" and len(t_.args) == 1 and isinstance(t_.args[0], (ast.GeneratorExp, ast.ListComp)) \
                        and len(t_.args[0].generators) == 1 and isinstance(t_.args[0].generators[0].iter, ast.Call) \
                        and (norm(t_.args[0].generators[0].iter.func) == "re.finditer" or isinstance(t_.args[0].generators[0].iter.func, ast.Attribute)
                             and t_.args[0].generators[0].iter.func.attr == "finditer") \
                        and t_.args[0].generators[0].iter.args and isinstance(t_.args[0].generators[0].iter.args[-1], ast.Name) \
                        and t_.args[0].generators[0].iter.args[-1].id in line_vars \
                        and any(norm(q.call.func) == "re.finditer" or isinstance(q.call.func, ast.Attribute) and q.call.func.attr == "finditer" for q in searches):
                    continue    # 'some match of the same pattern is one that gets rewritten': the pre-check of the substitution itself
                if pol and isinstance(t_, ast.Call) and isinstance(t_.func, ast.Attribute) and t_.func.attr == "search" and any(q.call is t_ or norm(q.call) == txt for q in searches):
                    continue    # the compiled form of the same pre-check
                if isinstance(t_, ast.Compare) and len(t_.ops) == 1 and isinstance(t_.ops[0], ast.In) and pol and isinstance(t_.comparators[0], ast.Name) and t_.comparators[0].id in line_vars:
                    continue    # 'label in line': a cheaper necessary condition of the search
                if isinstance(t_, (ast.Name, ast.Attribute)) and txt.endswith("relative_numbers"):
                    continue
                if names & line_vars:
                    chk.bad("R05.f", "generate_code:remove_labels:every label is substituted in every line",
                            f"the substitution is skipped for lines with {txt[:100]}{'' if pol else ' is False'}: a label operand on such a line (the address loaded by "
                            f"'move rX <label>' of a list loop) keeps its name although the label line is removed", {"guard": txt[:200]}, where)
                else:
                    raise AnalysisError(f"remove_labels: test around the substitution not understood: {txt[:80]}")
            # replacement is the mapped index
            rep = s.args[1] if len(s.args) > 1 else None
            if isinstance(rep, ast.Lambda) and isinstance(rep.body, ast.IfExp):
                rep = rep.body.body       # what a rewritten match becomes (the other arm returns the match unchanged, see R05.a)
            okr = False
            if isinstance(rep, ast.Name):
                ids = live_ids(cfg, s.call)
                ds = rd.at(ids[0], rep.id) if ids else []
                okr = bool(ds) and all(d.kind == "assign" and isinstance(d.value, ast.Call) and norm(d.value.func) == "str" for d in ds)
            chk.judge("R05.f", "generate_code:remove_labels:replacement is the decimal line index", okr,
                      f"replacement {norm(rep) if rep is not None else None} is not str(<line index>)", None, where)


# ---------------------------------------------------------------------- R05.j
def r05j(repo, chk, R="R05.j"):
    g = repo.mod("generate_code")
    qual = "CompilerPassGatherCode.get_code"
    fn = g.func(qual)
    chk.saw("generate_code", qual)
    cfg, rd = fn_ctx(fn)
    calls = [c for c in ast.walk(fn) if isinstance(c, ast.Call) and isinstance(c.func, ast.Attribute) and c.func.attr == "remove_labels"]
    if not calls:
        raise AnalysisError("get_code: the call of remove_labels was not found")
    starts = []
    for c in calls:
        starts += live_ids(cfg, c)
    after = set()
    for st_ in starts:
        after |= cfg.reachable(start=st_)
    after -= set(starts)
    bad = []
    n_lists = 0
    for n in cfg.nodes:
        if n.id not in after or n.ast is None or n.kind not in ("stmt", "test", "iter", "return"):
            continue
        for x in ast.walk(n.ast):
            # a list of the lines of the listing ...
            if isinstance(x, ast.Call) and isinstance(x.func, ast.Attribute) and x.func.attr in ("insert", "append", "extend", "pop", "remove", "clear") \
                    and isinstance(x.func.value, ast.Name):
                ds = rd.at(n.id, x.func.value.id)
                if ds and all(d.kind == "assign" and d.value is not None and isinstance(d.value, ast.Call) and isinstance(d.value.func, ast.Attribute)
                              and d.value.func.attr in ("splitlines", "split") for d in ds):
                    bad.append((x, f"{norm(x)[:60]} changes the number of lines"))
            if isinstance(x, ast.Delete) and any(isinstance(t, ast.Subscript) for t in x.targets):
                bad.append((x, f"{norm(x)[:60]} removes a line"))
        # ... or the text itself gets a line in front / behind
        if n.kind == "stmt" and isinstance(n.ast, (ast.Assign, ast.AugAssign)):
            v = n.ast.value
            for c_ in ast.walk(v):
                if isinstance(c_, ast.Constant) and isinstance(c_.value, str) and "\n" in c_.value and isinstance(getattr(c_, "parent", None), (ast.BinOp, ast.JoinedStr)):
                    par = c_.parent
                    # "\n".join(lines) is a Call, not a BinOp: only concatenations count
                    if isinstance(par, ast.BinOp) and isinstance(par.op, ast.Add):
                        bad.append((n.ast, f"{norm(n.ast)[:60]} adds a line to the text"))
        if n.kind == "stmt" and isinstance(n.ast, ast.Assign) and isinstance(n.ast.value, ast.Call) and isinstance(n.ast.value.func, ast.Attribute) \
                and n.ast.value.func.attr in ("splitlines", "split"):
            n_lists += 1
    key = "generate_code:get_code:no line is inserted or removed after the labels became line numbers"
    if bad:
        x, why = bad[0]
        chk.bad(R, key, f"after remove_labels has replaced every label by the number of the line it stood in front of, {why}: with remove_labels every jump then lands on the "
                        f"wrong line", {"statements": [w for _, w in bad]}, f"{g.path}:{x.lineno} in {qual}")
    else:
        chk.ok(R, key, {"lists_of_lines_after": n_lists})
