"""C16 — generated tables are internally consistent (exhaustive, R16.a–e)."""
from __future__ import annotations

import ast
from ..model import Repo, AnalysisError, norm
from ..report import Check
from ..crc import signed_crc32
from ..isa import ISA
from ..emit import collect_sites
from ..consteval import TOP

SELECTORS = ("Average", "Minimum", "Maximum", "Sum")
KEYWORD_SUFFIX = {"yield_": "yield", "and_": "and", "or_": "or", "not_": "not"}


class Members(list):
    """(member, value, line) triples of one enumeration; .auto lists the members whose number is not written down but counted by enum.auto()"""
    auto = ()


def enum_tables(repo: Repo):
    """enum class name -> list of (member, value) from types_generated."""
    m = repo.mod("types_generated")
    autos = {n for n, (mod_, attr) in m.imports.items() if mod_ == "enum" and attr == "auto"} | {"auto"}
    out = {}
    for c in m.classes.values():
        if any(isinstance(b, ast.Name) and b.id in ("_IntEnum", "IntEnum") for b in c.bases):
            mem = Members()
            mem.auto = []
            for st in c.body:
                if isinstance(st, ast.Assign) and len(st.targets) == 1 and isinstance(st.targets[0], ast.Name):
                    v = st.value
                    if isinstance(v, ast.UnaryOp) and isinstance(v.op, ast.USub) and isinstance(v.operand, ast.Constant):
                        val = -v.operand.value
                    elif isinstance(v, ast.Constant):
                        val = v.value
                    elif isinstance(v, ast.Call) and not v.args and (isinstance(v.func, ast.Name) and v.func.id in autos or norm(v.func) in ("enum.auto", "_enum.auto")):
                        # what Enum does: one more than the last value, 1 for the first member
                        val = (mem[-1][1] + 1) if mem and isinstance(mem[-1][1], int) else 1
                        mem.auto.append(st.targets[0].id)
                    else:
                        raise AnalysisError(f"enum {c.name}.{st.targets[0].id}: value is not a literal")
                    mem.append((st.targets[0].id, val, st.lineno))
            out[c.name] = mem
    if not out:
        raise AnalysisError("anchor vanished: no IntEnum classes in types_generated")
    return out


def _prop_desc(fn, aliases):
    """Describe what a @property returns (see module docstring of DESIGN C16)."""
    if len(fn.body) == 0:
        return ("?",)
    body = [st for st in fn.body if not (isinstance(st, ast.Expr) and isinstance(st.value, ast.Constant))]
    # 'x = <expr>; return x'  is  'return <expr>'
    if len(body) == 2 and isinstance(body[0], ast.Assign) and len(body[0].targets) == 1 and isinstance(body[0].targets[0], ast.Name) \
            and isinstance(body[1], ast.Return) and isinstance(body[1].value, ast.Name) and body[1].value.id == body[0].targets[0].id:
        body = [ast.copy_location(ast.Return(value=body[0].value), body[1])]
    if len(body) != 1 or not isinstance(body[0], ast.Return) or body[0].value is None:
        return ("?", norm(fn)[:60])
    v = body[0].value
    if isinstance(v, ast.Attribute) and isinstance(v.value, ast.Name) and v.value.id == "self":
        return ("alias", v.attr)
    if isinstance(v, ast.Call) and isinstance(v.func, ast.Name):
        f = v.func.id
        args = v.args
        if f in ("_DeviceLogicType", "_DevicesLogicType", "_DeviceSlotType", "_DevicesSlotType") and len(args) == 2 \
                and isinstance(args[0], ast.Name) and args[0].id == "self" and isinstance(args[1], ast.Attribute) \
                and isinstance(args[1].value, ast.Name):
            enum = aliases.get(args[1].value.id, args[1].value.id)
            return ("access", f, enum, args[1].attr)
        if len(args) == 2 and isinstance(args[0], ast.Name) and args[0].id == "self" and isinstance(args[1], ast.Constant) \
                and isinstance(args[1].value, int) and not v.keywords:
            return ("slot", f, args[1].value)
        if not args and v.keywords:
            kw = {k.arg: k.value for k in v.keywords}
            if set(kw) == {"name", "batch_mode"} and norm(kw["name"]) == "self._name" and isinstance(kw["batch_mode"], ast.Attribute) \
                    and norm(kw["batch_mode"].value) == "LogicBatchMethod":
                return ("selector", f, kw["batch_mode"].attr)
        if len(args) == 1 and isinstance(args[0], ast.Name) and not v.keywords:
            return ("getitem", f, args[0].id)
    return ("?", norm(v)[:60])


def _is_property(fn):
    return any(isinstance(d, ast.Name) and d.id == "property" for d in fn.decorator_list)


def _is_setter(fn):
    return any(isinstance(d, ast.Attribute) and d.attr == "setter" for d in fn.decorator_list)


class ClsInfo:
    def __init__(self, c, aliases):
        self.node = c
        self.name = c.name
        self.bases = [b.id for b in c.bases if isinstance(b, ast.Name)]
        self.attrs = {}
        self.props = {}
        self.other = []
        for st in c.body:
            if isinstance(st, ast.AnnAssign) and isinstance(st.target, ast.Name) and st.value is not None:
                self.attrs[st.target.id] = st.value
            elif isinstance(st, ast.Assign) and len(st.targets) == 1 and isinstance(st.targets[0], ast.Name):
                self.attrs[st.targets[0].id] = st.value
            elif isinstance(st, ast.FunctionDef):
                if _is_setter(st):
                    continue
                if _is_property(st):
                    self.props[st.name] = (_prop_desc(st, aliases), st.lineno)
                elif st.name == "__getitem__":
                    self.props["__getitem__"] = (_prop_desc(st, aliases), st.lineno)
                else:
                    self.other.append(st.name)


def _only_called_from_wrappers(im, name):
    """the private function is referenced only inside intrinsics.py"""
    return any(isinstance(n, ast.Name) and n.id == name and isinstance(n.ctx, ast.Load) for n in ast.walk(im.tree))


def run(repo: Repo, chk: Check):
    chk.rule("R16.a", "every generated structure class stores _hash == signed CRC-32 (own implementation) of its _prefab_name", floor=700)
    chk.rule("R16.b", "every singular structure has exactly one plural with the same prefab/hash, a public singleton of it, batch "
                      "selectors returning the singular with the matching LogicBatchMethod, __getitem__ returning the plural, the same "
                      "logic-type and slot properties (names, enum members, slot indices) on both sides, named slots resolving to "
                      "numbered slots, and no star-import shadowing in symbols.py", floor=2000)
    chk.rule("R16.c", "no two members of one enumeration share a number", floor=27)
    chk.rule("R16.d", "every intrinsic wrapper emits the instruction of its own name with its parameters as operands in order and "
                      "has an output exactly when the ISA oracle says the instruction writes a register", floor=140)
    chk.rule("R16.e", "every property of the generic device classes reads the logic type of its own name, which is a LogicType member", floor=600)

    chk.rule("R16.f", "the printing function returns the name (verbose) or the number (compact) of the one member it was given (shared with R08.d)", floor=2)
    from .c08 import rule_format_enum, r08c_unwrap
    chk.guarded(rule_format_enum, repo, chk, "R16.f")
    chk.rule("R16.g", "the hash operand of a batch access is computed from the table's prefab name as it stands: compute_hash removes a HASH(\"...\") / quote "
                      "wrapper exactly and nothing else (shared with R08.c)", floor=1)
    chk.guarded(r08c_unwrap, repo, chk, "R16.g")
    enums = enum_tables(repo)
    # ---------------------------------------------------------------- R16.c
    gpath = repo.mod("types_generated").path
    total_members = 0
    for en, mem in sorted(enums.items()):
        byval = {}
        names = set()
        dupn = []
        for n, v, ln in mem:
            byval.setdefault(v, []).append(n)
            if n in names:
                dupn.append(n)
            names.add(n)
        total_members += len(mem)
        dups = {v: ns for v, ns in byval.items() if len(ns) > 1}
        chk.judge("R16.c", f"types_generated:{en}", not dups and not dupn and len(mem) > 0,
                  f"enum {en}: members sharing a number {dups} / duplicate names {dupn}", {"members": len(mem)}, f"{gpath} class {en}")
        if getattr(mem, "auto", None):
            chk.bad("R16.c", f"types_generated:{en}:numbers are the game's, written down",
                    f"enum {en}: the numbers of {mem.auto[:4]}{'...' if len(mem.auto) > 4 else ''} are counted by enum.auto() ({', '.join(f'{n_}={v_}' for n_, v_, _ in mem[:3])}): auto() starts at 1 "
                    f"and counts on from the previous member, the game's tables do neither; compact output carries these numbers", {"auto": mem.auto}, f"{gpath} class {en}")
    chk.extra["enum_members"] = total_members

    # ---------------------------------------------------------------- structures
    sm = repo.mod("structures_generated")
    spath = sm.path
    aliases = {}
    for st in sm.tree.body:
        if isinstance(st, ast.ImportFrom):
            for a in st.names:
                if a.asname:
                    aliases[a.asname] = a.name
    lt = {n for n, _, _ in enums.get("LogicType", [])}
    lst = {n for n, _, _ in enums.get("LogicSlotType", [])}
    lbm = {n for n, _, _ in enums.get("LogicBatchMethod", [])}
    if not lt or not lst or set(SELECTORS) - lbm:
        raise AnalysisError("anchor vanished: LogicType/LogicSlotType/LogicBatchMethod enums")
    classes = {}
    order = []
    singletons = {}
    for st in sm.tree.body:
        if isinstance(st, ast.ClassDef):
            classes[st.name] = ClsInfo(st, aliases)
            order.append(st.name)
        elif isinstance(st, ast.AnnAssign) and isinstance(st.target, ast.Name) and isinstance(st.value, ast.Call) \
                and isinstance(st.value.func, ast.Name):
            singletons.setdefault(st.target.id, []).append((norm(st.annotation), st.value.func.id, len(st.value.args) + len(st.value.keywords), st.lineno))
        elif isinstance(st, ast.Assign) and len(st.targets) == 1 and isinstance(st.targets[0], ast.Name) and isinstance(st.value, ast.Call) \
                and isinstance(st.value.func, ast.Name):
            singletons.setdefault(st.targets[0].id, []).append(("", st.value.func.id, len(st.value.args) + len(st.value.keywords), st.lineno))

    def mro(name, seen=None):
        seen = seen if seen is not None else []
        if name in seen or name not in classes:
            return seen
        seen.append(name)
        for b in classes[name].bases:
            mro(b, seen)
        return seen

    def effective(name):
        """property name -> (desc, defining class), first definition in MRO wins."""
        out = {}
        for cn in mro(name):
            for p, (d, ln) in classes[cn].props.items():
                out.setdefault(p, (d, cn, ln))
        return out

    def is_kind(name, root):
        return root in mro_all(name)

    def mro_all(name):
        out, stack = [], [name]
        while stack:
            n = stack.pop()
            if n in out:
                continue
            out.append(n)
            if n in classes:
                stack.extend(classes[n].bases)
        return out

    singular = [n for n in order if "_hash" in classes[n].attrs and "_BaseStructure" in mro_all(n)]
    plural = [n for n in order if "_hash" in classes[n].attrs and "_BaseStructures" in mro_all(n)]
    withhash = [n for n in order if "_hash" in classes[n].attrs or "_prefab_name" in classes[n].attrs]
    chk.extra["structure_classes"] = len(withhash)
    # R16.a
    for n in withhash:
        ci = classes[n]
        h, p = ci.attrs.get("_hash"), ci.attrs.get("_prefab_name")
        hv = None
        if isinstance(h, ast.Constant):
            hv = h.value
        elif isinstance(h, ast.UnaryOp) and isinstance(h.op, ast.USub) and isinstance(h.operand, ast.Constant):
            hv = -h.operand.value
        pv = p.value if isinstance(p, ast.Constant) else None
        ok = isinstance(hv, int) and isinstance(pv, str) and signed_crc32(pv) == hv
        chk.judge("R16.a", f"structures_generated:{n}", ok,
                  f"_hash {hv!r} is not the signed CRC-32 of _prefab_name {pv!r} (expected {signed_crc32(pv) if isinstance(pv, str) else '?'})",
                  {"prefab": pv, "hash": hv}, f"{spath}:{ci.node.lineno} class {n}")
        neither = n not in singular and n not in plural
        if neither:
            chk.bad("R16.b", f"structures_generated:{n}:kind", "class with a prefab hash is neither a _BaseStructure nor a _BaseStructures", None, f"{spath}:{ci.node.lineno}")

    # pairing by prefab name
    def prefab(n):
        p = classes[n].attrs.get("_prefab_name")
        return p.value if isinstance(p, ast.Constant) else None

    def hashv(n):
        h = classes[n].attrs.get("_hash")
        try:
            return ast.literal_eval(h)
        except Exception:
            return None

    by_prefab_s, by_prefab_p = {}, {}
    for n in singular:
        by_prefab_s.setdefault(prefab(n), []).append(n)
    for n in plural:
        by_prefab_p.setdefault(prefab(n), []).append(n)
    slot_pairs = {}  # singular slot class -> set of plural slot classes seen
    for pf in sorted(set(by_prefab_s) | set(by_prefab_p), key=str):
        ss, ps = by_prefab_s.get(pf, []), by_prefab_p.get(pf, [])
        key = f"structures_generated:prefab {pf}"
        if len(ss) != 1 or len(ps) != 1:
            chk.bad("R16.b", key + ":pair", f"prefab {pf!r}: {len(ss)} singular class(es) {ss} and {len(ps)} plural class(es) {ps}; expected one of each",
                    None, f"{spath} prefab {pf}")
            continue
        S, P = ss[0], ps[0]
        where = f"{spath}:{classes[P].node.lineno} classes {S}/{P}"
        chk.judge("R16.b", key + ":hash", hashv(S) == hashv(P), f"{S}._hash {hashv(S)} != {P}._hash {hashv(P)}", None, where)
        # singleton
        pub = P[1:] if P.startswith("_") else None
        sg = singletons.get(pub, []) if pub else []
        ok = len(sg) == 1 and sg[0][1] == P and sg[0][2] == 0 and sg[0][0] in ("", P) and not pub.startswith("_")
        chk.judge("R16.b", key + ":singleton", ok, f"no public singleton '{pub}: {P} = {P}()' (found {sg})", {"singleton": pub}, where)
        chk.judge("R16.b", key + ":names", P == "_" + pub if pub else False, f"plural class {P} is not '_' + public name", None, where) if False else None
        eS, eP = effective(S), effective(P)
        # selectors and __getitem__
        for sel in SELECTORS:
            d = eP.get(sel)
            ok = d is not None and d[1] == P and d[0] == ("selector", S, sel)
            if not ok and d is not None and d[0] == ("access", "_DevicesLogicType", "LogicType", sel) and sel in lt:
                # the device has a logic type of that very name and the generated class lets it win
                # (LogicPidController.Minimum/Maximum): both readings are legitimate, accepted as an idiom
                ok = True
            chk.judge("R16.b", key + f":selector {sel}", ok, f"{P}.{sel} must return {S}(name=self._name, batch_mode=LogicBatchMethod.{sel}); found {d[0] if d else None}", None, where)
        d = eP.get("__getitem__")
        chk.judge("R16.b", key + ":getitem", d is not None and d[0][:2] == ("getitem", P), f"{P}.__getitem__ must return {P}(name); found {d[0] if d else None}", None, where)
        # properties
        namesS = {k for k in eS if not k.startswith("__")}
        namesP = {k for k in eP if not k.startswith("__")} - {s_ for s_ in SELECTORS if eP.get(s_, ((None,), None))[0][0] == "selector"}
        for nm in sorted(namesS | namesP):
            ds, dp = eS.get(nm), eP.get(nm)
            k2 = key + f":prop {nm}"
            if nm in SELECTORS and dp is not None and dp[0][0] == "selector":
                # plural selector shadows a logic type of the same name: singular side must still be a valid access
                dp = None
                if ds is None:
                    continue
            if ds is None or (dp is None and not (nm in SELECTORS)):
                chk.bad("R16.b", k2, f"property {nm} exists only on the {'plural' if ds is None else 'singular'} side", None, where)
                continue
            sd = ds[0]
            if sd[0] == "access":
                okS = sd[1] == "_DeviceLogicType" and sd[2] == "LogicType" and sd[3] in lt
                okname = sd[3] == nm
                if dp is None:
                    okP = True
                else:
                    pd = dp[0]
                    okP = pd[0] == "access" and pd[1] == "_DevicesLogicType" and pd[2] == "LogicType" and pd[3] == sd[3]
                chk.judge("R16.b", k2, okS and okP and okname,
                          f"logic property {nm}: singular {sd}, plural {dp[0] if dp else None}; expected _DeviceLogicType/_DevicesLogicType(self, LogicType.{nm})", None, where)
            elif sd[0] == "slot":
                pd = dp[0] if dp else None
                ok = pd is not None and pd[0] == "slot" and pd[2] == sd[2] and nm == f"slot{sd[2]}"
                if not ok and pd is not None and pd[0] == "slot" and pd[2] == sd[2] and not nm.startswith("slot"):
                    # a named slot that builds the accessor itself instead of returning self.slotK: the same object as the numbered property
                    numS, numP = eS.get(f"slot{sd[2]}"), eP.get(f"slot{sd[2]}")
                    ok = numS is not None and numP is not None and numS[0] == sd and numP[0] == pd
                if ok:
                    slot_pairs.setdefault(sd[1], set()).add(pd[1])
                chk.judge("R16.b", k2, ok, f"slot property {nm}: singular {sd}, plural {pd}; expected <SlotClass>(self, {nm[4:]}) on both sides", None, where)
            elif sd[0] == "alias":
                pd = dp[0] if dp else None
                tgt = eS.get(sd[1])
                ok = pd == sd and tgt is not None and tgt[0][0] == "slot" and sd[1].startswith("slot")
                chk.judge("R16.b", k2, ok, f"named slot {nm}: singular {sd}, plural {pd}; must return the same existing self.slotK on both sides", None, where)
            else:
                chk.bad("R16.b", k2, f"property {nm} of {S} has an unrecognised shape {sd}", None, where)
    # slot classes pair consistently and offer the same slot-type properties
    for a, bs in sorted(slot_pairs.items()):
        key = f"structures_generated:slotclass {a}"
        if len(bs) != 1 or a not in classes:
            chk.bad("R16.b", key, f"singular slot class {a} is paired with {sorted(bs)}", None, str(spath))
            continue
        b = next(iter(bs))
        if b not in classes:
            chk.bad("R16.b", key, f"plural slot class {b} is not defined", None, str(spath))
            continue
        ea, eb = effective(a), effective(b)
        bad = []
        for nm in sorted(set(ea) | set(eb)):
            da, db_ = ea.get(nm), eb.get(nm)
            if da is None or db_ is None:
                bad.append(f"{nm} only on one side")
                continue
            x, y = da[0], db_[0]
            if not (x[0] == "access" and y[0] == "access" and x[1] == "_DeviceSlotType" and y[1] == "_DevicesSlotType"
                    and x[2] == y[2] == "LogicSlotType" and x[3] == y[3] == nm and nm in lst):
                bad.append(f"{nm}: {x} vs {y}")
        chk.judge("R16.b", key, not bad, f"slot classes {a}/{b} disagree: {bad[:4]}", {"plural": b, "properties": len(ea)}, f"{spath}:{classes[a].node.lineno}")

    # star-import shadowing in symbols.py
    shadow_check(repo, chk)

    # ---------------------------------------------------------------- R16.e
    tg = repo.mod("types_generated")
    for cn in ("_GenericStructure", "_GenericStructures"):
        c = tg.cls(cn)
        for st in c.body:
            if isinstance(st, ast.FunctionDef) and _is_property(st):
                r = st.body[-1]
                ok = isinstance(r, ast.Return) and isinstance(r.value, ast.Call) and norm(r.value.func) == "self.__getattr__" \
                    and len(r.value.args) == 1 and isinstance(r.value.args[0], ast.Constant) and r.value.args[0].value == st.name and st.name in lt
                chk.judge("R16.e", f"types_generated:{cn}.{st.name}", ok,
                          f"{cn}.{st.name} must return self.__getattr__({st.name!r}) with {st.name} a LogicType member; found {norm(r)[:80]}", None,
                          f"{tg.path}:{st.lineno}")

    # ---------------------------------------------------------------- R16.d
    im = repo.mod("intrinsics")
    sites = {s.qual: s for s in collect_sites(repo, ["intrinsics"])}
    n_wr = 0
    for fn in im.tree.body:
        if not isinstance(fn, ast.FunctionDef):
            continue
        if fn.name.startswith("_") and fn.name not in getattr(im, "raw_core", ()) and _only_called_from_wrappers(im, fn.name):
            continue    # a private helper of the wrappers (not exported by 'from .intrinsics import *'): judged where it is expanded
        s = sites.get(fn.name)
        where = f"{im.path}:{fn.lineno} def {fn.name}"
        if s is None:
            # HASH / STR helpers: not instruction wrappers
            chk.ok("R16.d", f"intrinsics:{fn.name} [no instruction: helper]", None, vacuous=True)
            continue
        n_wr += 1
        ops = s.opcodes
        op = next(iter(ops)) if ops is not TOP and len(ops) == 1 else None
        want = KEYWORD_SUFFIX.get(fn.name, fn.name)
        problems = []
        if op != want:
            problems.append(f"emits {op!r}, expected {want!r}")
        params = [a.arg for a in fn.args.args]
        operands = [norm(e) for e in s.input_exprs]
        if operands != params or fn.args.vararg or fn.args.kwonlyargs:
            problems.append(f"operands {operands} are not the parameters {params} in order")
        key = f"intrinsics:{fn.name}"
        if op in ISA:
            n_in, out = ISA[op]
            if s.has_output != out:
                problems.append(f"instruction {'writes' if out else 'does not write'} a register but the wrapper {'has' if s.has_output else 'has no'} output")
            if len(params) != n_in:
                problems.append(f"instruction takes {n_in} input operand(s), wrapper has {len(params)} parameter(s)")
        elif op is not None:
            problems.append(f"{op!r} is not an IC10 instruction")
        if not isinstance(getattr(s.call, "parent", None), ast.Return):
            problems.append("wrapper does not return the instruction")
        chk.judge("R16.d", key, not problems, "; ".join(problems), {"opcode": op, "params": params, "output": s.has_output}, where)
    names = set(repo.ic10_json().get("instructions", []))
    wrapped = {KEYWORD_SUFFIX.get(q, q) for q in sites}
    chk.judge("R16.d", "intrinsics == ic10.json", wrapped == names,
              f"instruction names without wrapper {sorted(names - wrapped)}, wrappers without instruction {sorted(wrapped - names)}", {"n": len(names)}, str(im.path))
    chk.judge("R16.d", "isa oracle == ic10.json", set(ISA) == names, f"oracle/ic10.json differ: {sorted(set(ISA) ^ names)}", None, "sa/isa.py")
    chk.extra["intrinsic_wrappers"] = n_wr


def public_names(repo: Repo, modname: str, _seen=None):
    """name -> (defining module, kind) exported by `from <modname> import *`."""
    _seen = _seen or set()
    if modname in _seen or not repo.has_mod(modname):
        return {}
    _seen.add(modname)
    m = repo.mod(modname)
    out = {}
    for sm in m.star_imports:
        s = sm.lstrip(".")
        if s.startswith("stationeers_pytrapic."):
            s = s[len("stationeers_pytrapic."):]
        out.update(public_names(repo, s, _seen))
    for local, (mod, attr) in m.imports.items():
        mm = mod.lstrip(".")
        if mm.startswith("stationeers_pytrapic."):
            mm = mm[len("stationeers_pytrapic."):]
        if attr and repo.has_mod(mm):
            got = repo.lookup(repo.mod(mm), attr)
            if got and got[1] is not None:
                out[local] = (got[0].name, attr)
                continue
        out[local] = (mm or local, attr or local)
    for st in m.tree.body:
        if isinstance(st, (ast.FunctionDef, ast.ClassDef)):
            out[st.name] = (modname, st.name)
        elif isinstance(st, ast.Assign):
            for t in st.targets:
                if isinstance(t, ast.Name):
                    out[t.id] = (modname, t.id)
        elif isinstance(st, ast.AnnAssign) and isinstance(st.target, ast.Name) and st.value is not None:
            out[st.target.id] = (modname, st.target.id)
    allv = None
    for st in m.tree.body:
        if isinstance(st, ast.Assign) and any(isinstance(t, ast.Name) and t.id == "__all__" for t in st.targets) and isinstance(st.value, (ast.List, ast.Tuple)):
            allv = [e.value for e in st.value.elts if isinstance(e, ast.Constant)]
    if allv is not None:
        return {k: v for k, v in out.items() if k in allv}
    return {k: v for k, v in out.items() if not k.startswith("_")}


def shadow_check(repo: Repo, chk: Check):
    sy = repo.mod("symbols")
    seen = {}
    n = 0
    for sm in sy.star_imports:
        s = sm.lstrip(".")
        names = public_names(repo, s)
        for k, v in names.items():
            if k in seen and seen[k][1] != v:
                chk.bad("R16.b", f"symbols:shadow {k}", f"name {k} exported by {seen[k][0]} (defined in {seen[k][1]}) is shadowed by {s} (defined in {v})",
                        None, str(sy.path))
            seen[k] = (s, v)
            n += 1
    chk.judge("R16.b", "symbols:star-imports examined", n > 900, "symbols.py star imports not recognised", {"names": n, "modules": sy.star_imports}, str(sy.path))
