"""C13 — library modules behave like the same code written in the main file (R13.a–e)."""
from __future__ import annotations

import ast
from ..model import Repo, AnalysisError, norm, enclosing_def
from ..report import Check
from .shared import fn_ctx, live_ids, guard_atoms, rule_module_lifetime, GEN_CLASS


def run(repo: Repo, chk: Check):
    chk.rule("R13.a", "a function's code is appended to the program only for the main region or when the function is called, and "
                      "never for constexpr functions", floor=3)
    chk.rule("R13.b", "__name__ folds to the module's own name, to '__main__' only for the main scope, and is not treated as a built-in name", floor=3)
    chk.rule("R13.c", "every access to the per-compile tables 'symbols' and 'structures' is keyed by the module-qualified scope name "
                      "(get_scope_name) or iterates the table itself", floor=8)
    chk.rule("R13.d", "module-level values of every module get the unbounded lifetime", floor=1)
    chk.rule("R13.g", "every construction of a function's label uses the module-qualified name, so a library function's label, its "
                      "references and the ra logic agree (shared with R05.d)", floor=6)
    chk.rule("R13.f", "every function scope stays clear of the registers of every library module's globals (shared with R04.f)", floor=1)
    chk.rule("R13.e", "an imported library module is renamed to its alias consistently (module name == key of the module table), and "
                      "scope / function names are qualified with that module name", floor=3)
    g = repo.mod("generate_code")
    cp = repo.mod("compile_pass")
    u = repo.mod("utils")

    # ------------------------------------------------------------ R13.a
    fn = g.func("CompilerPassGatherCode.run")
    chk.saw("generate_code", fn.qual)
    cfg, rd = fn_ctx(fn)
    where = f"{g.path}:{fn.lineno} in {fn.qual}"
    from .shared import gather_model, emission_table
    _, ems = gather_model(repo)
    if not ems:
        raise AnalysisError("CompilerPassGatherCode.run: no statement that adds lines to self.code found")
    for em in ems:
        rows, free = emission_table(em)
        txt = em.guard_text()
        bad = [a for a, e in rows if e and not (a["M"] or a["C"])]
        chk.judge("R13.a", "generate_code:run:region emitted only if main or called", not bad,
                  f"function code reaches self.code under {txt}: that also holds for a function that is neither the main region nor called "
                  f"(an uncalled library function must contribute no instructions)", {"guards": txt}, where)
        badx = [a for a, e in rows if e and a["X"]]
        chk.judge("R13.a", "generate_code:run:constexpr functions are skipped", not badx,
                  f"function code is appended without excluding constexpr functions (guards {txt})", None, where)
        if not free and (len(ems) == 1 or (len(ems) == 2 and any(e.region == "main" for e in ems) and em.region != "main")):
            missing = [("main region" if a["M"] else "called function") for a, e in rows if not e and a["C"] and not a["X"] and not (a["M"] and len(ems) == 2)]
            chk.judge("R13.a", "generate_code:run:the main region and every called function are emitted", not missing,
                      f"under the guards {txt} the {sorted(set(missing))} is not emitted", None, where)
    ic = cp.func("FunctionData.is_called")
    chk.saw("compile_pass", ic.qual)
    rets = [r for r in ast.walk(ic) if isinstance(r, ast.Return) and r.value is not None]
    ok = len(rets) == 1 and isinstance(rets[0].value, ast.BoolOp) and isinstance(rets[0].value.op, ast.Or) and len(rets[0].value.values) == 2 and \
        any(norm(v) == "self.node is None" for v in rets[0].value.values) and \
        any(isinstance(v, ast.Compare) and norm(v.left).endswith("sym_data.is_read") and (isinstance(v.ops[0], ast.Gt) and norm(v.comparators[0]) == "0" or isinstance(v.ops[0], ast.GtE) and norm(v.comparators[0]) == "1")
            for v in rets[0].value.values)
    chk.judge("R13.a", "compile_pass:FunctionData.is_called:main region or read at least once", ok,
              f"is_called returns {norm(rets[0].value) if rets else '?'}, expected 'self.node is None or self.sym_data.is_read > 0'", None, f"{cp.path}:{ic.lineno}")

    # ------------------------------------------------------------ R13.b
    hn = cp.func("CompilerPassCheckConstValue.handle_name")
    chk.saw("compile_pass", hn.qual)
    hcfg, hrd = fn_ctx(hn)
    wh = f"{cp.path}:{hn.lineno} in {hn.qual}"
    from .c15 import symbolic_path, _subst
    sets = [c for c in ast.walk(hn) if isinstance(c, ast.Call) and isinstance(c.func, ast.Attribute) and c.func.attr == "set_constant" and c.args]
    found = False

    def first_component(e):
        """get_scope_name(<node>).split('.')[0]  /  .partition('.')[0]"""
        if isinstance(e, ast.Subscript) and isinstance(e.slice, ast.Constant) and e.slice.value == 0 and isinstance(e.value, ast.Call) \
                and isinstance(e.value.func, ast.Attribute) and e.value.func.attr in ("split", "partition") and e.value.args \
                and isinstance(e.value.args[0], ast.Constant) and e.value.args[0].value == "." \
                and isinstance(e.value.func.value, ast.Call) and norm(e.value.func.value.func) == "get_scope_name":
            return True
        return False

    FALSY = ("", False, 0, None)

    def ev(e, empty):
        """Possible values of a __name__ expression when the module component is empty (main file) / not:
        a set over {'MOD', constants}, or None when the expression is not understood."""
        if first_component(e):
            return {""} if empty else {"MOD"}
        if isinstance(e, ast.Constant):
            return {e.value}
        if isinstance(e, ast.IfExp):
            t = ev(e.test, empty)
            if t is None:
                return None
            out = set()
            for tv in t:
                r = ev(e.body if tv not in FALSY else e.orelse, empty)
                if r is None:
                    return None
                out |= r
            return out
        if isinstance(e, ast.BoolOp) and isinstance(e.op, (ast.Or, ast.And)):
            is_or = isinstance(e.op, ast.Or)
            cur = None
            for v in e.values:
                r = ev(v, empty)
                if r is None:
                    return None
                if cur is None:
                    cur = r
                else:
                    cont = {x for x in cur if (x in FALSY) == is_or}   # values that let evaluation continue
                    cur = (cur - cont) | (r if cont else set())
            return cur
        if isinstance(e, ast.UnaryOp) and isinstance(e.op, ast.Not):
            r = ev(e.operand, empty)
            return None if r is None else {x in FALSY for x in r}
        if isinstance(e, ast.Compare) and len(e.ops) == 1 and isinstance(e.ops[0], (ast.Eq, ast.NotEq)):
            l, r = ev(e.left, empty), ev(e.comparators[0], empty)
            if l is None or r is None:
                return None
            out = set()
            for x in l:
                for y in r:
                    if x == "MOD" and y == "MOD":
                        eqs = {True}
                    elif "MOD" in (x, y):
                        other = y if x == "MOD" else x
                        eqs = {False} if other in FALSY or not isinstance(other, str) else {True, False}   # some module may carry that name
                    else:
                        eqs = {x == y}
                    out |= eqs if isinstance(e.ops[0], ast.Eq) else {not q for q in eqs}
            return out
        return None

    def state_attribute(val, c):
        """The folded value is pass-level state (self.<attr>) and not a function of the node: every run() of a pass that inherits this
        handler has to maintain it, otherwise that pass folds __name__ to a stale value."""
        if not (isinstance(val, ast.Attribute) and isinstance(val.value, ast.Name) and val.value.id == "self"):
            return False
        attr = val.attr
        cls = cp.classes.get(hn.qual.split(".")[0])
        users = [(m, k) for m, k in repo.subclasses(cls.name)
                 if (repo.method(m, k, "handle_name") or (None, None))[1] is hn]
        missing = []
        for m, k in users:
            got = repo.method(m, k, "run")
            if not got:
                continue
            sets_it = any(isinstance(t, ast.Attribute) and t.attr == attr and isinstance(t.value, ast.Name) and t.value.id == "self" and isinstance(t.ctx, ast.Store)
                          for t in ast.walk(got[1]))
            if not sets_it:
                missing.append(f"{k.name} (run is {got[1].qual})")
        if missing:
            chk.bad("R13.b", "compile_pass:handle_name:__name__ is the first component of the qualified scope name",
                    f"__name__ is folded to the pass attribute self.{attr}, which does not depend on the node; the run() of {', '.join(missing)} never assigns it, "
                    f"so in that pass a library's __name__ folds to whatever the attribute last held (its class default)", {"attribute": attr, "passes": missing}, wh)
            return True
        raise AnalysisError(f"handle_name: __name__ is folded to the pass attribute self.{attr}; every run() assigns it, but the assigned values are outside what this rule can follow")

    for c in sets:
        env, conds = symbolic_path(hn, c)
        is_name = False
        for t, p in conds:
            if isinstance(t, ast.Compare) and len(t.ops) == 1 and any(isinstance(k, ast.Constant) and k.value == "__name__" for k in t.comparators):
                is_name = isinstance(t.ops[0], ast.Eq) == p
        if not is_name:
            continue
        found = True
        val = _subst(c.args[0], env)
        r_main, r_lib = ev(val, True), ev(val, False)
        if r_main is None or r_lib is None:
            if state_attribute(val, c):
                continue
            raise AnalysisError(f"handle_name: value folded for __name__ not understood: {norm(val)[:100]}")
        chk.judge("R13.b", "compile_pass:handle_name:__name__ is the first component of the qualified scope name", r_lib == {"MOD"},
                  f"inside a library module __name__ can fold to {sorted(map(repr, r_lib - {'MOD'}))} (from {norm(val)[:80]}): expected the module's own name, the first component of get_scope_name(node)", None, wh)
        chk.judge("R13.b", "compile_pass:handle_name:'__main__' only for the main scope", r_main == {"__main__"} and "__main__" not in r_lib,
                  f"__name__ folds to {sorted(map(repr, r_main))} in the main file and {sorted(map(repr, r_lib))} in a library: a library's 'if __name__ == \"__main__\"' block must not run, the main file's must", None, wh)
    if not found:
        raise AnalysisError("handle_name: no constant is set under a test for the name __name__")
    ib = u.func("is_builtin_name")
    chk.saw("utils", "is_builtin_name")
    rets = [r for r in ast.walk(ib) if isinstance(r, ast.Return) and r.value is not None]
    okb = len(rets) == 1 and isinstance(rets[0].value, ast.BoolOp) and isinstance(rets[0].value.op, ast.And) and \
        any(isinstance(v, ast.Compare) and isinstance(v.ops[0], ast.NotEq) and any(isinstance(k, ast.Constant) and k.value == "__name__" for k in v.comparators) for v in rets[0].value.values)
    chk.judge("R13.b", "utils:is_builtin_name:__name__ is not a built-in name", okb,
              f"is_builtin_name returns {norm(rets[0].value) if rets else '?'}: symbols.__dict__ contains __name__, which must be excluded", None, f"{u.path}:{ib.lineno}")

    # ------------------------------------------------------------ R13.c
    n_acc = 0
    for mn in ("compile_pass", "generate_code", "register_assignment"):
        m = repo.mod(mn)
        for f in m.funcs.values():
            if isinstance(f, ast.Lambda):
                continue
            fcfg = frd = None
            for e in ast.walk(f):
                if enclosing_def(e) is not f:
                    continue
                key_expr = None
                table = None
                if isinstance(e, ast.Subscript) and _is_table(e.value):
                    key_expr, table = e.slice, norm(e.value)
                elif isinstance(e, ast.Call) and isinstance(e.func, ast.Attribute) and e.func.attr in ("get", "setdefault", "pop") and _is_table(e.func.value) and e.args:
                    key_expr, table = e.args[0], norm(e.func.value)
                elif isinstance(e, ast.Compare) and len(e.ops) == 1 and isinstance(e.ops[0], (ast.In, ast.NotIn)) and _is_table(e.comparators[0]):
                    key_expr, table = e.left, norm(e.comparators[0])
                if key_expr is None:
                    continue
                if fcfg is None:
                    fcfg, frd = fn_ctx(f)
                ids = live_ids(fcfg, e)
                if not ids:
                    continue
                n_acc += 1
                chk.saw(mn, f.qual)
                kind = _key_kind(key_expr, frd, ids[0], f, fcfg)
                if kind is not None and "main" in kind.split("/"):
                    chk.bad("R13.c", f"{mn}:{f.qual}:{table}[{norm(key_expr)}]",
                            f"the table {table} is read with the constant key '' (the main file's scope) whatever module the node at hand belongs to: a name of a library module "
                            f"that equals a name of the main file resolves to the main file's object, so equal names in different modules share meaning",
                            {"key": kind}, f"{m.path}:{e.lineno} in {f.qual}")
                    continue
                chk.judge("R13.c", f"{mn}:{f.qual}:{table}[{norm(key_expr)}]", kind is not None,
                          f"the table {table} is accessed with the key {norm(key_expr)}, which is neither get_scope_name(<node>) nor a key taken from the table: "
                          f"equal names in different modules would share storage", {"key": kind}, f"{m.path}:{e.lineno} in {f.qual}")
    if n_acc < 8:
        raise AnalysisError(f"R13.c: only {n_acc} keyed accesses to the symbol/structure tables found")

    # ------------------------------------------------------------ R13.d
    rule_module_lifetime(repo, chk, "R13.d")

    from .shared import rule_function_labels
    chk.guarded(rule_function_labels, repo, chk, "R13.g")
    from .c04 import rule_functions_below_modules, rule_module_chain
    chk.guarded(rule_functions_below_modules, repo, chk, "R13.f")
    chk.guarded(rule_module_chain, repo, chk, "R13.f")
    chk.rule("R13.h", "a library's 'if __name__ == \"__main__\":' block contributes nothing: the pass that forwards single-assignment constants to their "
                      "readers skips the nodes that were marked unused (otherwise an assignment inside that block replaces the library's own constant; "
                      "shared with R01.c)", floor=1)
    from .shared import rule_forwarding_skips_unused
    chk.guarded(rule_forwarding_skips_unused, repo, chk, "R13.h")
    chk.rule("R13.i", "the module-level code of the libraries runs in the order of the import statements: the passes that visit the modules go through "
                      "data.modules as it was filled, not sorted, reversed or through a set", floor=2)
    chk.guarded(r13i, repo, chk)

    # ------------------------------------------------------------ R13.e
    sm = cp.func("CompilerPassSetModuleNames.handle_import_from")
    chk.saw("compile_pass", sm.qual)
    ws = f"{cp.path}:{sm.lineno} in {sm.qual}"
    scfg, srd = fn_ctx(sm)
    name_store = [st for st in ast.walk(sm) if isinstance(st, ast.Assign) and any(isinstance(t, ast.Attribute) and t.attr == "name" for t in st.targets)]
    # the table that replaces data.modules at the end of run(): self.<attr>, assigned to self.data.modules
    runf = cp.func("CompilerPassSetModuleNames.run")
    tables = {norm(st.value) for st in ast.walk(runf) if isinstance(st, ast.Assign) and any(norm(t).endswith("data.modules") for t in st.targets)}
    if not tables:
        raise AnalysisError("SetModuleNames.run: the statement that replaces data.modules by the renamed table was not found")
    key_store = [st for st in ast.walk(sm) if isinstance(st, ast.Assign) and any(isinstance(t, ast.Subscript) and norm(t.value) in tables for t in st.targets)]
    in_place = [st for st in ast.walk(sm) if isinstance(st, ast.Assign) and any(isinstance(t, ast.Subscript) and norm(t.value).endswith("data.modules") for t in st.targets)]
    if in_place:
        chk.bad("R13.e", "compile_pass:SetModuleNames:module.name and the key of the module table are the same alias",
                f"'{norm(in_place[0])[:70]}' re-keys the table of modules in place while the import statements are still being read from it: an alias that equals the "
                f"file name of another library (imported later, or two libraries swapping names) overwrites or picks up the wrong module", None, ws)
        key_store = key_store or in_place
    if len(name_store) != 1 or len(key_store) != 1:
        raise AnalysisError(f"SetModuleNames.handle_import_from: expected one store of <module>.name and one store into the renamed table, found {len(name_store)} / {len(key_store)}")

    def resolved(e, at, depth=0):
        if isinstance(e, ast.Name) and depth < 3:
            ids_ = live_ids(scfg, at)
            ds_ = srd.at(ids_[0], e.id) if ids_ else []
            if len(ds_) == 1 and ds_[0].kind == "assign" and not ds_[0].index and ds_[0].value is not None:
                return resolved(ds_[0].value, scfg.nodes[ds_[0].node].ast, depth + 1)
        return norm(e)
    ns, ks = name_store[0], key_store[0]
    mod_obj = norm(next(t for t in ns.targets if isinstance(t, ast.Attribute)).value)
    new_name = resolved(ns.value, ns)
    key_t = next(t for t in ks.targets if isinstance(t, ast.Subscript))
    key = resolved(key_t.slice, ks)
    # the key is the new name itself, or <module>.name read back after it was stored
    same_key = key == new_name or (key == f"{mod_obj}.name" and ns.lineno <= ks.lineno)
    same_obj = resolved(ks.value, ks) == resolved(ast.parse(mod_obj, mode="eval").body, ks) or norm(ks.value) == mod_obj
    chk.judge("R13.e", "compile_pass:SetModuleNames:module.name and the key of the module table are the same alias", same_key and same_obj,
              f"the module {mod_obj} is renamed to {new_name} but stored under the key {key} (value {norm(ks.value)}): 'm.f()' would resolve to a scope that does not exist "
              f"or to another module", None, ws)
    # the loop variables over node.names: (module's own name, alias or None) -- whatever they are called
    nm_, al_ = "name", "alias"
    for lp_ in ast.walk(sm):
        if isinstance(lp_, ast.For) and norm(lp_.iter).endswith(".names") and isinstance(lp_.target, ast.Tuple) and len(lp_.target.elts) == 2 \
                and all(isinstance(e_, ast.Name) for e_ in lp_.target.elts):
            nm_, al_ = lp_.target.elts[0].id, lp_.target.elts[1].id
    chk.judge("R13.e", "compile_pass:SetModuleNames:new name = alias if given else the module's own name",
              new_name in tuple(t_.replace("alias", "\0").replace("name", nm_).replace("\0", al_) for t_ in (
                  "alias if alias else name", "alias or name", "name if not alias else alias", "name if alias is None else alias", "alias if alias is not None else name")),
              f"the new module name is {new_name}", None, ws)
    # get_scope_name appends the module's name; get_function_name = scope + '.' + name
    gs = u.func("get_scope_name")
    chk.saw("utils", "get_scope_name")
    # the walk up the scopes ends at the module; its name must flow into every scope name that is returned (other than '' for built-ins)
    walk_vars = set()
    for w in ast.walk(gs):
        if isinstance(w, ast.While):
            for c in ast.walk(w.test):
                if isinstance(c, ast.Call) and norm(c.func) == "isinstance" and len(c.args) == 2 and isinstance(c.args[0], ast.Name) and norm(c.args[1]).endswith("Module"):
                    walk_vars.add(c.args[0].id)
    if not walk_vars:
        raise AnalysisError("get_scope_name: the walk up to the enclosing module (while ... not isinstance(<scope>, nodes.Module)) was not found")

    # the module's name is <walk variable>.name AFTER the walk (inside the loop the variable is still an enclosing function)
    walk_loops = [w for w in ast.walk(gs) if isinstance(w, ast.While) and any(isinstance(c, ast.Call) and norm(c.func) == "isinstance" and len(c.args) == 2
                                                                              and isinstance(c.args[0], ast.Name) and c.args[0].id in walk_vars for c in ast.walk(w.test))]
    in_walk = {id(x) for w in walk_loops for st_ in w.body for x in ast.walk(st_)}
    gcfg, grd = fn_ctx(gs)

    def is_source(x):
        return isinstance(x, ast.Attribute) and x.attr == "name" and isinstance(x.value, ast.Name) and x.value.id in walk_vars and id(x) not in in_walk

    def carries(e, at, depth=0):
        """does the value of e contain the module's name on every way it can have been computed?"""
        if depth > 8:
            return False
        if any(is_source(x) for x in ast.walk(e)) and not isinstance(e, ast.IfExp):
            return True
        if isinstance(e, ast.IfExp):
            # [module] if module else []: without a name there is nothing to qualify with
            b_, o_ = carries(e.body, at, depth + 1), carries(e.orelse, at, depth + 1)
            return (b_ and o_) or (b_ and carries(e.test, at, depth + 1)) or (o_ and carries(e.test, at, depth + 1))
        names = [x for x in ast.walk(e) if isinstance(x, ast.Name) and isinstance(x.ctx, ast.Load) and x.id not in walk_vars]
        for nm in names:
            ids_ = live_ids(gcfg, at)
            ds = grd.at(ids_[0], nm.id) if ids_ else []
            vals = [d for d in ds if d.kind in ("assign", "aug") and d.value is not None]
            if not vals or len(vals) != len(ds):
                continue
            via_defs = all(carries(d.value.value if isinstance(d.value, ast.AugAssign) else d.value, gcfg.nodes[d.node].ast, depth + 1) or
                           (isinstance(d.value, ast.AugAssign) and carries(ast.Name(id=nm.id, ctx=ast.Load()), gcfg.nodes[d.node].ast, depth + 1) and False) for d in vals)
            # a list that receives the name by append / extend / insert outside the walk
            fed = any(isinstance(c, ast.Call) and isinstance(c.func, ast.Attribute) and c.func.attr in ("append", "extend", "insert", "appendleft") and isinstance(c.func.value, ast.Name)
                      and c.func.value.id == nm.id and id(c) not in in_walk and any(carries(a_, c, depth + 1) for a_ in c.args) for c in ast.walk(gs))
            if via_defs or fed:
                return True
        return False
    rets = [r for r in ast.walk(gs) if isinstance(r, ast.Return) and r.value is not None and not (isinstance(r.value, ast.Constant) and r.value.value == "")]
    if not rets:
        raise AnalysisError("get_scope_name: no return of a scope name found")
    unq = [norm(r.value)[:60] for r in rets if not carries(r.value, r)]
    tainted = set()
    chk.judge("R13.e", "utils:get_scope_name:scope names are qualified with the module name", not unq,
              f"get_scope_name returns {unq} without the name of the enclosing module in it: equal function or variable names of two modules get the same scope name",
              {"module name flows into": sorted(tainted)}, f"{u.path}:{gs.lineno}")
    gf = u.func("get_function_name")
    chk.saw("utils", "get_function_name")
    # every returned name is  <get_scope_name(node)> "." <local name>  when the scope name is not empty (and the local name alone otherwise)
    from .shared import return_paths
    gparam = gf.args.args[0].arg
    SC = f"get_scope_name({gparam})"

    def parts(e):
        """flatten string building into a list of pieces: text constants and expressions"""
        if isinstance(e, ast.BinOp) and isinstance(e.op, ast.Add):
            return parts(e.left) + parts(e.right)
        if isinstance(e, ast.JoinedStr):
            out = []
            for v in e.values:
                out += parts(v.value) if isinstance(v, ast.FormattedValue) and v.format_spec is None and v.conversion == -1 else [v.value if isinstance(v, ast.Constant) else norm(v)]
            return out
        if isinstance(e, ast.Constant) and isinstance(e.value, str):
            return [e.value]
        return [norm(e)]
    bad, npaths = [], 0
    for conds, v in return_paths(gf):
        if v is None:
            continue
        npaths += 1
        # is the scope name known to be empty / not empty on this path?
        nonempty = None
        for t, pol in conds:
            tt = norm(t)
            if tt == SC:
                nonempty = pol
            elif tt in (f"{SC} != ''", f"len({SC}) > 0"):
                nonempty = pol
            elif tt in (f"{SC} == ''", f"not {SC}"):
                nonempty = not pol
        ps = [x for x in parts(v) if x != ""]
        # merge adjacent constants
        merged = []
        for x in ps:
            if merged and not merged[-1].startswith(SC) and x != SC and not any(ch in merged[-1] for ch in "()") and not any(ch in x for ch in "()"):
                merged[-1] += x
            else:
                merged.append(x)
        if nonempty is False:
            ok_ = SC not in "".join(merged) or merged[0] == SC   # the scope is '' on this path: whatever is concatenated, it adds nothing but must not add a '.'
            ok_ = ok_ and not (len(merged) > 1 and merged[0] == SC and merged[1].startswith("."))
        elif nonempty is True:
            ok_ = len(merged) >= 2 and merged[0] == SC and merged[1].startswith(".")
        else:
            # no test on the scope name: 'scope + name' gives a name without separator, 'scope + "." + name' a leading dot for the main file
            ok_ = False
        if not ok_:
            bad.append((norm(v)[:70], {True: "scope not empty", False: "scope empty", None: "scope not tested"}[nonempty]))
    if npaths == 0:
        raise AnalysisError("get_function_name: no return found")
    chk.judge("R13.e", "utils:get_function_name:function names are prefixed with the qualified scope", not bad,
              f"get_function_name returns {bad}: expected '<module-qualified scope>.<name>' when the scope name is not empty and the bare name otherwise", None, f"{u.path}:{gf.lineno}")


def _is_table(e):
    t = norm(e)
    return t in ("self.symbols", "self.structures", "data.symbols", "data.structures", "self.data.symbols", "self.data.structures", "structures")


def _key_kind(k, rd, nid, fn, cfg, depth=0):
    """'scope-name' | 'iteration' | 'main' | None"""
    if depth > 4:
        return None
    if isinstance(k, ast.Constant) and k.value == "":
        return "main"
    if isinstance(k, ast.Call) and norm(k.func) == "get_scope_name":
        return "scope-name"
    if isinstance(k, ast.Name):
        ds = rd.at(nid, k.id)
        if not ds:
            return None
        kinds = set()
        for d in ds:
            if d.kind == "assign" and d.value is not None and not d.index:
                kinds.add(_key_kind(d.value, rd, d.node, fn, cfg, depth + 1))
            elif d.kind == "for":
                it = norm(d.value)
                if any(x in it for x in ("sorted_scopes", "data.symbols", "self.symbols", "all_scopes", ".structures")) or _keys_of_tables(d.value, rd, d.node, fn, cfg):
                    kinds.add("iteration")
                else:
                    kinds.add(None)
            else:
                kinds.add(None)
        if None in kinds:
            return None
        return "/".join(sorted(kinds))
    return None


def _keys_of_tables(e, rd, nid, fn, cfg, depth=0):
    """Are all elements of the iterable *e* keys of the per-compile tables (functions / symbols / structures / modules)?  Follows
    lists built with append, sorted(), set differences, comprehensions that pass elements through, and picks like ready[0]."""
    if depth > 14:
        return False
    if isinstance(e, ast.Call) and isinstance(e.func, ast.Attribute) and e.func.attr == "keys" and any(x in norm(e.func.value) for x in ("functions", "symbols", "structures", "modules")):
        return True
    if isinstance(e, ast.Attribute) and e.attr in ("functions", "symbols", "structures", "modules"):
        return True
    if isinstance(e, ast.Call) and norm(e.func) in ("sorted", "set", "list", "frozenset", "tuple", "reversed", "iter") and e.args:
        return _keys_of_tables(e.args[0], rd, nid, fn, cfg, depth + 1)
    if isinstance(e, ast.BinOp) and isinstance(e.op, (ast.Sub, ast.BitAnd)):
        return _keys_of_tables(e.left, rd, nid, fn, cfg, depth + 1)
    if isinstance(e, ast.BinOp) and isinstance(e.op, (ast.BitOr, ast.Add)):
        return _keys_of_tables(e.left, rd, nid, fn, cfg, depth + 1) and _keys_of_tables(e.right, rd, nid, fn, cfg, depth + 1)
    if isinstance(e, (ast.ListComp, ast.SetComp, ast.GeneratorExp)) and len(e.generators) == 1 and isinstance(e.elt, ast.Name) \
            and isinstance(e.generators[0].target, ast.Name) and e.elt.id == e.generators[0].target.id:
        return _keys_of_tables(e.generators[0].iter, rd, nid, fn, cfg, depth + 1)
    if isinstance(e, ast.Subscript) and not isinstance(e.slice, ast.Slice):
        return _keys_of_tables(e.value, rd, nid, fn, cfg, depth + 1)       # one element of a list of keys
    if isinstance(e, ast.Name):
        ds = rd.at(nid, e.id)
        if not ds:
            return False
        ok = True
        for d in ds:
            if d.kind == "assign" and d.value is not None and not d.index:
                v = d.value
                if isinstance(v, (ast.List, ast.Set, ast.Tuple)) and not v.elts or isinstance(v, ast.Call) and norm(v.func) in ("set", "list") and not v.args:
                    continue      # starts empty: filled below
                ok = ok and _keys_of_tables(v, rd, d.node, fn, cfg, depth + 1)
            elif d.kind == "for" and d.value is not None:
                ok = ok and _keys_of_tables(d.value, rd, d.node, fn, cfg, depth + 1)
            else:
                ok = False
        # elements added in place
        for c in ast.walk(fn):
            if isinstance(c, ast.Call) and isinstance(c.func, ast.Attribute) and isinstance(c.func.value, ast.Name) and c.func.value.id == e.id \
                    and c.func.attr in ("append", "add", "extend", "update") and c.args:
                ids = live_ids(cfg, c)
                at = ids[0] if ids else nid
                a = c.args[0]
                if c.func.attr in ("append", "add"):
                    # a single element: a loop variable / pick over keys
                    if isinstance(a, ast.Name):
                        da = rd.at(at, a.id)
                        # 'nothing found yet' (None) is not an element that is ever used as a key
                        real = [x for x in da if not (x.kind == "assign" and isinstance(x.value, ast.Constant) and x.value.value is None)]
                        da = real or da
                        ok = ok and bool(da) and all((x.kind == "for" and x.value is not None and _keys_of_tables(x.value, rd, x.node, fn, cfg, depth + 1)) or
                                                     (x.kind == "assign" and x.value is not None and _keys_of_tables(x.value, rd, x.node, fn, cfg, depth + 1)) for x in da)
                    else:
                        ok = ok and _keys_of_tables(a, rd, at, fn, cfg, depth + 1)
                else:
                    ok = ok and _keys_of_tables(a, rd, at, fn, cfg, depth + 1)
        return ok
    return False


# ---------------------------------------------------------------------- R13.i
def r13i(repo, chk, R="R13.i"):
    """run() of the code generation and gather passes: 'for module in self.data.modules.values(): self._visit_node(module)'."""
    n = 0
    for mn in ("generate_code", "compile_pass"):
        m = repo.mod(mn)
        for q, f in m.funcs.items():
            if not q.endswith(".run") or not isinstance(f, ast.FunctionDef):
                continue
            for lp in ast.walk(f):
                if not (isinstance(lp, ast.For) and "data.modules" in norm(lp.iter)):
                    continue
                visits = any(isinstance(c, ast.Call) and norm(c.func).endswith("_visit_node") or isinstance(c, ast.Call) and norm(c.func).endswith("_visit_node_recursive")
                             for c in ast.walk(lp))
                if not visits:
                    continue
                n += 1
                it = lp.iter
                how = None
                x = it
                while isinstance(x, ast.Call):
                    f_ = norm(x.func)
                    if f_ in ("sorted", "reversed", "set", "frozenset"):
                        how = f_
                    if f_ in ("sorted", "reversed", "set", "frozenset", "list", "tuple", "iter", "enumerate") and x.args:
                        x = x.args[0]
                    elif isinstance(x.func, ast.Attribute) and x.func.attr in ("values", "items", "keys"):
                        x = x.func.value
                    else:
                        break
                if any(isinstance(c, ast.Call) and norm(c.func) in ("sorted", "reversed", "set") for c in ast.walk(it)):
                    how = how or "sorted"
                chk.judge(R, f"{mn}:{q}:modules are visited in import order", how is None,
                          f"the modules are visited in the order of {norm(it)[:50]}: a library imported second but coming first in that order has its module-level code "
                          f"(the initialisation of its globals, device settings) run before the library it was imported after", None, f"{m.path}:{lp.lineno} in {q}")
    if n < 2:
        raise AnalysisError(f"R13.i: only {n} loops that visit the library modules found in the run() methods")
