"""C13 — library modules behave like the same code written in the main file (R13.a–e)."""
from __future__ import annotations

import ast
from ..model import Repo, AnalysisError, norm, enclosing_def
from ..report import Check
from .shared import fn_ctx, live_ids, guard_atoms, rule_module_lifetime, GEN_CLASS


def run(repo: Repo, chk: Check):
    chk.rule("R13.a", "a function's code is appended to the program only for the main region or when the function is called, and "
                      "never for constexpr functions", floor=3)
    chk.rule("R13.b", "__name__ folds to the module's own name, to '__main__' only for the main scope, and is not treated as a built-in name", floor=3)
    chk.rule("R13.c", "every access to the per-compile tables 'symbols' and 'structures' is keyed by the module-qualified scope name "
                      "(get_scope_name) or iterates the table itself", floor=8)
    chk.rule("R13.d", "module-level values of every module get the unbounded lifetime", floor=1)
    chk.rule("R13.g", "every construction of a function's label uses the module-qualified name, so a library function's label, its "
                      "references and the ra logic agree (shared with R05.d)", floor=6)
    chk.rule("R13.f", "every function scope stays clear of the registers of every library module's globals (shared with R04.f)", floor=1)
    chk.rule("R13.e", "an imported library module is renamed to its alias consistently (module name == key of the module table), and "
                      "scope / function names are qualified with that module name", floor=3)
    g = repo.mod("generate_code")
    cp = repo.mod("compile_pass")
    u = repo.mod("utils")

    # ------------------------------------------------------------ R13.a
    fn = g.func("CompilerPassGatherCode.run")
    chk.saw("generate_code", fn.qual)
    cfg, rd = fn_ctx(fn)
    where = f"{g.path}:{fn.lineno} in {fn.qual}"
    apps = [c for c in ast.walk(fn) if isinstance(c, ast.Call) and norm(c.func) in ("self.code.append", "self.code.extend")]
    if not apps:
        raise AnalysisError("CompilerPassGatherCode.run: append to self.code not found")
    for c in apps:
        ids = live_ids(cfg, c)
        atoms = guard_atoms(cfg, ids[0]) if ids else []
        txt = [(norm(t), p) for t, p in atoms]
        called = any(p and isinstance(t, ast.BoolOp) and isinstance(t.op, ast.Or) and any(norm(v).endswith(".is_called") for v in t.values)
                     and any(isinstance(v, ast.Compare) and any(isinstance(k, ast.Constant) and k.value == "" for k in v.comparators) for v in t.values)
                     and len(t.values) == 2 for t, p in atoms) or any(p and norm(t).endswith(".is_called") for t, p in atoms)
        noconst = any((not p) and norm(t).endswith(".is_constexpr") for t, p in atoms)
        chk.judge("R13.a", "generate_code:run:region emitted only if main or called", called,
                  f"function code is appended under the guards {txt}: expected 'fname == \"\" or func.is_called' (an uncalled library function must contribute no instructions)",
                  {"guards": txt}, where)
        chk.judge("R13.a", "generate_code:run:constexpr functions are skipped", noconst,
                  f"function code is appended without excluding constexpr functions (guards {txt})", None, where)
    ic = cp.func("FunctionData.is_called")
    chk.saw("compile_pass", ic.qual)
    rets = [r for r in ast.walk(ic) if isinstance(r, ast.Return) and r.value is not None]
    ok = len(rets) == 1 and isinstance(rets[0].value, ast.BoolOp) and isinstance(rets[0].value.op, ast.Or) and len(rets[0].value.values) == 2 and \
        any(norm(v) == "self.node is None" for v in rets[0].value.values) and \
        any(isinstance(v, ast.Compare) and norm(v.left).endswith("sym_data.is_read") and (isinstance(v.ops[0], ast.Gt) and norm(v.comparators[0]) == "0" or isinstance(v.ops[0], ast.GtE) and norm(v.comparators[0]) == "1")
            for v in rets[0].value.values)
    chk.judge("R13.a", "compile_pass:FunctionData.is_called:main region or read at least once", ok,
              f"is_called returns {norm(rets[0].value) if rets else '?'}, expected 'self.node is None or self.sym_data.is_read > 0'", None, f"{cp.path}:{ic.lineno}")

    # ------------------------------------------------------------ R13.b
    hn = cp.func("CompilerPassCheckConstValue.handle_name")
    chk.saw("compile_pass", hn.qual)
    hcfg, hrd = fn_ctx(hn)
    wh = f"{cp.path}:{hn.lineno} in {hn.qual}"
    sets = [c for c in ast.walk(hn) if isinstance(c, ast.Call) and isinstance(c.func, ast.Attribute) and c.func.attr == "set_constant"]
    found = False
    for c in sets:
        ids = live_ids(hcfg, c)
        atoms = guard_atoms(hcfg, ids[0]) if ids else []
        if not any(p and isinstance(t, ast.Compare) and any(isinstance(k, ast.Constant) and k.value == "__name__" for k in t.comparators) for t, p in atoms):
            continue
        found = True
        arg = c.args[0]
        vals = []
        if isinstance(arg, ast.Name):
            for d in hrd.at(ids[0], arg.id):
                vals.append((d, [(norm(t), p) for t, p in guard_atoms(hcfg, d.node)]))
        main_ok, mod_ok, other = False, False, []
        for d, gs in vals:
            v = d.value
            if isinstance(v, ast.Constant) and v.value == "__main__":
                main_ok = any(p and t.replace('"', "'") == f"{arg.id} == ''" for t, p in gs)
            elif isinstance(v, ast.Subscript) and isinstance(v.slice, ast.Constant) and v.slice.value == 0 and isinstance(v.value, ast.Call) and norm(v.value.func).endswith(".split") \
                    and v.value.args and isinstance(v.value.args[0], ast.Constant) and v.value.args[0].value == ".":
                src = v.value.func.value
                sd = hrd.at(d.node, src.id) if isinstance(src, ast.Name) else []
                mod_ok = bool(sd) and all(x.kind == "assign" and isinstance(x.value, ast.Call) and norm(x.value.func) == "get_scope_name" for x in sd)
            else:
                other.append(norm(v) if v is not None else d.kind)
        chk.judge("R13.b", "compile_pass:handle_name:__name__ is the first component of the qualified scope name", mod_ok and not other,
                  f"__name__ is folded from {[norm(d.value) for d, _ in vals]}: expected get_scope_name(node).split('.')[0]", None, wh)
        chk.judge("R13.b", "compile_pass:handle_name:'__main__' only for the main scope", main_ok,
                  "'__main__' is not assigned exactly under the guard that the module name is empty: a library's 'if __name__ == \"__main__\"' block would run", None, wh)
    if not found:
        chk.bad("R13.b", "compile_pass:handle_name:__name__ is folded", "no constant is set for the name __name__ any more", None, wh)
    ib = u.func("is_builtin_name")
    chk.saw("utils", "is_builtin_name")
    rets = [r for r in ast.walk(ib) if isinstance(r, ast.Return) and r.value is not None]
    okb = len(rets) == 1 and isinstance(rets[0].value, ast.BoolOp) and isinstance(rets[0].value.op, ast.And) and \
        any(isinstance(v, ast.Compare) and isinstance(v.ops[0], ast.NotEq) and any(isinstance(k, ast.Constant) and k.value == "__name__" for k in v.comparators) for v in rets[0].value.values)
    chk.judge("R13.b", "utils:is_builtin_name:__name__ is not a built-in name", okb,
              f"is_builtin_name returns {norm(rets[0].value) if rets else '?'}: symbols.__dict__ contains __name__, which must be excluded", None, f"{u.path}:{ib.lineno}")

    # ------------------------------------------------------------ R13.c
    n_acc = 0
    for mn in ("compile_pass", "generate_code", "register_assignment"):
        m = repo.mod(mn)
        for f in m.funcs.values():
            if isinstance(f, ast.Lambda):
                continue
            fcfg = frd = None
            for e in ast.walk(f):
                if enclosing_def(e) is not f:
                    continue
                key_expr = None
                table = None
                if isinstance(e, ast.Subscript) and _is_table(e.value):
                    key_expr, table = e.slice, norm(e.value)
                elif isinstance(e, ast.Call) and isinstance(e.func, ast.Attribute) and e.func.attr in ("get", "setdefault", "pop") and _is_table(e.func.value) and e.args:
                    key_expr, table = e.args[0], norm(e.func.value)
                elif isinstance(e, ast.Compare) and len(e.ops) == 1 and isinstance(e.ops[0], (ast.In, ast.NotIn)) and _is_table(e.comparators[0]):
                    key_expr, table = e.left, norm(e.comparators[0])
                if key_expr is None:
                    continue
                if fcfg is None:
                    fcfg, frd = fn_ctx(f)
                ids = live_ids(fcfg, e)
                if not ids:
                    continue
                n_acc += 1
                chk.saw(mn, f.qual)
                kind = _key_kind(key_expr, frd, ids[0], f, fcfg)
                chk.judge("R13.c", f"{mn}:{f.qual}:{table}[{norm(key_expr)}]", kind is not None,
                          f"the table {table} is accessed with the key {norm(key_expr)}, which is neither get_scope_name(<node>) nor a key taken from the table: "
                          f"equal names in different modules would share storage", {"key": kind}, f"{m.path}:{e.lineno} in {f.qual}")
    if n_acc < 8:
        raise AnalysisError(f"R13.c: only {n_acc} keyed accesses to the symbol/structure tables found")

    # ------------------------------------------------------------ R13.d
    rule_module_lifetime(repo, chk, "R13.d")

    from .shared import rule_function_labels
    chk.guarded(rule_function_labels, repo, chk, "R13.g")
    from .c04 import rule_functions_below_modules
    chk.guarded(rule_functions_below_modules, repo, chk, "R13.f")

    # ------------------------------------------------------------ R13.e
    sm = cp.func("CompilerPassSetModuleNames.handle_import_from")
    chk.saw("compile_pass", sm.qual)
    ws = f"{cp.path}:{sm.lineno} in {sm.qual}"
    name_store = [st for st in ast.walk(sm) if isinstance(st, ast.Assign) and any(isinstance(t, ast.Attribute) and t.attr == "name" for t in st.targets)]
    key_store = [st for st in ast.walk(sm) if isinstance(st, ast.Assign) and any(isinstance(t, ast.Subscript) and "_renamed_modules" in norm(t.value) for t in st.targets)]
    ok = len(name_store) == 1 and len(key_store) == 1 and norm(name_store[0].value) == norm(key_store[0].targets[0].slice) \
        and norm(key_store[0].value) == norm(name_store[0].targets[0].value)
    chk.judge("R13.e", "compile_pass:SetModuleNames:module.name and the key of the module table are the same alias", ok,
              "the module is stored under one name and renamed to another: 'm.f()' would resolve to a scope that does not exist or to another module", None, ws)
    alias_defs = []
    if name_store and isinstance(name_store[0].value, ast.Name):
        scfg, srd = fn_ctx(sm)
        ids = live_ids(scfg, name_store[0])
        alias_defs = [norm(d.value) for d in srd.at(ids[0], name_store[0].value.id) if d.value is not None]
    chk.judge("R13.e", "compile_pass:SetModuleNames:new name = alias if given else the module's own name", alias_defs == ["alias if alias else name"] or alias_defs == ["alias or name"],
              f"the new module name is {alias_defs}", None, ws)
    # get_scope_name appends the module's name; get_function_name = scope + '.' + name
    gs = u.func("get_scope_name")
    chk.saw("utils", "get_scope_name")
    okq = any(isinstance(c, ast.Call) and norm(c.func) == "parents.append" and norm(c.args[0]).endswith(".name") for c in ast.walk(gs)) and \
        any(isinstance(c, ast.Call) and norm(c.func) == "'.'.join" for c in ast.walk(gs))
    chk.judge("R13.e", "utils:get_scope_name:scope names are qualified with the module name", okq,
              "get_scope_name no longer appends the module's name and joins with '.'", None, f"{u.path}:{gs.lineno}")
    gf = u.func("get_function_name")
    chk.saw("utils", "get_function_name")
    rets = [r for r in ast.walk(gf) if isinstance(r, ast.Return) and r.value is not None]
    okf = bool(rets) and all(isinstance(r.value, ast.BinOp) and isinstance(r.value.op, ast.Add) and norm(r.value).startswith("scope +") for r in rets) and \
        any(isinstance(st, ast.Assign) and norm(st.targets[0]) == "scope" and norm(st.value) == "get_scope_name(node)" for st in ast.walk(gf))
    chk.judge("R13.e", "utils:get_function_name:function names are prefixed with the qualified scope", okf,
              f"get_function_name returns {[norm(r.value) for r in rets]}", None, f"{u.path}:{gf.lineno}")


def _is_table(e):
    t = norm(e)
    return t in ("self.symbols", "self.structures", "data.symbols", "data.structures", "self.data.symbols", "self.data.structures", "structures")


def _key_kind(k, rd, nid, fn, cfg, depth=0):
    """'scope-name' | 'iteration' | 'main' | None"""
    if depth > 4:
        return None
    if isinstance(k, ast.Constant) and k.value == "":
        return "main"
    if isinstance(k, ast.Call) and norm(k.func) == "get_scope_name":
        return "scope-name"
    if isinstance(k, ast.Name):
        ds = rd.at(nid, k.id)
        if not ds:
            return None
        kinds = set()
        for d in ds:
            if d.kind == "assign" and d.value is not None and not d.index:
                kinds.add(_key_kind(d.value, rd, d.node, fn, cfg, depth + 1))
            elif d.kind == "for":
                it = norm(d.value)
                if any(x in it for x in ("sorted_scopes", "data.symbols", "self.symbols", "all_scopes", ".structures")):
                    kinds.add("iteration")
                else:
                    kinds.add(None)
            else:
                kinds.add(None)
        if None in kinds:
            return None
        return "/".join(sorted(kinds))
    return None
