"""C08 — compact output means the same as verbose output (R08.a–g)."""
from __future__ import annotations

import ast
from ..model import Repo, AnalysisError, norm, enclosing_def
from ..report import Check
from ..linnorm import compare_upper_bound
from .shared import fn_ctx, live_ids, guard_atoms
from .c02 import rule_mode_readers
from .c16 import enum_tables


def _int(e):
    if isinstance(e, ast.Constant) and isinstance(e.value, int) and not isinstance(e.value, bool):
        return e.value
    if isinstance(e, ast.BinOp) and isinstance(e.op, ast.LShift) and _int(e.left) is not None and _int(e.right) is not None:
        return _int(e.left) << _int(e.right)
    if isinstance(e, ast.BinOp) and isinstance(e.op, ast.Pow) and _int(e.left) is not None and _int(e.right) is not None:
        return _int(e.left) ** _int(e.right)
    if isinstance(e, ast.BinOp) and isinstance(e.op, ast.Sub) and _int(e.left) is not None and _int(e.right) is not None:
        return _int(e.left) - _int(e.right)
    return None


def signed_fold_idiom(e, var):
    """Is *e* the signed-32-bit fold of the unsigned value held in *var*?  -> name of the idiom or None"""
    # (v ^ 0x80000000) - 0x80000000
    if isinstance(e, ast.BinOp) and isinstance(e.op, ast.Sub) and isinstance(e.left, ast.BinOp) and isinstance(e.left.op, ast.BitXor):
        a, b = e.left.left, e.left.right
        c1 = _int(b) if norm(a) == var else (_int(a) if norm(b) == var else None)
        if c1 == 0x80000000 and _int(e.right) == 0x80000000:
            return "(v ^ 2**31) - 2**31"
        return None
    # ((v + 2**31) % 2**32) - 2**31   /   ((v + 2**31) & 0xffffffff) - 2**31
    if isinstance(e, ast.BinOp) and isinstance(e.op, ast.Sub) and _int(e.right) == 0x80000000 and isinstance(e.left, ast.BinOp) \
            and isinstance(e.left.left, ast.BinOp) and isinstance(e.left.left.op, ast.Add):
        inner = e.left.left
        addc = _int(inner.right) if norm(inner.left) == var else (_int(inner.left) if norm(inner.right) == var else None)
        if addc == 0x80000000 and (isinstance(e.left.op, ast.Mod) and _int(e.left.right) == 1 << 32 or isinstance(e.left.op, ast.BitAnd) and _int(e.left.right) == 0xFFFFFFFF):
            return "((v + 2**31) mod 2**32) - 2**31"
        return None
    # v - 2**32 if v >= 2**31 else v   (and equivalent tests)
    if isinstance(e, ast.IfExp):
        t, b, o = e.test, e.body, e.orelse
        def is_sub(x):
            return isinstance(x, ast.BinOp) and isinstance(x.op, ast.Sub) and norm(x.left) == var and _int(x.right) == 1 << 32
        def high(tst):
            if isinstance(tst, ast.Compare) and len(tst.ops) == 1 and norm(tst.left) == var:
                c = _int(tst.comparators[0])
                if isinstance(tst.ops[0], ast.GtE) and c == 0x80000000 or isinstance(tst.ops[0], ast.Gt) and c == 0x7FFFFFFF:
                    return True
                if isinstance(tst.ops[0], ast.Lt) and c == 0x80000000 or isinstance(tst.ops[0], ast.LtE) and c == 0x7FFFFFFF:
                    return False
            if isinstance(tst, ast.BinOp) and isinstance(tst.op, ast.BitAnd) and {norm(tst.left), norm(tst.right)} >= {var} and 0x80000000 in (_int(tst.left), _int(tst.right)):
                return True
            return None
        h = high(t)
        if h is True and is_sub(b) and norm(o) == var:
            return "v - 2**32 if v >= 2**31 else v"
        if h is False and is_sub(o) and norm(b) == var:
            return "v if v < 2**31 else v - 2**32"
        return None
    # ctypes.c_int32(v).value
    if isinstance(e, ast.Attribute) and e.attr == "value" and isinstance(e.value, ast.Call) and norm(e.value.func).endswith("c_int32") \
            and len(e.value.args) == 1 and norm(e.value.args[0]) == var:
        return "ctypes.c_int32(v).value"
    # int.from_bytes(v.to_bytes(4, X), X, signed=True)
    if isinstance(e, ast.Call) and norm(e.func) == "int.from_bytes" and e.args and isinstance(e.args[0], ast.Call) and norm(e.args[0].func) == f"{var}.to_bytes":
        tb = e.args[0]
        signed = any(k.arg == "signed" and isinstance(k.value, ast.Constant) and k.value.value is True for k in e.keywords)
        same = len(tb.args) >= 2 and len(e.args) >= 2 and norm(tb.args[1]) == norm(e.args[1]) and _int(tb.args[0]) == 4
        if signed and same:
            return "int.from_bytes(v.to_bytes(4, e), e, signed=True)"
    return None


def _eval_int(e, env):
    """value of a closed integer expression (names from env), or raise ValueError"""
    if isinstance(e, ast.Constant) and isinstance(e.value, int) and not isinstance(e.value, bool):
        return e.value
    if isinstance(e, ast.Name) and e.id in env:
        return env[e.id]
    if isinstance(e, ast.UnaryOp) and isinstance(e.op, (ast.USub, ast.Invert, ast.UAdd)):
        v = _eval_int(e.operand, env)
        return -v if isinstance(e.op, ast.USub) else (~v if isinstance(e.op, ast.Invert) else v)
    if isinstance(e, ast.BinOp):
        a, b = _eval_int(e.left, env), _eval_int(e.right, env)
        t = type(e.op)
        if t in (ast.LShift, ast.Pow) and not 0 <= b <= 128:
            raise ValueError
        if t in (ast.FloorDiv, ast.Mod) and b == 0:
            raise ValueError
        ops = {ast.Add: lambda: a + b, ast.Sub: lambda: a - b, ast.Mult: lambda: a * b, ast.FloorDiv: lambda: a // b, ast.Mod: lambda: a % b, ast.BitAnd: lambda: a & b,
               ast.BitOr: lambda: a | b, ast.BitXor: lambda: a ^ b, ast.LShift: lambda: a << b, ast.RShift: lambda: a >> b, ast.Pow: lambda: a ** b}
        if t not in ops:
            raise ValueError
        return ops[t]()
    if isinstance(e, ast.IfExp):
        return _eval_int(e.body if _eval_truth(e.test, env) else e.orelse, env)
    raise ValueError


def _eval_truth(t, env):
    if isinstance(t, ast.Compare) and len(t.ops) == 1:
        a, b = _eval_int(t.left, env), _eval_int(t.comparators[0], env)
        return {ast.Lt: a < b, ast.LtE: a <= b, ast.Gt: a > b, ast.GtE: a >= b, ast.Eq: a == b, ast.NotEq: a != b}[type(t.ops[0])]
    if isinstance(t, ast.BoolOp):
        vs = [_eval_truth(v, env) for v in t.values]
        return all(vs) if isinstance(t.op, ast.And) else any(vs)
    if isinstance(t, ast.UnaryOp) and isinstance(t.op, ast.Not):
        return not _eval_truth(t.operand, env)
    return bool(_eval_int(t, env))


def _fold_on_samples(cfg, rd, ret, crc):
    """(True, None) / (False, (unsigned, got, expected)) for the value returned by calc_hash as a function of the CRC; None if the
    arithmetic between the crc32 call and the return is not closed integer arithmetic over single assignments."""
    SAMPLES = [0, 1, 0x7FFFFFFF, 0x80000000, 0x80000001, 0xFFFFFFFF, 0x12345678, 0xDEADBEEF, 0xFFFFFFFE, 0x7FFFFFFE]

    def expand(e, at, depth=0):
        """replace single-assigned locals by their definitions until only the crc call is left"""
        if depth > 8:
            raise ValueError
        class R(ast.NodeTransformer):
            def visit_Call(self, c):
                if any(c is x for x in crc):
                    return ast.Name(id="__crc", ctx=ast.Load())
                raise ValueError
            def visit_Name(self, n):
                ds = rd.at(at, n.id)
                if len(ds) != 1 or ds[0].kind != "assign" or ds[0].index or ds[0].value is None:
                    raise ValueError
                return expand(ds[0].value, ds[0].node, depth + 1)
        from ..inline import _clone
        # clone, but keep identity of the crc call for the test above
        if any(e is x for x in crc):
            return ast.Name(id="__crc", ctx=ast.Load())
        if isinstance(e, ast.Name):
            return R().visit_Name(e)
        new = type(e)()
        for f in e._fields:
            v = getattr(e, f, None)
            if isinstance(v, list):
                setattr(new, f, [expand(x, at, depth) if isinstance(x, ast.expr) else x for x in v])
            elif isinstance(v, ast.expr):
                setattr(new, f, expand(v, at, depth))
            else:
                setattr(new, f, v)
        if isinstance(new, ast.Call):
            raise ValueError
        return new
    try:
        closed = expand(ret.ast.value, ret.id)
        for u in SAMPLES:
            got = _eval_int(closed, {"__crc": u})
            exp = u - (1 << 32) if u >= (1 << 31) else u
            if got != exp:
                return False, (u, got, exp)
        return True, None
    except (ValueError, KeyError, RecursionError):
        return None


def rule_format_enum(repo: Repo, chk: Check, R: str):
    from .shared import return_paths, cond_polarity
    u = repo.mod("utils")
    fe = u.func("format_enum")
    chk.saw("utils", "format_enum")
    wfe = f"{u.path}:{fe.lineno} in format_enum"
    ep = fe.args.args[0].arg

    def verbose_pred(t):
        if isinstance(t, ast.Compare) and len(t.ops) == 1 and norm(t.left).endswith("_output_mode") and norm(t.comparators[0]) == "OutputMode.VERBOSE":
            if isinstance(t.ops[0], (ast.Eq, ast.Is)):
                return True
            if isinstance(t.ops[0], (ast.NotEq, ast.IsNot)):
                return False
        return None

    def is_name(v):
        """<ep>.name, possibly prefixed by the member's type name."""
        if norm(v) == f"{ep}.name":
            return True
        if isinstance(v, ast.BinOp) and isinstance(v.op, ast.Add) and norm(v.right) == f"{ep}.name":
            return True
        if isinstance(v, ast.JoinedStr) and v.values and isinstance(v.values[-1], ast.FormattedValue) and norm(v.values[-1].value) == f"{ep}.name":
            others = [x for x in v.values[:-1] if isinstance(x, ast.FormattedValue)]
            return all(ep in norm(x.value) and "name__" in norm(x.value) for x in others)
        return False

    seen = {"verbose": 0, "compact": 0}
    bad = []
    bare_by_name = []
    from ..cfg import decompose as decompose_
    for conds, v in return_paths(fe):
        if v is None:
            continue
        pol = cond_polarity(conds, verbose_pred)
        if pol == "infeasible":
            continue
        if pol is None:
            raise AnalysisError("format_enum: a return is not guarded by a comparison of the output mode with OutputMode.VERBOSE")
        if pol:
            seen["verbose"] += 1
            if not is_name(v):
                bad.append(("verbose", norm(v)))
            elif norm(v) == f"{ep}.name":
                # the bare name is IC10's spelling of LogicType / LogicSlotType / LogicBatchMethod members only: whether the prefix may be
                # dropped has to be decided by the member's TYPE
                by_type = by_name = False
                for t, p_ in conds:
                    for at_, ap_ in decompose_(t, p_):
                        tt = norm(at_)
                        if ap_ and isinstance(at_, ast.Call) and norm(at_.func) == "isinstance" and len(at_.args) == 2 and norm(at_.args[0]) == ep and "Logic" in norm(at_.args[1]):
                            by_type = True
                        elif ap_ and tt.startswith(f"type({ep})") and "Logic" in tt:
                            by_type = True
                        elif ap_ and isinstance(at_, ast.Compare) and f"{ep}.name" in norm(at_.left) and isinstance(at_.ops[0], ast.In):
                            by_name = True
                if by_name and not by_type:
                    bare_by_name.append(norm(v))
                elif not by_type:
                    raise AnalysisError("format_enum: the condition under which the bare member name is returned was not understood")
        else:
            seen["compact"] += 1
            if norm(v) not in (f"{ep}.value", f"int({ep})", f"int({ep}.value)"):
                bad.append(("compact", norm(v)))
    if not seen["verbose"] or not seen["compact"]:
        raise AnalysisError(f"format_enum: returns per mode {seen}")
    chk.judge(R, "utils:format_enum:verbose spelling is the member's name", not [b_ for b_ in bad if b_[0] == "verbose"],
              f"a verbose return is {[b_[1] for b_ in bad if b_[0] == 'verbose']}, not <member>.name (optionally prefixed by its type name) of the argument", None, wfe)
    chk.judge(R, "utils:format_enum:the enum prefix is dropped by type, not by name", not bare_by_name,
              "the bare member name is returned whenever a logic type / slot type / batch method of the same NAME exists: DaylightSensorMode.Vertical (2) is written 'Vertical', "
              "which IC10 reads as LogicType.Vertical (21), while the compact output carries 2", None, wfe)
    chk.judge(R, "utils:format_enum:compact spelling is the member's value", not [b_ for b_ in bad if b_[0] == "compact"],
              f"a non-verbose return is {[b_[1] for b_ in bad if b_[0] == 'compact']}, not <member>.value of the same argument", None, wfe)


def run(repo: Repo, chk: Check):
    chk.rule("R08.a", "calc_hash is CRC-32 of the UTF-8 bytes of the name folded to signed 32 bit by a recognised idiom with the right constants", floor=2)
    chk.rule("R08.b", "compute_string packs the characters big-endian: val = val << 8 | ord(c), in forward order, starting from 0", floor=2)
    chk.rule("R08.c", "number and symbolic spelling handed to _apply_output_mode derive from the same string; _apply_output_mode returns "
                      "the spelling under VERBOSE, the number under NUMERIC and one of the two otherwise", floor=6)
    chk.rule("R08.d", "format_enum returns .name (verbose) or .value (otherwise) of the one object it was given", floor=2)
    chk.rule("R08.e", "the output mode is read only by the spelling functions", floor=3)
    chk.rule("R08.f", "within each enumeration no two names share a number", floor=27)
    chk.rule("R08.i", "compile-time evaluation reads hash constants through a spelling-independent coercion, so that the compact and the "
                      "verbose compilation fold to the same values and keep the same branches (shared with R03.k)", floor=20)
    chk.rule("R08.h", "CRC-32 is computed in calc_hash only: every other place that needs a hash calls calc_hash (no second, differently signed hash)", floor=1)
    chk.rule("R08.g", "format_int prints decimal or '$'+uppercase hex of the same value, hex only for values proven non-negative", floor=2)
    u = repo.mod("utils")
    t = repo.mod("types")

    # ------------------------------------------------------------ R08.a
    ch = u.func("calc_hash")
    chk.saw("utils", "calc_hash")
    cfg, rd = fn_ctx(ch)
    where = f"{u.path}:{ch.lineno} in calc_hash"
    param = ch.args.args[0].arg
    crc = [c for c in ast.walk(ch) if isinstance(c, ast.Call) and norm(c.func) in ("zlib.crc32", "binascii.crc32", "crc32")]
    ok_crc = False
    if len(crc) == 1 and len(crc[0].args) == 1:
        a = crc[0].args[0]
        if isinstance(a, ast.Call) and isinstance(a.func, ast.Attribute) and a.func.attr == "encode" and norm(a.func.value) == param:
            enc = [x.value for x in a.args if isinstance(x, ast.Constant)] + [k.value.value for k in a.keywords if isinstance(k.value, ast.Constant)]
            ok_crc = all(str(x).lower().replace("-", "").replace("_", "") in ("utf8", "strict") for x in enc)
    chk.judge("R08.a", "utils:calc_hash:CRC-32 of the UTF-8 bytes", ok_crc,
              f"calc_hash does not compute crc32({param}.encode()) with UTF-8: {[norm(c) for c in crc]}", None, where)
    rets = [n for n in cfg.nodes if n.kind == "return" and n.id in cfg.reachable()]
    idiom = None
    if len(rets) == 1 and rets[0].ast.value is not None and crc:
        rv = rets[0].ast.value
        # chain: val = crc32(...); val = fold(val); return val
        expr, at = rv, rets[0].id
        steps = []
        for _ in range(6):
            if isinstance(expr, ast.Name):
                ds = rd.at(at, expr.id)
                if len(ds) != 1 or ds[0].kind != "assign":
                    break
                steps.append((expr.id, ds[0]))
                expr, at = ds[0].value, ds[0].node
            else:
                break
        # expr is now the outermost non-name expression
        if any(c is expr for c in crc):
            idiom = None  # returns the raw unsigned value
            folded = False
        else:
            var = None
            for nme in ast.walk(expr):
                if isinstance(nme, ast.Name):
                    ds = rd.at(at, nme.id)
                    if len(ds) == 1 and ds[0].kind == "assign" and any(c is ds[0].value for c in crc):
                        var = nme.id
            if var is None and any(c in list(ast.walk(expr)) for c in crc):
                # fold applied directly to the call: replace textually
                var = norm(crc[0])
            idiom = signed_fold_idiom(expr, var) if var else None
    if idiom is None and crc:
        # the conditional form written with statements: if v >= 2**31: return v - 2**32 ... return v
        from .shared import return_paths
        ps = [(c_, v_) for c_, v_ in return_paths(ch) if v_ is not None]
        if len(ps) == 2 and len(ps[0][0]) == 1 and len(ps[1][0]) == 1 and norm(ps[0][0][0][0]) == norm(ps[1][0][0][0]) and ps[0][0][0][1] != ps[1][0][0][1]:
            t_ = ps[0][0][0][0]
            body_, else_ = (ps[0][1], ps[1][1]) if ps[0][0][0][1] else (ps[1][1], ps[0][1])
            idiom = signed_fold_idiom(ast.IfExp(test=t_, body=body_, orelse=else_), norm(crc[0]))
    witness = None
    if idiom is None and crc and len(rets) == 1 and rets[0].ast.value is not None:
        # not one of the listed idioms: evaluate the arithmetic on the boundary values of an unsigned 32-bit number
        verdict = _fold_on_samples(cfg, rd, rets[0], crc)
        if verdict is None:
            chk.unresolved("R08.a", "utils:calc_hash:folded to signed 32 bit", "how the CRC is turned into the signed value could not be evaluated", where)
            idiom = "?"
        elif verdict[0]:
            idiom = "evaluated on the boundary values 0, 2**31 - 1, 2**31, 2**32 - 1, ..."
        else:
            witness = verdict[1]
    if idiom == "?":
        pass
    else:
      chk.judge("R08.a", "utils:calc_hash:folded to signed 32 bit", idiom is not None,
              (f"for the unsigned CRC {witness[0]:#x} calc_hash returns {witness[1]}, the signed 32-bit value is {witness[2]}: " if witness else "") +
              "the CRC is not folded to the signed 32-bit value by a recognised idiom ((v ^ 2**31) - 2**31, v - 2**32 if v >= 2**31 else v, "
              "c_int32, from_bytes(signed=True)) with the right constants: HASH(\"...\") would differ from the game's signed hash",
              {"idiom": idiom}, where)

    # ------------------------------------------------------------ R08.b
    cs = t.func("compute_string")
    chk.saw("types", "compute_string")
    wcs = f"{t.path}:{cs.lineno} in compute_string"
    sparam = cs.args.args[0].arg
    loops = [lp for lp in ast.walk(cs) if isinstance(lp, ast.For)]
    ok_loop = len(loops) == 1 and norm(loops[0].iter) == sparam and isinstance(loops[0].target, ast.Name)
    chk.judge("R08.b", "types:compute_string:iterates the string in forward order", ok_loop,
              f"the loop iterates {[norm(lp.iter) for lp in loops]}, expected the string {sparam} itself (first character = most significant byte)", None, wcs)
    acc_ok = False
    acc = None
    if ok_loop:
        cvar = loops[0].target.id
        for st in loops[0].body:
            if isinstance(st, ast.Assign) and len(st.targets) == 1 and isinstance(st.targets[0], ast.Name):
                acc = st.targets[0].id
                v = st.value
                ordc = f"ord({cvar})"
                forms = {f"{acc} << 8 | {ordc}", f"({acc} << 8) | {ordc}", f"{acc} * 256 + {ordc}", f"{acc} << 8 | {ordc}", f"({acc} << 8) + {ordc}",
                         f"{ordc} | {acc} << 8", f"{ordc} + {acc} * 256", f"{acc} * 256 | {ordc}"}
                acc_ok = norm(v) in forms
        init = [st for st in cs.body if isinstance(st, ast.Assign) and acc and norm(st.targets[0]) == acc]
        acc_ok = acc_ok and bool(init) and isinstance(init[0].value, ast.Constant) and init[0].value.value == 0
    chk.judge("R08.b", "types:compute_string:val = val << 8 | ord(c) from 0", acc_ok,
              "the accumulator is not 'val = val << 8 | ord(c)' starting at 0 (big-endian byte packing as the game's STR())", None, wcs)

    # ------------------------------------------------------------ R08.c
    am = t.func("_apply_output_mode")
    chk.saw("types", "_apply_output_mode")
    acfg, ard = fn_ctx(am)
    wam = f"{t.path}:{am.lineno} in _apply_output_mode"
    ps = [a.arg for a in am.args.args]
    if len(ps) < 3:
        raise AnalysisError("_apply_output_mode: signature changed")
    numP, strP, modeP = ps[0], ps[1], ps[2]
    from .shared import return_paths

    def is_mode_expr(e):
        """the mode parameter, the global default utils._output_mode, or '<default> if <param> is None else <param>'"""
        if isinstance(e, ast.Name) and e.id == modeP:
            return True
        if isinstance(e, ast.Attribute) and e.attr == "_output_mode":
            return True
        if isinstance(e, ast.IfExp) and is_mode_expr(e.body) and is_mode_expr(e.orelse):
            return True
        return False

    def mode_names(e):
        """OutputMode.X / a tuple, list or set of them -> ['X', ...] else None"""
        if isinstance(e, ast.Attribute) and norm(e.value).endswith("OutputMode"):
            return [e.attr]
        if isinstance(e, (ast.Tuple, ast.List, ast.Set)):
            out = []
            for x in e.elts:
                r = mode_names(x)
                if r is None:
                    return None
                out += r
            return out
        return None

    def cond_under(e, m):
        """truth of a path condition when the effective mode is *m*: True / False / None (does not depend on the mode)"""
        if isinstance(e, ast.BoolOp):
            vals = [cond_under(v, m) for v in e.values]
            if isinstance(e.op, ast.And):
                return False if False in vals else (None if None in vals else True)
            return True if True in vals else (None if None in vals else False)
        if isinstance(e, ast.UnaryOp) and isinstance(e.op, ast.Not):
            r = cond_under(e.operand, m)
            return None if r is None else not r
        if isinstance(e, ast.Compare) and len(e.ops) == 1:
            l, r, op = e.left, e.comparators[0], e.ops[0]
            if is_mode_expr(r) and not is_mode_expr(l):
                l, r = r, l
            if is_mode_expr(l):
                if isinstance(r, ast.Constant) and r.value is None:
                    return None      # 'no mode given': the default is looked up, any mode can result
                names = mode_names(r)
                if names is None:
                    raise AnalysisError(f"_apply_output_mode: test on the mode not understood: {norm(e)}")
                if isinstance(op, (ast.Eq, ast.Is, ast.In)):
                    return m in names
                if isinstance(op, (ast.NotEq, ast.IsNot, ast.NotIn)):
                    return m not in names
                raise AnalysisError(f"_apply_output_mode: test on the mode not understood: {norm(e)}")
        if any(is_mode_expr(x) for x in ast.walk(e) if isinstance(x, (ast.Name, ast.Attribute))) and not (isinstance(e, ast.Compare)):
            raise AnalysisError(f"_apply_output_mode: test on the mode not understood: {norm(e)}")
        return None

    paths = return_paths(am)
    members = sorted(enum_tables(repo).get("OutputMode", {})) if "OutputMode" in enum_tables(repo) else ["VERBOSE", "NUMERIC", "COMPACT"]
    for need in ("VERBOSE", "NUMERIC"):
        if need not in members:
            members.append(need)
    for m in members:
        got = set()
        for conds, v in paths:
            feasible = True
            for e, pol in conds:
                r = cond_under(e, m)
                if r is not None and r != pol:
                    feasible = False
            if not feasible:
                continue
            if isinstance(v, ast.Name) and v.id in (numP, strP):
                got.add("number" if v.id == numP else "spelling")
            else:
                got.add("other:" + (norm(v) if v is not None else "None"))
        exp = {"VERBOSE": {"spelling"}, "NUMERIC": {"number"}}.get(m)
        ok_m = bool(got) and (got == exp if exp else got <= {"number", "spelling"})
        chk.judge("R08.c", f"types:_apply_output_mode:return under mode {m}", ok_m,
                  f"under output mode {m} the function returns {sorted(got) or 'nothing'}, expected {sorted(exp) if exp else 'the number or the spelling of the same value'}",
                  {"returns": sorted(got)}, wam)
    # parameters are not reassigned (except the default of the mode)
    re_ = [norm(st) for st in ast.walk(am) if isinstance(st, (ast.Assign, ast.AugAssign)) and any(norm(x) in (numP, strP) for x in (st.targets if isinstance(st, ast.Assign) else [st.target]))]
    chk.judge("R08.c", "types:_apply_output_mode:number and spelling are returned unmodified", not re_, f"the parameters are modified: {re_}", None, wam)
    # callers
    for fname, prefix in (("compute_hash", 'HASH("'), ("compute_string", 'STR("')):
        fn = t.func(fname)
        chk.saw("types", fname)
        fcfg, frd = fn_ctx(fn)
        calls = [c for c in ast.walk(fn) if isinstance(c, ast.Call) and norm(c.func) == "_apply_output_mode"]
        wf = f"{t.path}:{fn.lineno} in {fname}"
        if len(calls) != 1:
            raise AnalysisError(f"{fname}: expected one call of _apply_output_mode")
        c = calls[0]
        ids = live_ids(fcfg, c)
        num, spell = c.args[0], c.args[1]
        # the spelling: f'<prefix>{X}")'
        sexpr = spell
        if isinstance(spell, ast.Name):
            ds = frd.at(ids[0], spell.id)
            sexpr = ds[0].value if len(ds) == 1 and ds[0].kind == "assign" else None
            sat = ds[0].node if len(ds) == 1 else ids[0]
        else:
            sat = ids[0]
        from .shared import string_parts
        parts = string_parts(sexpr) if sexpr is not None else None
        if parts is None:
            raise AnalysisError(f"{fname}: how the symbolic spelling {norm(sexpr)[:60] if sexpr is not None else '?'} is built is not understood")
        ok_sp = len(parts) == 3 and parts[0] == prefix and isinstance(parts[1], ast.Name) and parts[2] == '")'
        chk.judge("R08.c", f"types:{fname}:symbolic spelling is {prefix}<string>\")", ok_sp, f"the spelling handed over is {norm(sexpr) if sexpr is not None else '?'}", None, wf)
        if not ok_sp:
            continue
        svar = parts[1].id
        sdefs = {id(d) for d in frd.at(sat, svar)}
        # the number: calc_hash(<svar>) / the accumulator of the loop over <svar>
        ok_num = False
        if fname == "compute_hash":
            nexpr, nat = num, ids[0]
            if isinstance(num, ast.Name):
                nds = frd.at(ids[0], num.id)
                if len(nds) == 1 and nds[0].kind == "assign" and not nds[0].index:
                    nexpr, nat = nds[0].value, nds[0].node
            ok_num = isinstance(nexpr, ast.Call) and norm(nexpr.func) == "calc_hash" and len(nexpr.args) == 1 \
                and norm(nexpr.args[0]) == svar and {id(d) for d in frd.at(nat, svar)} == sdefs
        elif isinstance(num, ast.Name):
            nds = frd.at(ids[0], num.id)
            if True:
                ok_num = any(isinstance(lp, ast.For) and norm(lp.iter) == svar and any(isinstance(st, ast.Assign) and norm(st.targets[0]) == num.id for st in lp.body)
                             for lp in ast.walk(fn)) and not any(isinstance(st, ast.Assign) and norm(st.targets[0]) == svar for st in ast.walk(fn))
        chk.judge("R08.c", f"types:{fname}:number and spelling derive from the same string", ok_num,
                  f"the number {norm(num)} is not computed from the very string {svar} that is printed in the symbolic spelling", None, wf)
        # third argument: the caller's mode parameter
        chk.judge("R08.c", f"types:{fname}:passes its output_mode on", len(c.args) >= 3 and isinstance(c.args[2], ast.Name) and c.args[2].id in [a.arg for a in fn.args.args],
                  "the mode argument is not the function's own output_mode parameter", None, wf)

    chk.guarded(r08c_unwrap, repo, chk)
    chk.guarded(rule_format_enum, repo, chk, "R08.d")

    # ------------------------------------------------------------ R08.e / R08.f
    rule_mode_readers(repo, chk, "R08.e")
    gpath = repo.mod("types_generated").path
    for en, mem in sorted(enum_tables(repo).items()):
        byval = {}
        for n, v, ln in mem:
            byval.setdefault(v, []).append(n)
        dups = {v: ns for v, ns in byval.items() if len(ns) > 1}
        chk.judge("R08.f", f"types_generated:{en}", not dups and len(mem) > 0, f"enum {en}: members sharing a number {dups}: the number printed in compact mode "
                  f"does not identify the name printed in verbose mode", {"members": len(mem)}, f"{gpath} class {en}")
        if getattr(mem, "auto", None):
            chk.bad("R08.f", f"types_generated:{en}:numbers are the game's, written down",
                    f"enum {en}: {mem.auto[:4]} are numbered by enum.auto() ({', '.join(f'{n_}={v_}' for n_, v_, _ in mem[:3])}): the compact output carries a number that the game "
                    f"does not give to the name the verbose output prints", {"auto": mem.auto}, f"{gpath} class {en}")

    from .c03 import r03k
    chk.guarded(r03k, repo, chk, "R08.i")
    chk.rule("R08.j", "every symbolic spelling of the verbose mode (HASH(\"...\"), STR(\"...\")) is evaluated by constant folding to the number the "
                      "compact mode prints: an expression over such a constant folds to the same value, and compiles, in both modes (shared with R03.m)", floor=2)
    from .c03 import r03m
    chk.guarded(r03m, repo, chk, "R08.j")
    # ------------------------------------------------------------ R08.h
    n_crc = 0
    for mn in ("utils", "types", "compile_pass", "generate_code", "compiler", "register_assignment", "symbols", "intrinsics"):
        if not repo.has_mod(mn):
            continue
        mm = repo.mod(mn)
        for c in ast.walk(mm.tree):
            if isinstance(c, ast.Call) and norm(c.func).split(".")[-1] in ("crc32", "adler32"):
                f = enclosing_def(c)
                q = f.qual if f is not None else "<module>"
                n_crc += 1
                chk.judge("R08.h", f"{mn}:{q}:computes {norm(c.func)}", (mn, q) == ("utils", "calc_hash"),
                          f"{mn}.{q} computes {norm(c.func)} itself instead of calling calc_hash: its result is not folded to the signed 32-bit value "
                          f"(or not from the UTF-8 bytes), so the same HASH(\"...\") gets two different numbers", None, f"{mm.path}:{c.lineno} in {q}")
    if n_crc < 1:
        raise AnalysisError("R08.h: no CRC computation found at all")

    # ------------------------------------------------------------ R08.g
    from .shared import return_paths
    fi = u.func("format_int")
    chk.saw("utils", "format_int")
    wfi = f"{u.path}:{fi.lineno} in format_int"
    vp = fi.args.args[0].arg
    n_paths = 0
    for conds, v in return_paths(fi):
        if v is None:
            continue
        n_paths += 1
        if isinstance(v, ast.Call) and norm(v.func) == "str" and norm(v.args[0]) == vp:
            chk.ok("R08.g", "utils:format_int:decimal spelling str(value)", None)
        elif isinstance(v, ast.JoinedStr) and len(v.values) == 2 and isinstance(v.values[0], ast.Constant) and v.values[0].value == "$" \
                and isinstance(v.values[1], ast.FormattedValue) and norm(v.values[1].value) == vp and v.values[1].format_spec is not None \
                and "".join(x.value for x in v.values[1].format_spec.values if isinstance(x, ast.Constant)) in ("X", "x"):
            nonneg = False
            for tst, p in conds:
                for part, pol in _disj(tst, p):
                    ub = compare_upper_bound(part, pol)
                    if ub and ub[0] == {vp: -1} and ub[1] <= 0:
                        nonneg = True
            chk.judge("R08.g", "utils:format_int:hex spelling only for non-negative values", nonneg,
                      "the '$HEX' spelling is reachable for negative values ('$-1F' is not an IC10 number)", None, wfi)
            # ... and only below 2**53: a '$' literal is a 64 bit integer (1e20 needs 17 hex digits, 2**63 reads back negative)
            upper = None
            for tst, p in conds:
                for part, pol in _disj(tst, p):
                    ub = compare_upper_bound(part, pol)
                    if ub and ub[0] == {vp: 1}:
                        upper = ub[1] if upper is None else min(upper, ub[1])
            chk.judge("R08.g", "utils:format_int:hex spelling only for values below 2**53", upper is not None and upper < 2 ** 63,
                      f"the '$HEX' spelling is reachable for values of any size (upper bound on the path: {upper}): a '$' literal is a 64 bit integer, "
                      f"so 1e20 is emitted with 17 hex digits and values from 2**63 on read back negative", {"upper_bound": upper}, wfi)
        else:
            chk.bad("R08.g", f"utils:format_int:return {norm(v)[:50]}", "spelling is neither str(value) nor '$' + hex of the same value", None, wfi)
    if n_paths < 2:
        raise AnalysisError("format_int: return paths not recognised")


def _disj(test, pol):
    """(not (a or b)) gives both not a and not b."""
    from ..cfg import decompose
    return decompose(test, pol)


# ---------------------------------------------------------------------- R08.c (a name that arrives as the text HASH("...") / "...")
def r08c_unwrap(repo, chk, R="R08.c"):
    """compute_hash removes exactly the wrapper it tested for: the verbose spelling then names the same string whose hash the
    compact spelling carries."""
    t = repo.mod("types")
    fn = t.func("compute_hash")
    cfg, rd = fn_ctx(fn)
    where = f"{t.path}:{fn.lineno} in compute_hash"
    from ..modconst import module_constants
    consts = module_constants(t)

    def const_str(e):
        if isinstance(e, ast.Constant) and isinstance(e.value, str):
            return e.value
        if isinstance(e, ast.Name) and isinstance(consts.get(e.id), str):
            return consts[e.id]
        return None

    def length(e):
        """integer value of a slice bound: literal, -literal, len(<const str>), -len(<const str>)"""
        if e is None:
            return None
        if isinstance(e, ast.Constant) and isinstance(e.value, int):
            return e.value
        if isinstance(e, ast.UnaryOp) and isinstance(e.op, ast.USub):
            v = length(e.operand)
            return None if v is None else -v
        if isinstance(e, ast.Call) and norm(e.func) == "len" and len(e.args) == 1 and const_str(e.args[0]) is not None:
            return len(const_str(e.args[0]))
        return None
    n = 0
    for st in ast.walk(fn):
        if not (isinstance(st, ast.Assign) and len(st.targets) == 1 and isinstance(st.targets[0], ast.Name)):
            continue
        var = st.targets[0].id
        ids = live_ids(cfg, st)
        if not ids:
            continue
        pre = suf = None
        for tst, pol in guard_atoms(cfg, ids[0]):
            if pol and isinstance(tst, ast.Call) and isinstance(tst.func, ast.Attribute) and tst.func.attr in ("startswith", "endswith") and tst.args and const_str(tst.args[0]) is not None:
                if tst.func.attr == "startswith":
                    pre = const_str(tst.args[0])
                else:
                    suf = const_str(tst.args[0])
        if pre is None or suf is None:
            continue
        n += 1
        v = st.value
        key = f"types:compute_hash:the wrapper {pre}...{suf} is removed exactly"
        # slicing
        if isinstance(v, ast.Subscript) and isinstance(v.slice, ast.Slice) and v.slice.step is None:
            lo, hi = length(v.slice.lower), length(v.slice.upper)
            if lo is None or hi is None:
                raise AnalysisError(f"compute_hash: slice bounds of {norm(v)} not evaluated")
            chk.judge(R, key, lo == len(pre) and hi == -len(suf),
                      f"under the test for the wrapper {pre!r} ... {suf!r} the name becomes {norm(v)}: that cuts {lo} characters at the front and {-hi} at the end, "
                      f"the wrapper has {len(pre)} and {len(suf)}", {"cut": [lo, hi]}, where)
            continue
        # method chain
        chain = []
        cur = v
        while isinstance(cur, ast.Call) and isinstance(cur.func, ast.Attribute):
            chain.append(cur)
            cur = cur.func.value
        names = [c.func.attr for c in chain]
        strips = [c for c in chain if c.func.attr in ("strip", "lstrip", "rstrip") and c.args and const_str(c.args[0]) is not None and len(const_str(c.args[0])) > 0]
        if strips:
            c = strips[0]
            chk.bad(R, key, f"the wrapper is removed with .{c.func.attr}({const_str(c.args[0])!r}), which strips every leading/trailing character of that SET: a name that itself ends in "
                    f"one of them (HASH(\"Tank (A)\")) loses more than the wrapper, so the verbose spelling names another string than the number the compact output carries",
                    {"call": norm(c)[:80]}, where)
            continue
        if set(names) <= {"removeprefix", "removesuffix"} and names:
            args_ok = all(const_str(c.args[0]) == (pre if c.func.attr == "removeprefix" else suf) for c in chain if c.args)
            chk.judge(R, key, args_ok and "removeprefix" in names and "removesuffix" in names, f"the wrapper is removed by {norm(v)}", None, where)
            continue
        raise AnalysisError(f"compute_hash: how the wrapper is removed was not understood: {norm(v)[:80]}")
    if n == 0:
        n = _unwrap_by_regex(repo, chk, R, t, fn, where)
    if n == 0:
        raise AnalysisError("compute_hash: removal of the HASH(\"...\") wrapper not found")


def _unwrap_by_regex(repo, chk, R, t, fn, where):
    """name = PATTERN.match(name).group(..): the pattern is evaluated (by the checker's own re module, on the pattern text only)
    against every prefab name of the generated tables, bare, quoted and wrapped: the name must come back unchanged."""
    import re as _re
    found = 0
    for st in ast.walk(fn):
        if not (isinstance(st, ast.Assign) and len(st.targets) == 1 and isinstance(st.targets[0], ast.Name)):
            continue
        v = st.value
        # <m>.group(g)  /  <m>[g]   with  <m> = P.match(x) | re.match(p, x)
        grp, mcall = None, None
        if isinstance(v, ast.Call) and isinstance(v.func, ast.Attribute) and v.func.attr == "group" and isinstance(v.func.value, ast.Call):
            grp = v.args[0].value if v.args and isinstance(v.args[0], ast.Constant) else 0
            mcall = v.func.value
        elif isinstance(v, ast.Subscript) and isinstance(v.value, ast.Call) and isinstance(v.slice, ast.Constant):
            grp, mcall = v.slice.value, v.value
        if mcall is None or not isinstance(mcall.func, ast.Attribute) or mcall.func.attr not in ("match", "fullmatch", "search"):
            continue
        pat_src, flags, subject = None, 0, None
        recv = mcall.func.value
        if isinstance(recv, ast.Name) and recv.id == "re" and len(mcall.args) >= 2 and isinstance(mcall.args[0], ast.Constant):
            pat_src, subject = mcall.args[0].value, mcall.args[1]
            flag_exprs = mcall.args[2:] + [k.value for k in mcall.keywords if k.arg == "flags"]
        elif isinstance(recv, ast.Name) and recv.id in t.assigns and len(t.assigns[recv.id]) == 1:
            cv = t.assigns[recv.id][0].value
            if isinstance(cv, ast.Call) and norm(cv.func) == "re.compile" and cv.args and isinstance(cv.args[0], ast.Constant):
                pat_src, subject = cv.args[0].value, mcall.args[0] if mcall.args else None
                flag_exprs = cv.args[1:] + [k.value for k in cv.keywords if k.arg == "flags"]
        if not isinstance(pat_src, str) or subject is None or norm(subject) != st.targets[0].id:
            continue
        for fe_ in flag_exprs:
            for a in ast.walk(fe_):
                if isinstance(a, ast.Attribute) and hasattr(_re, a.attr):
                    flags |= getattr(_re, a.attr)
        try:
            rx = _re.compile(pat_src, flags)
        except _re.error as e:
            raise AnalysisError(f"compute_hash: pattern {pat_src!r} does not compile: {e}")
        found += 1
        how = {"match": rx.match, "fullmatch": rx.fullmatch, "search": rx.search}[mcall.func.attr]
        sg = repo.mod("structures_generated")
        names = sorted({c.value.value for c in ast.walk(sg.tree) if isinstance(c, (ast.Assign, ast.AnnAssign)) and isinstance(getattr(c, "value", None), ast.Constant)
                        and isinstance(c.value.value, str) and any(norm(x) == "_prefab_name" for x in (c.targets if isinstance(c, ast.Assign) else [c.target]))})
        names += ["Tank (A)", 'a"b', "x)", "(y", "In"]
        wrong = []
        for nm in names:
            for spelled in (nm, f'"{nm}"', f'HASH("{nm}")'):
                mo = how(spelled)
                got = None
                if mo is not None:
                    try:
                        got = mo.group(grp)
                    except (IndexError, _re.error):
                        got = None
                if got != nm:
                    wrong.append((spelled, got))
        chk.judge(R, "types:compute_hash:the wrapper HASH(\"...\") is removed exactly", not wrong,
                  f"the pattern {pat_src!r} does not give back the name it was handed for {len(wrong)} of {3 * len(names)} spellings, e.g. {wrong[0][0]!r} -> {wrong[0][1]!r}: the hash "
                  f"operand is computed from another string than the table's prefab name" if wrong else "", {"pattern": pat_src, "checked": 3 * len(names)}, where)
    return found
