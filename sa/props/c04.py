"""C04 — register allocation never lets one live value overwrite another (R04.a–g)."""
from __future__ import annotations

import ast
from ..cfg import decompose as decompose_
from ..model import Repo, AnalysisError, norm, enclosing_def
from ..report import Check
from ..linnorm import lin, NotLinear, compare_upper_bound
from .shared import fn_ctx, live_ids, guard_atoms, rule_module_lifetime, underlying


def run(repo: Repo, chk: Check):
    chk.rule("R04.a", "every physical register written into the allocation map is f\"r{n}\" with n taken from a list derived from "
                      "range(K), K <= 16, by set/sort operations only", floor=2)
    chk.rule("R04.b", "the index into the list of available registers is dominated by a bound test that raises CompilerError", floor=1)
    chk.rule("R04.c", "lifetimes are half-open line intervals [first, last+1) at every construction, and a register is released only "
                      "when the released interval's stop is <= the new interval's start", floor=4)
    chk.rule("R04.d", "every node whose line numbers enter the lifetime passes through get_loop_ancestor, over readers and writers", floor=2)
    chk.rule("R04.e", "values written at module level of ANY module get the unbounded lifetime (test on the scope's type, not on one name)", floor=1)
    chk.rule("R04.f", "a scope may not use registers blocked by any caller: available = all - union(blocked of callers); a scope's "
                      "blocked set contains its callers' blocked sets and every register it allocates; scopes are processed after "
                      "all their callers; function scopes are callees of every module scope", floor=6)
    chk.rule("R04.g", "the colouring sweep visits symbols in order of lifetime start and compares (stop, start) of the same intervals", floor=3)
    ra = repo.mod("register_assignment")
    af = ra.func("assign_registers")
    ac = ra.func("assign_colors")
    chk.saw("register_assignment", "assign_registers")
    chk.saw("register_assignment", "assign_colors")
    cfg, rd = fn_ctx(af)
    wa = f"{ra.path}:{af.lineno} in assign_registers"

    def single(name, nid):
        ds = rd.at(nid, name)
        if len(ds) == 1 and ds[0].kind == "assign" and not ds[0].index:
            return ds[0]
        return None

    # ------------------------------------------------------------ R04.a
    from .shared import register_roles
    roles = register_roles(ra)
    map_name = roles.get("mapping", "mapping")
    map_stores = [n for n in cfg.nodes if n.kind == "stmt" and isinstance(n.ast, ast.Assign) and
                  any(isinstance(t, ast.Subscript) and norm(t.value) == map_name for t in n.ast.targets)]
    if not map_stores:
        raise AnalysisError("assign_registers: no store into the register mapping (T[<symbol>.code_expr] = f'r{n}')")
    avail_name = None
    idx_sites = []
    for n in map_stores:
        v = n.ast.value
        key = f"register_assignment:assign_registers:{norm(n.ast)[:70]}"
        ok = isinstance(v, ast.JoinedStr) and len(v.values) == 2 and isinstance(v.values[0], ast.Constant) and v.values[0].value == "r" \
            and isinstance(v.values[1], ast.FormattedValue) and isinstance(v.values[1].value, ast.Name)
        if not ok:
            chk.bad("R04.a", key, f"the stored register name {norm(v)} is not f\"r{{n}}\"", None, wa)
            continue
        d = single(v.values[1].value.id, n.id)
        okd = d is not None and isinstance(d.value, ast.Subscript) and isinstance(d.value.value, ast.Name)
        if not okd:
            chk.bad("R04.a", key, f"the register number {norm(v.values[1].value)} is not an element of the available list", None, wa)
            continue
        avail_name = d.value.value.id
        idx_sites.append((d, d.value))
        # the list derives from range(K)
        chain_ok, K, desc = _derives_from_range(d.value.value, d.node, rd, single)
        chk.judge("R04.a", key, chain_ok and K is not None and K <= 16,
                  f"register numbers come from {desc}: expected a list derived by set/sorted/-/list from range(K) with K <= 16 (IC10 has r0..r15)",
                  {"derivation": desc, "K": K}, wa)
    # the universe itself
    regs = [n for n in cfg.nodes if n.kind == "stmt" and isinstance(n.ast, ast.Assign) and isinstance(n.ast.value, ast.Call)
            and "range(" in norm(n.ast.value) and isinstance(n.ast.targets[0], ast.Name)]
    for n in regs:
        okk, K, desc = _derives_from_range(n.ast.value, n.id, rd, single)
        chk.judge("R04.a", f"register_assignment:assign_registers:universe {norm(n.ast)[:50]}", okk and K is not None and K <= 16,
                  f"register universe {norm(n.ast.value)} exceeds r0..r15", {"K": K}, wa)

    # ------------------------------------------------------------ R04.b
    for d, sub in idx_sites:
        idx = sub.slice
        atoms = guard_atoms(cfg, d.node)
        want = {norm(idx): 1, f"len({norm(sub.value)})": -1}
        bound = None
        raising = False
        for t, p in atoms:
            ub = compare_upper_bound(t, p)
            if ub and ub[0] == want:
                bound = ub[1] if bound is None else min(bound, ub[1])
                # the failing branch raises CompilerError
                for node in ast.walk(af):
                    if isinstance(node, ast.If) and node.test is t:
                        branch = node.body if not p else node.orelse
                        raising = any(isinstance(x, ast.Raise) and "CompilerError" in norm(x) for x in branch)
        chk.judge("R04.b", f"register_assignment:assign_registers:index {norm(sub)[:50]} is bounded", bound is not None and bound <= -1 and raising,
                  f"the index {norm(idx)} into {norm(sub.value)} is not dominated by 'index < len(list)' with a CompilerError on the other branch "
                  f"(bound found: index - len <= {bound}, raises CompilerError: {raising}): a program needing more registers would be emitted or crash",
                  {"bound": bound, "raises": raising}, wa)

    # ------------------------------------------------------------ R04.c / R04.d / R04.e  (types.IC10Register.lifetime)
    t = repo.mod("types")
    lf = t.func("IC10Register.lifetime")
    chk.saw("types", "IC10Register.lifetime")
    lcfg, lrd = fn_ctx(lf)
    wl = f"{t.path}:{lf.lineno} in IC10Register.lifetime"
    from .shared import lifetime_leaves
    ranges = [c for c in ast.walk(lf) if isinstance(c, ast.Call) and norm(c.func) == "range" and len(c.args) == 2]
    for v, _st in lifetime_leaves(t, lf, lcfg, lrd):
        if isinstance(v, ast.Call) and norm(v.func) == "range" and len(v.args) == 2 and not any(v is r for r in ranges):
            ranges.append(v)   # a class-level constant interval
    if len(ranges) < 3:
        raise AnalysisError(f"IC10Register.lifetime: expected three interval constructions, found {len(ranges)}")
    for c in ranges:
        hi = c.args[1]
        key = f"types:IC10Register.lifetime:{norm(c)[:60]}"
        if "maxsize" in norm(hi):
            chk.ok("R04.c", key, {"kind": "unbounded"})
            continue
        if "maxsize" in norm(c.args[0]) and isinstance(hi, ast.Constant):
            chk.ok("R04.c", key, {"kind": "empty interval (no accesses)"})
            continue
        ids = live_ids(lcfg, c)

        def res(nm, _ids=ids):
            ds = lrd.at(_ids[0], nm.id) if _ids else []
            if len(ds) == 1 and ds[0].kind == "assign" and not ds[0].index and isinstance(ds[0].value, (ast.BinOp, ast.Constant)):
                return ds[0].value
            return None
        try:
            co, k = lin(hi, res)
        except NotLinear:
            co, k = None, None
        chk.judge("R04.c", key, co is not None and len(co) == 1 and list(co.values()) == [1] and k == 1,
                  f"interval end is {norm(hi)}: expected <last line> + 1 (half-open), so that a value read on its last line is still live there",
                  {"end": norm(hi)}, f"{t.path}:{c.lineno} in IC10Register.lifetime")
    # a temporary (intermediate) lives for its whole STATEMENT: an instruction emitted for an earlier line of a multi-line statement may
    # still read a value while a temporary of a later line is written, so both bounds are those of the statement node
    for c in ranges:
        ids = live_ids(lcfg, c)
        if not ids or not any(p_ and norm(t_).endswith("_is_intermediate") for t_, p_ in guard_atoms(lcfg, ids[0])):
            continue
        lo, hi = c.args[0], c.args[1]
        key = "types:IC10Register.lifetime:a temporary lives from the first to the last line of its statement"

        def stmt_node(e):
            """is the node whose line is taken the enclosing statement?  -> True / False / None (not understood)"""
            if isinstance(e, ast.BinOp):
                e = e.left
            if not (isinstance(e, ast.Attribute) and e.attr in ("lineno", "end_lineno", "fromlineno", "tolineno")):
                return None
            base = e.value
            if isinstance(base, ast.Call) and isinstance(base.func, ast.Attribute) and base.func.attr == "statement":
                return True
            if isinstance(base, ast.Name):
                ds = lrd.at(ids[0], base.id)
                kinds = set()
                for d in ds:
                    v_ = d.value
                    if d.kind != "assign" or v_ is None or d.index:
                        kinds.add(None)
                    elif isinstance(v_, ast.Call) and isinstance(v_.func, ast.Attribute) and v_.func.attr == "statement":
                        kinds.add("stmt")
                    elif norm(v_) == f"{base.id}.parent":
                        kinds.add("walk")
                    elif "nodes_writing" in norm(v_) or "nodes_reading" in norm(v_):
                        kinds.add("raw")
                    else:
                        kinds.add(None)
                if None in kinds:
                    return None
                if kinds == {"stmt"}:
                    return True
                if "walk" in kinds:
                    # walked up while 'not <node>.is_statement'
                    return any(isinstance(w, ast.While) and norm(w.test) == f"not {base.id}.is_statement" for w in ast.walk(lf))
                if kinds == {"raw"}:
                    return False
            if isinstance(base, ast.Subscript) and ("nodes_writing" in norm(base) or "nodes_reading" in norm(base)):
                return False
            return None
        a, b = stmt_node(lo), stmt_node(hi)
        if a is None or b is None:
            raise AnalysisError(f"IC10Register.lifetime: the interval of a temporary ({norm(c)[:60]}) is not understood")
        chk.judge("R04.c", key, a and b,
                  f"the interval of a temporary is {norm(c)[:70]}: {'its start' if not a else 'its end'} is taken from the expression node itself, not from the statement around it. "
                  f"In a statement that spans several lines a temporary of a later line shares its register with a value last read on an earlier line of the same statement",
                  {"start_is_statement": a, "end_is_statement": b}, f"{t.path}:{c.lineno} in IC10Register.lifetime")
    # release test in assign_colors
    ccfg, crd = fn_ctx(ac)
    wc = f"{ra.path}:{ac.lineno} in assign_colors"
    rel = []
    for node in ast.walk(ac):
        if isinstance(node, ast.If) and enclosing_def(node) is ac:
            for arm_, pol_ in ((node.body, True), (node.orelse, False)):
                apps = [x for x in arm_ if isinstance(x, ast.Expr) and isinstance(x.value, ast.Call) and norm(x.value.func) == roles.get("free", "free_colors") + ".append"]
                if apps:
                    rel.append((node, pol_))       # released in the arm taken when the test is pol_
    if len(rel) != 1:
        raise AnalysisError(f"assign_colors: expected one release test, found {len(rel)}")
    test = rel[0][0].test
    from ..cfg import decompose
    atoms_ = decompose(test, rel[0][1])
    ub = compare_upper_bound(atoms_[0][0], atoms_[0][1]) if len(atoms_) == 1 else None
    names = sorted(ub[0]) if ub else []
    ok_rel = ub is not None and len(ub[0]) == 2 and sorted(ub[0].values()) == [-1, 1] and ub[1] <= 0
    chk.judge("R04.c", "register_assignment:assign_colors:release implies disjoint intervals", ok_rel,
              f"a register is released when {norm(test)}: this must imply stop(released) <= start(new) for half-open intervals "
              f"(normal form {ub})", {"normal_form": [ub[0], ub[1]] if ub else None}, wc)
    # which names: released end from the active tuples, start from the current symbol
    if ub:
        pos = [a for a, v in ub[0].items() if v == 1]
        neg = [a for a, v in ub[0].items() if v == -1]
        e_name, s_name = pos[0], neg[0]
        # start, end = sym.lifetime.start, sym.lifetime.stop
        ids = live_ids(ccfg, test)
        sd = [d for d in crd.at(ids[0], s_name)] if ids else []
        ok_s = bool(sd) and all(d.kind == "assign" and d.index and isinstance(d.value, ast.Tuple) and norm(d.value.elts[d.index[0]]).endswith(".lifetime.start") or
                               d.kind == "assign" and not d.index and norm(d.value).endswith(".lifetime.start") for d in sd)
        # e comes from iterating `active`, whose entries are appended as (end, color) with end = .lifetime.stop
        apps = [c for c in ast.walk(ac) if isinstance(c, ast.Call) and norm(c.func) == roles.get("active", "active") + ".append" and c.args and isinstance(c.args[0], ast.Tuple)]
        ok_e = False
        for c in apps:
            first = c.args[0].elts[0]
            cid = live_ids(ccfg, c)
            if isinstance(first, ast.Name) and cid:
                ds = crd.at(cid[0], first.id)
                ok_e = bool(ds) and all(d.kind == "assign" and (d.index and isinstance(d.value, ast.Tuple) and norm(d.value.elts[d.index[0]]).endswith(".lifetime.stop")
                                                               or not d.index and norm(d.value).endswith(".lifetime.stop")) for d in ds)
            elif norm(first).endswith(".lifetime.stop"):
                ok_e = True
        loop_ok = any(isinstance(lp, ast.For) and norm(lp.iter) == roles.get("active", "active") and isinstance(lp.target, ast.Tuple) and norm(lp.target.elts[0]) == e_name
                      for lp in ast.walk(ac))
        chk.judge("R04.g", "register_assignment:assign_colors:compares the stop of active intervals with the start of the new one", ok_s and ok_e and loop_ok,
                  f"the release test compares {e_name} and {s_name}, which are not (stop of an active interval, start of the current symbol)",
                  {"start_ok": ok_s, "stop_ok": ok_e, "loop_ok": loop_ok}, wc)
    # sweep order
    srt = [d for d in crd.all_defs if d.kind == "assign" and isinstance(d.value, ast.Call) and norm(d.value.func) == "sorted"]
    ok_sort = False
    sorted_name = None
    for d in srt:
        kw = {k.arg: k.value for k in d.value.keywords}
        keyf = kw.get("key")
        if isinstance(keyf, ast.Lambda) and norm(keyf.body).endswith(".lifetime.start") and "reverse" not in kw:
            ok_sort = True
            sorted_name = d.name
    loops = [lp for lp in ast.walk(ac) if isinstance(lp, ast.For) and enclosing_def(lp) is ac and any(isinstance(x, ast.Assign) and any(norm(tg).endswith("._color") for tg in x.targets) for x in ast.walk(lp))]
    chk.judge("R04.g", "register_assignment:assign_colors:symbols are sorted by lifetime start", ok_sort,
              "the symbols are not sorted ascending by lifetime.start before the sweep (releasing by 'stop <= start' is only sound in that order)", None, wc)
    chk.judge("R04.g", "register_assignment:assign_colors:the sweep iterates the sorted list", bool(loops) and all(norm(lp.iter) == sorted_name for lp in loops),
              f"the colouring loop iterates {[norm(lp.iter) for lp in loops]}, not the list sorted by start", None, wc)

    # ------------------------------------------------------------ R04.d
    r04d(repo, chk, t, lf, lcfg, lrd, wl)

    # ------------------------------------------------------------ R04.e
    rule_module_lifetime(repo, chk, "R04.e")

    # ------------------------------------------------------------ R04.f
    # available = registers - parent_registers
    if avail_name is None:
        raise AnalysisError("assign_registers: the list of available registers was not identified")
    scope_loops = [lp for lp in ast.walk(af) if isinstance(lp, ast.For) and enclosing_def(lp) is af and any(n.ast in list(ast.walk(lp)) for n in map_stores)]
    outer = None
    for lp in scope_loops:
        if outer is None or any(x is outer for x in ast.walk(lp)):
            outer = lp
    if outer is None:
        raise AnalysisError("assign_registers: loop over scopes not found")
    order_list = norm(outer.iter)
    appended = [c for c in ast.walk(af) if isinstance(c, ast.Call) and isinstance(c.func, ast.Attribute) and c.func.attr == "append" and norm(c.func.value) == order_list]
    chk.judge("R04.f", "register_assignment:assign_registers:scopes are allocated in caller-before-callee order", isinstance(outer.iter, ast.Name) and bool(appended),
              f"the allocation loop iterates {order_list}, which is not a list built element by element by the ordering loop", None, wa)
    avail_defs = [st for st in ast.walk(outer) if isinstance(st, ast.Assign) and any(norm(tg) == avail_name for tg in st.targets)]
    last = avail_defs[-1] if avail_defs else None
    parent_name = None
    ok_av = False
    if last is not None:
        for b in ast.walk(last.value):
            if isinstance(b, ast.BinOp) and isinstance(b.op, ast.Sub) and isinstance(b.right, ast.Name):
                parent_name = b.right.id
                ok_av = "registers" in norm(b.left)
            if isinstance(b, ast.Call) and isinstance(b.func, ast.Attribute) and b.func.attr == "difference" and b.args and isinstance(b.args[0], ast.Name):
                parent_name = b.args[0].id
                ok_av = "registers" in norm(b.func.value)
    chk.judge("R04.f", "register_assignment:assign_registers:available = all registers minus the callers' blocked registers", ok_av,
              f"the available list is {norm(last.value) if last is not None else '?'}: it must subtract the callers' blocked set", None, wa)
    # parent accumulates the union over all callers of blocked_registers_by_scope
    ok_par = False
    blocked_map = None
    if parent_name:
        for lp in ast.walk(outer):
            if isinstance(lp, ast.For) and "called_from" in norm(lp.iter) and isinstance(lp.target, ast.Name):
                for st in ast.walk(lp):
                    txt = norm(st) if isinstance(st, (ast.Assign, ast.AugAssign, ast.Expr)) else ""
                    if parent_name in txt and ("union" in txt or "|" in txt or "update" in txt) and lp.target.id in txt:
                        for s in ast.walk(st):
                            if isinstance(s, ast.Call) and isinstance(s.func, ast.Attribute) and s.func.attr == "get" and s.args and norm(s.args[0]) == lp.target.id:
                                blocked_map = norm(s.func.value)
                                ok_par = True
                            if isinstance(s, ast.Subscript) and norm(s.slice) == lp.target.id:
                                blocked_map = norm(s.value)
                                ok_par = True
                brk = any(isinstance(b, (ast.Break, ast.Return)) for b in ast.walk(lp))
                ok_par = ok_par and not brk
    chk.judge("R04.f", "register_assignment:assign_registers:the callers' blocked sets are united over ALL callers", ok_par,
              "the set subtracted from the register universe is not the union, over every scope the function is called from, of that scope's blocked registers",
              {"blocked_map": blocked_map}, wa)
    # blocked[scope] = own blocked ∪ parent
    ok_tr = False
    own_blocked = None
    if blocked_map:
        for st in ast.walk(outer):
            if isinstance(st, ast.Assign) and any(isinstance(tg, ast.Subscript) and norm(tg.value) == blocked_map for tg in st.targets):
                names = {x.id for x in ast.walk(st.value) if isinstance(x, ast.Name)}
                if parent_name in names and len(names) >= 2:
                    ok_tr = True
                    own_blocked = sorted(names - {parent_name})
    chk.judge("R04.f", "register_assignment:assign_registers:a scope's blocked set includes its callers' blocked sets (transitivity)", ok_tr,
              "blocked_registers_by_scope[scope] does not include the callers' blocked registers: a function called through an intermediate function "
              "could reuse a register that is live in its caller's caller", None, wa)
    # ... and that store is reached for EVERY scope of the order (also one that holds no registers of its own)
    if blocked_map:
        bstores = [st for st in ast.walk(outer) if isinstance(st, ast.Assign) and any(isinstance(tg, ast.Subscript) and norm(tg.value) == blocked_map for tg in st.targets)]
        head = [n.id for n in cfg.nodes if n.kind == "for" and n.stmt is outer]
        ok_every = False
        if head and bstores:
            store_ids = {i for st in bstores for i in live_ids(cfg, st)}
            # from the loop head (an element was taken) every path back to the head passes a store
            first = [b for b, lab in cfg.succ[head[0]] if isinstance(lab, tuple) and lab[1] is True]
            seen, stack, ok_every = set(), list(first), True
            while stack:
                a = stack.pop()
                if a in seen or a in store_ids:
                    continue
                seen.add(a)
                if a == head[0]:
                    ok_every = False
                    break
                stack.extend(b for b, lab in cfg.succ[a] if not (isinstance(lab, tuple) and lab[0] == "exc"))
        chk.judge("R04.f", "register_assignment:assign_registers:every scope records its blocked set", ok_every,
                  "some scope of the processing order is skipped before its blocked set is stored (e.g. a function that holds no values of its own): "
                  "the registers blocked by its callers are not handed down to the functions it calls", None, wa)
    # every allocated register is added to the own blocked set unconditionally
    ok_add = False
    if own_blocked:
        for c in ast.walk(outer):
            if isinstance(c, ast.Call) and isinstance(c.func, ast.Attribute) and c.func.attr == "add" and isinstance(c.func.value, ast.Name) and c.func.value.id in own_blocked:
                # the add is at most as conditional as the allocation itself: every enclosing test inside the symbol loop is statically
                # true or also encloses the store that enters the register into the map
                alloc_guards = set()
                for ms in map_stores:
                    for t_, p_ in guard_atoms(cfg, ms.id):
                        alloc_guards.add((norm(t_), p_))
                p = c
                ok_here = True
                while p is not None and p is not outer:
                    par = getattr(p, "parent", None)
                    if isinstance(par, ast.If) and (p in par.body or p in par.orelse):
                        pol_ = p in par.body
                        tv = _static_truth(par.test)
                        if tv is not pol_ and not all((norm(t_), q_) in alloc_guards for t_, q_ in decompose_(par.test, pol_)):
                            ok_here = False
                    p = par
                # and it sits on the same path as the mapping store (after it, no continue in between)
                ok_add = ok_add or ok_here
    chk.judge("R04.f", "register_assignment:assign_registers:every allocated register is blocked for callees", ok_add,
              "a register allocated in a scope is not (unconditionally) added to that scope's blocked set: a callee may be given the same register "
              "while the caller's value is live across the call", None, wa)
    # ordering loop: scope appended only when all its callers are already sorted
    def _mirror_set(name):
        """a set kept in step with the order list: created empty, and its only mutation is  S.add(x)  next to  L.append(x)"""
        inits = [st for st in ast.walk(af) if isinstance(st, ast.Assign) and any(isinstance(t_, ast.Name) and t_.id == name for t_ in st.targets)]
        if len(inits) != 1 or norm(inits[0].value) != "set()":
            return False
        muts = [c for c in ast.walk(af) if isinstance(c, ast.Call) and isinstance(c.func, ast.Attribute) and isinstance(c.func.value, ast.Name) and c.func.value.id == name
                and c.func.attr in ("add", "update", "discard", "remove", "clear", "pop", "difference_update", "intersection_update")]
        apps = [c for c in ast.walk(af) if isinstance(c, ast.Call) and isinstance(c.func, ast.Attribute) and norm(c.func.value) == order_list and c.func.attr in ("append", "extend", "insert")]
        if not muts or any(c.func.attr != "add" or len(c.args) != 1 for c in muts) or len(muts) != len(apps):
            return False
        for c in muts:
            blk = getattr(getattr(c, "parent", None), "parent", None)
            st = getattr(c, "parent", None)
            sibs = None
            for fld in ("body", "orelse", "finalbody"):
                if st in (getattr(blk, fld, None) or []):
                    sibs = getattr(blk, fld)
            if sibs is None or not any(isinstance(x, ast.Expr) and x.value in apps and x.value.func.attr == "append" and norm(x.value.args[0]) == norm(c.args[0]) for x in sibs):
                return False
        return True

    def placed_set(e, at, depth=0):
        """does *e* denote the set of the scopes ordered so far (set(L), L itself, or a local bound to that)?"""
        t_ = norm(e)
        if t_ in (order_list, f"set({order_list})", f"frozenset({order_list})"):
            return True
        if isinstance(e, ast.Name) and _mirror_set(e.id):
            return True
        if isinstance(e, ast.Name) and depth < 3:
            ids_ = live_ids(cfg, at)
            ds_ = rd.at(ids_[0], e.id) if ids_ else []
            return bool(ds_) and all(d_.kind == "assign" and not d_.index and d_.value is not None and placed_set(d_.value, cfg.nodes[d_.node].ast, depth + 1) for d_ in ds_)
        return False

    def callers_ready(t_, var, at):
        """called_from[var] / called_from.get(var, ..)  is a subset of the scopes ordered so far"""
        def callers_of(e):
            return (isinstance(e, ast.Subscript) and "called_from" in norm(e.value) and norm(e.slice) == var) or \
                   (isinstance(e, ast.Call) and isinstance(e.func, ast.Attribute) and e.func.attr == "get" and "called_from" in norm(e.func.value) and e.args and norm(e.args[0]) == var)
        if isinstance(t_, ast.Call) and isinstance(t_.func, ast.Attribute) and t_.func.attr == "issubset" and callers_of(t_.func.value) and t_.args:
            return placed_set(t_.args[0], at)
        if isinstance(t_, ast.Compare) and len(t_.ops) == 1 and isinstance(t_.ops[0], ast.LtE) and callers_of(t_.left):
            return placed_set(t_.comparators[0], at)
        if isinstance(t_, ast.Compare) and len(t_.ops) == 1 and isinstance(t_.ops[0], ast.GtE) and callers_of(t_.comparators[0]):
            return placed_set(t_.left, at)
        if isinstance(t_, ast.UnaryOp) and isinstance(t_.op, ast.Not) and isinstance(t_.operand, ast.BinOp) and isinstance(t_.operand.op, ast.Sub) and callers_of(t_.operand.left):
            return placed_set(t_.operand.right, at)      # not (callers - placed)
        return False

    def element_ready(x, at, depth=0):
        """the appended element *x* has all its callers placed: by a test on the path, or because it is drawn from a list filtered by that test"""
        if depth > 3:
            return False
        ids_ = live_ids(cfg, at)
        if isinstance(x, ast.Name):
            for tst, pol in (guard_atoms(cfg, ids_[0]) if ids_ else []):
                if pol and callers_ready(tst, x.id, at):
                    return True
            ds_ = rd.at(ids_[0], x.id) if ids_ else []
            # the 'nothing found' value cannot arrive where a test on the path excludes it
            not_none = any((norm(tst) in (f"{x.id} is None", f"not {x.id}") and not pol) or (norm(tst) in (f"{x.id} is not None", x.id) and pol)
                           for tst, pol in (guard_atoms(cfg, ids_[0]) if ids_ else []))
            if not_none:
                ds_ = [d_ for d_ in ds_ if not (d_.kind == "assign" and isinstance(d_.value, ast.Constant) and d_.value.value is None)]
            if ds_ and all(d_.kind == "assign" and not d_.index and d_.value is not None and element_ready(d_.value, cfg.nodes[d_.node].ast, depth + 1) for d_ in ds_):
                return True
            if ds_ and all(d_.kind == "for" and d_.value is not None and filtered_ready(d_.value, cfg.nodes[d_.node].ast, depth + 1) for d_ in ds_):
                return True
            return False
        if isinstance(x, ast.Subscript) and isinstance(x.slice, (ast.Constant, ast.UnaryOp)):
            return filtered_ready(x.value, at, depth + 1)
        if isinstance(x, ast.Call) and norm(x.func) in ("next", "min", "max") and x.args:
            return filtered_ready(x.args[0], at, depth + 1)
        return False

    def filtered_ready(e, at, depth=0):
        """a list / generator whose every element passed the callers-are-placed test"""
        if depth > 4:
            return False
        if isinstance(e, ast.Call) and norm(e.func) in ("sorted", "list", "iter", "reversed") and e.args:
            return filtered_ready(e.args[0], at, depth + 1)
        if isinstance(e, (ast.ListComp, ast.GeneratorExp, ast.SetComp)) and len(e.generators) == 1 and isinstance(e.generators[0].target, ast.Name):
            v = e.generators[0].target.id
            if isinstance(e.elt, ast.Name) and e.elt.id == v and any(callers_ready(c_, v, at) for c_ in e.generators[0].ifs):
                return True
            return False
        if isinstance(e, ast.Name):
            ids_ = live_ids(cfg, at)
            ds_ = rd.at(ids_[0], e.id) if ids_ else []
            return bool(ds_) and all(d_.kind == "assign" and not d_.index and d_.value is not None and filtered_ready(d_.value, cfg.nodes[d_.node].ast, depth + 1) for d_ in ds_)
        return False
    ok_ord = bool(appended) and all(c.args and element_ready(c.args[0], c) for c in appended)
    chk.judge("R04.f", "register_assignment:assign_registers:a scope is ordered only after all scopes it is called from", ok_ord,
              "sorted_scopes.append(scope) is not guarded by called_from[scope] ⊆ already-sorted scopes", None, wa)
    rule_functions_below_modules(repo, chk, "R04.f")
    chk.guarded(rule_module_chain, repo, chk, "R04.f")
    chk.rule("R04.h", "when a name is made to stand for another value's register (no copy), the accesses of that name are added to the register's "
                      "accesses and enter its lifetime: the register is not released while the new name is still read", floor=2)
    chk.guarded(r04h, repo, chk)
    chk.rule("R04.i", "a register that a device object keeps as its id (the id was computed, 'Device(n + 1)') stays in use as long as the device is accessed "
                      "under its name: where handle_assign keeps such a register beyond its statement it adds the accesses of the device name to the "
                      "register's accesses", floor=1)
    chk.guarded(r04i, repo, chk)
    chk.rule("R04.j", "the register that receives the result of an inlined function is written wherever the function's code is spliced in; when that is "
                      "inside another function its lifetime cannot be the line interval from 'def' to the call", floor=1)
    chk.guarded(r04j, repo, chk)


def _interpreted_caller_sets(af):
    """({key class: guaranteed atoms}, None) from the abstract interpreter of sa/callersets.py, or (None, reason)"""
    from ..callersets import caller_sets, Unsupported
    try:
        st = caller_sets(af)
    except Unsupported as e:
        return None, str(e)
    if "func" not in st:
        return None, "no entry for function scopes"
    return st, None


def rule_functions_below_modules(repo, chk, R):
    """Every function scope is a callee of every library module scope (R04.f / R13.f)."""
    ra = repo.mod("register_assignment")
    af = ra.func("assign_registers")
    cfg, rd = fn_ctx(af)
    wa = f"{ra.path}:{af.lineno} in assign_registers"
    state, why = _interpreted_caller_sets(af)
    if state is not None:
        got = sorted(state.get("func", ()))
        chk.judge(R, "register_assignment:assign_registers:every call site makes its scope a caller of the function", "CALLS" in state["func"],
                  f"the callers of a function scope are guaranteed to contain {got or 'nothing'}: the scopes of the call sites are entered only under a condition (or not at all), so "
                  f"a function can be processed before a function that calls it and be given registers that are live across that call",
                  {"callers_guaranteed": got, "by": "abstract interpretation of called_from"}, wa)
        chk.judge(R, "register_assignment:assign_registers:every function scope is a callee of every library module scope", "MODS" in state["func"],
                  f"the callers of a function scope are guaranteed to contain {got or 'nothing'} (CALLS = its call sites, MODS = all library modules): expected the set of ALL "
                  f"library modules for every function. Module-level values live for the whole program, so a function that skips one module's scope can be given a register "
                  f"that holds that module's global", {"callers_guaranteed": got, "by": "abstract interpretation of called_from"}, wa)
        return
    ok_mod, detail, found = False, [], False

    def all_modules(e, at, depth=0):
        """data.modules / its keys, possibly through set() / sorted() / list() and locals"""
        if depth > 5:
            return False
        t = norm(e)
        if t in ("data.modules", "data.modules.keys()"):
            return True
        if isinstance(e, ast.Call) and norm(e.func) in ("set", "sorted", "list", "tuple", "frozenset") and len(e.args) == 1 and not e.keywords:
            return all_modules(e.args[0], at, depth + 1)
        if isinstance(e, ast.Name):
            ids_ = live_ids(cfg, at)
            ds_ = rd.at(ids_[0], e.id) if ids_ else []
            return bool(ds_) and all(d_.kind == "assign" and not d_.index and d_.value is not None and all_modules(d_.value, cfg.nodes[d_.node].ast, depth + 1) for d_ in ds_)
        return False
    for lp in ast.walk(af):
        if not isinstance(lp, ast.For):
            continue
        it = norm(lp.iter)
        if it not in ("called_from", "called_from.items()", "called_from.keys()", "called_from.values()"):
            continue
        keyvar = lp.target.id if isinstance(lp.target, ast.Name) and it in ("called_from", "called_from.keys()") else (
            lp.target.elts[0].id if isinstance(lp.target, ast.Tuple) and isinstance(lp.target.elts[0], ast.Name) else None)
        valvar = lp.target.elts[1].id if isinstance(lp.target, ast.Tuple) and len(lp.target.elts) == 2 and isinstance(lp.target.elts[1], ast.Name) else (
            lp.target.id if isinstance(lp.target, ast.Name) and it == "called_from.values()" else None)
        for c in ast.walk(lp):
            if isinstance(c, ast.Call) and isinstance(c.func, ast.Attribute) and c.func.attr in ("update", "add") and c.args \
                    and ("called_from" in norm(c.func.value) or (valvar and norm(c.func.value) == valvar)):
                found = True
                a = c.args[0]
                detail.append(norm(a))
                ids = live_ids(cfg, c)
                full = c.func.attr == "update" and all_modules(a, c)     # .add(x) adds a single scope
                # no per-function condition besides skipping the main region
                extra = []
                for t, p in (guard_atoms(cfg, ids[0]) if ids else []):
                    skip_main = isinstance(t, ast.Compare) and any(isinstance(k, ast.Constant) and k.value == "" for k in t.comparators) or \
                        isinstance(t, ast.Name) and t.id == keyvar
                    if not skip_main:
                        extra.append(norm(t))
                ok_mod = full and not extra
    if not found:
        # nothing adds scopes to the entries of called_from in place.  Do the module names reach them in another way (a
        # comprehension, a union)?  If they are only ever iterated to create the module entries themselves, no function is a
        # callee of a module scope.
        other_use = False
        for n in ast.walk(af):
            if isinstance(n, (ast.Name, ast.Attribute, ast.Call)) and all_modules(n, n) and not isinstance(getattr(n, "parent", None), (ast.Attribute,)):
                p = getattr(n, "parent", None)
                if isinstance(p, ast.Call) and norm(p.func) in ("set", "sorted", "list", "tuple", "frozenset", "enumerate", "len"):
                    continue                      # part of a larger expression that is looked at itself
                if isinstance(p, ast.Assign) and p.value is n:
                    continue                      # bound to a local: its uses are looked at
                if isinstance(p, (ast.For, ast.comprehension)) and p.iter is n:
                    body = p.body if isinstance(p, ast.For) else []
                    creates = any(isinstance(x, ast.Assign) and any(isinstance(t, ast.Subscript) and "called_from" in norm(t.value) for t in x.targets) for st in body for x in ast.walk(st))
                    if creates or not body:
                        continue                  # the loop that creates the module entries
                other_use = True
        if other_use:
            raise AnalysisError("assign_registers: the statement that makes every function a callee of the module scopes (called_from[..].update(<modules>)) was not found")
        detail = []
    chk.judge(R, "register_assignment:assign_registers:every function scope is a callee of every library module scope", ok_mod,
              f"functions are marked as called from {detail or 'no module scope'}: expected the set of ALL library modules for every function. Module-level values "
              f"live for the whole program, so a function that skips one module's scope can be given a register that holds that module's global",
              {"callers_added": detail}, wa)


def _static_truth(test):
    if isinstance(test, ast.Constant):
        return bool(test.value)
    if isinstance(test, ast.BoolOp):
        vals = [_static_truth(v) for v in test.values]
        if isinstance(test.op, ast.Or):
            if any(v is True for v in vals):
                return True
            if all(v is False for v in vals):
                return False
            return None
        if any(v is False for v in vals):
            return False
        if all(v is True for v in vals):
            return True
        return None
    if isinstance(test, ast.UnaryOp) and isinstance(test.op, ast.Not):
        v = _static_truth(test.operand)
        return None if v is None else not v
    return None


def _derives_from_range(e, nid, rd, single, depth=0):
    """(ok, K, description): e is built from range(K) by list/set/sorted/-/difference only."""
    if depth > 8:
        return False, None, "?"
    if isinstance(e, ast.Call):
        f = norm(e.func)
        if f == "range":
            if len(e.args) == 1 and isinstance(e.args[0], ast.Constant) and isinstance(e.args[0].value, int):
                return True, e.args[0].value, f"range({e.args[0].value})"
            if len(e.args) == 2 and all(isinstance(a, ast.Constant) for a in e.args) and e.args[0].value >= 0:
                return True, e.args[1].value, norm(e)
            return False, None, norm(e)
        if f in ("list", "set", "sorted", "tuple", "frozenset") and e.args:
            ok, K, d = _derives_from_range(e.args[0], nid, rd, single, depth + 1)
            return ok, K, f"{f}({d})"
        if isinstance(e.func, ast.Attribute) and e.func.attr in ("difference", "copy"):
            ok, K, d = _derives_from_range(e.func.value, nid, rd, single, depth + 1)
            return ok, K, d + "." + e.func.attr
        return False, None, norm(e)
    if isinstance(e, ast.BinOp) and isinstance(e.op, ast.Sub):
        ok, K, d = _derives_from_range(e.left, nid, rd, single, depth + 1)
        return ok, K, d + " - …"
    if isinstance(e, ast.Name):
        dd = single(e.id, nid)
        if dd is None:
            # several definitions (e.g. set(...) then list(sorted(...))): all must derive
            ds = rd.at(nid, e.id)
            if not ds:
                return False, None, e.id
            res = [_derives_from_range(d.value, d.node, rd, single, depth + 1) for d in ds if d.kind == "assign" and d.value is not None and not d.index]
            if len(res) != len(ds) or not all(r[0] for r in res):
                return False, None, e.id
            return True, max(r[1] for r in res), " | ".join(r[2] for r in res)
        return _derives_from_range(dd.value, dd.node, rd, single, depth + 1)
    return False, None, norm(e)


# ---------------------------------------------------------------------- R04.d
def rule_loop_widening(repo, chk):
    """R04.d as a rule of its own (also run by C01 as R01.r): a value that is live in a loop keeps its register for the whole loop."""
    t = repo.mod("types")
    lf = t.func("IC10Register.lifetime")
    chk.saw("types", "IC10Register.lifetime")
    lcfg, lrd = fn_ctx(lf)
    r04d(repo, chk, t, lf, lcfg, lrd, f"{t.path}:{lf.lineno} in IC10Register.lifetime")


def r04d(repo, chk, t, lf, lcfg, lrd, wl):
    """Accesses are widened to the loops that repeat them before line numbers are taken."""
    def resolve(e, at):
        """follow a local bound once to its defining expression"""
        if isinstance(e, ast.Name):
            ids = live_ids(lcfg, at)
            ds = lrd.at(ids[0], e.id) if ids else []
            if len(ds) == 1 and ds[0].kind == "assign" and not ds[0].index and ds[0].value is not None:
                return ds[0].value
        return e

    comps = [c for c in ast.walk(lf) if isinstance(c, (ast.ListComp, ast.GeneratorExp))]
    widened = None
    for c in comps:
        if isinstance(c.elt, ast.Call) and norm(c.elt.func) == "get_loop_ancestor" and len(c.generators) == 1 and c.elt.args:
            par = getattr(c, "parent", None)
            if isinstance(par, ast.Assign) and isinstance(par.targets[0], ast.Name):
                widened = (par.targets[0].id, c)
    if widened is None:
        chk.bad("R04.d", "types:IC10Register.lifetime:widening to the enclosing loop", "no comprehension applying get_loop_ancestor to the reading/writing nodes found: "
                "a variable used inside a loop would be released before the next iteration reads it", None, wl)
        return
    name, c = widened
    gen = c.generators[0]
    src = norm(resolve(gen.iter, c))
    ok_src = "nodes_reading" in src and "nodes_writing" in src and not gen.ifs and isinstance(gen.target, ast.Name) and norm(c.elt.args[0]) == gen.target.id
    chk.judge("R04.d", "types:IC10Register.lifetime:widening covers readers and writers", ok_src,
              f"get_loop_ancestor is applied to {norm(c.elt.args[0])} for the elements of {src}" + (" that satisfy a filter" if gen.ifs else "") + ": expected every reading and writing node",
              {"source": src}, wl)
    # every min()/max() over line numbers iterates the widened list
    mm = [x for x in ast.walk(lf) if isinstance(x, ast.Call) and norm(x.func) in ("min", "max") and x.args and isinstance(x.args[0], (ast.GeneratorExp, ast.ListComp))]
    ok = bool(mm) and all(norm(x.args[0].generators[0].iter) == name for x in mm)
    chk.judge("R04.d", "types:IC10Register.lifetime:line numbers are taken from the widened nodes only", ok,
              f"min/max iterate {[norm(x.args[0].generators[0].iter) for x in mm]}, expected the widened list {name}", None, wl)

    # ---- get_loop_ancestor
    u = repo.mod("utils")
    gl = u.func("get_loop_ancestor")
    chk.saw("utils", "get_loop_ancestor")
    wg = f"{u.path}:{gl.lineno} in get_loop_ancestor"
    gcfg, grd = fn_ctx(gl)
    params = [a.arg for a in gl.args.args]
    param = params[0]
    acc_param = params[1] if len(params) > 1 else None
    # the walk variable and where the walk starts
    walk_vars = {}
    for lp in ast.walk(gl):
        if isinstance(lp, ast.For) and isinstance(lp.target, ast.Name):
            walk_vars[lp.target.id] = ("iter", lp.iter, lp)
        if isinstance(lp, ast.While):
            for st in ast.walk(lp):
                if isinstance(st, ast.Assign) and len(st.targets) == 1 and isinstance(st.targets[0], ast.Name) and isinstance(st.value, ast.Attribute) and st.value.attr == "parent" \
                        and norm(st.value.value) == st.targets[0].id:
                    v = st.targets[0].id
                    inits = [d.value for d in grd.all_defs if d.name == v and d.kind == "assign" and d.value is not None and d.value is not st.value]
                    if len(inits) == 1:
                        walk_vars[v] = ("start", inits[0], lp)
    if not walk_vars:
        raise AnalysisError("get_loop_ancestor: the walk over the ancestors was not recognised")
    # tests that recognise a loop node
    def loop_kinds(e):
        """nodes.For / (nodes.For, nodes.While) / a module constant holding such a tuple -> {'For', 'While', ...} or None"""
        if isinstance(e, ast.Attribute):
            return {e.attr}
        if isinstance(e, ast.Tuple):
            out = set()
            for x in e.elts:
                k = loop_kinds(x)
                if k is None:
                    return None
                out |= k
            return out
        if isinstance(e, ast.Name) and e.id in u.assigns and len(u.assigns[e.id]) == 1 and isinstance(u.assigns[e.id][0], ast.Assign):
            return loop_kinds(u.assigns[e.id][0].value)
        return None

    matches = []
    covered, conditional = set(), {}
    for i in ast.walk(gl):
        if not isinstance(i, ast.If):
            continue
        disj = i.test.values if isinstance(i.test, ast.BoolOp) and isinstance(i.test.op, ast.Or) else [i.test]
        hit = False
        for dj in disj:
            atoms = dj.values if isinstance(dj, ast.BoolOp) and isinstance(dj.op, ast.And) else [dj]
            kinds, extra = set(), []
            for at in atoms:
                if isinstance(at, ast.Call) and norm(at.func) == "isinstance" and len(at.args) == 2 and isinstance(at.args[0], ast.Name) and at.args[0].id in walk_vars:
                    k = loop_kinds(at.args[1])
                    if k is None:
                        raise AnalysisError(f"get_loop_ancestor: node types in {norm(at)} not resolved")
                    kinds |= k
                    wv_ = at.args[0].id
                else:
                    extra.append(at)
            kinds &= {"For", "While"}
            if not kinds:
                continue
            hit = True
            if extra:
                for k in kinds:
                    conditional.setdefault(k, []).append(" and ".join(norm(x) for x in extra))
            else:
                covered |= kinds
        if hit:
            i.walk_var = wv_
            matches.append(i)
    if not matches:
        raise AnalysisError("get_loop_ancestor: no test recognising For / While ancestors found")
    for k in ("For", "While"):
        if k in covered:
            chk.ok("R04.d", f"utils:get_loop_ancestor:an enclosing {k} loop is recognised", None)
        elif k in conditional:
            chk.bad("R04.d", f"utils:get_loop_ancestor:an enclosing {k} loop is recognised",
                    f"an enclosing nodes.{k} is taken as the loop of an access only when {conditional[k]}: in the other case the access is not widened to that loop, "
                    f"the value is released inside the loop and the next iteration reads a clobbered register", {"condition": conditional[k]}, wg)
        else:
            chk.bad("R04.d", f"utils:get_loop_ancestor:an enclosing {k} loop is recognised",
                    f"no test of get_loop_ancestor accepts nodes.{k}: accesses inside such a loop are not widened to it", None, wg)
    if not matches:
        return
    for m_ in matches:
        wv = m_.walk_var
        kind, e, walk_loop = walk_vars[wv]
        t_ = norm(e)
        # (1) every proper ancestor is visited
        if kind == "iter" and t_ == f"{param}.node_ancestors()" or kind == "start" and t_ in (f"{param}.parent", f"{param}.statement()", f"{param}.statement(future=True)", param):
            chk.ok("R04.d", "utils:get_loop_ancestor:the walk starts at the node's own parent", {"start": t_})
        elif t_.startswith(f"{param}.statement(") and t_.endswith(".parent") or t_.startswith(f"{param}.parent.parent") or t_.startswith(f"{param}.scope()") or t_.startswith(f"{param}.frame()"):
            chk.bad("R04.d", "utils:get_loop_ancestor:the walk starts at the node's own parent",
                    f"the search for the enclosing loop starts at {t_}: for a name in the header of a loop (the test of 'while i < limit', the iterable of a for) the statement is "
                    f"the loop itself, so that loop is skipped and the value's lifetime ends at the header line although the header is evaluated again on every iteration",
                    {"start": t_}, wg)
        else:
            raise AnalysisError(f"get_loop_ancestor: ancestor walk starting at {t_} not understood")
        # (2) the matched loop is what comes back: returned directly or stored in the variable that is returned
        rets = [r for r in ast.walk(gl) if isinstance(r, ast.Return) and r.value is not None]
        ret_names = {r.value.id for r in rets if isinstance(r.value, ast.Name)}
        stores = [st for st in ast.walk(m_) if isinstance(st, ast.Assign) and len(st.targets) == 1 and isinstance(st.targets[0], ast.Name) and st.targets[0].id in ret_names
                  and isinstance(st.value, ast.Name) and st.value.id == wv]
        direct = [r for r in ast.walk(m_) if isinstance(r, ast.Return) and isinstance(r.value, ast.Name) and r.value.id == wv]
        chk.judge("R04.d", "utils:get_loop_ancestor:the loop that was found is returned", bool(stores or direct),
                  "the loop node recognised by the isinstance test is neither returned nor stored in the returned variable", None, wg)
        # (3) the search goes on to the outer loops as long as an access of the same value lies outside the loop found
        stops = []   # (statement that ends the walk, its condition inside the match body or None)
        def scan(stmts, cond):
            for st in stmts:
                if isinstance(st, (ast.Return, ast.Break)):
                    stops.append((st, cond))
                elif isinstance(st, ast.If):
                    scan(st.body, st.test if cond is None else ast.BoolOp(op=ast.And(), values=[cond, st.test]))
                    scan(st.orelse, ast.UnaryOp(op=ast.Not(), operand=st.test))
        scan(m_.body, None)
        key = "utils:get_loop_ancestor:outer loops are searched while an access lies outside the loop found"
        if not stops:
            chk.ok("R04.d", key, {"stops": "never: the outermost loop of the function is returned"})
        else:
            for st, cond in stops:
                if cond is None:
                    chk.bad("R04.d", key, "the search stops at the nearest enclosing loop: a value written before an outer loop and read only inside an inner loop is released "
                            "after the inner loop, a value born later in the outer loop's body takes its register, and the next iteration of the outer loop reads the clobbered register",
                            None, wg)
                    continue
                txt = norm(cond)
                inside = acc_param is not None and acc_param in {n.id for n in ast.walk(cond) if isinstance(n, ast.Name)} and "parent_of" in txt and txt.startswith("all(")
                if not inside:
                    raise AnalysisError(f"get_loop_ancestor: condition that ends the search for an outer loop not understood: {txt[:80]}")
                # the caller has to hand over all accesses
                arg2 = c.elt.args[1] if len(c.elt.args) > 1 else next((k.value for k in c.elt.keywords if k.arg == acc_param), None)
                src2 = norm(resolve(arg2, c)) if arg2 is not None else None
                chk.judge("R04.d", key, src2 is not None and "nodes_reading" in src2 and "nodes_writing" in src2,
                          f"the search for an outer loop ends when all of '{acc_param}' lie inside the loop found, but lifetime passes {src2 or 'nothing (the default: no accesses)'} "
                          f"for it: expected every reading and writing node of the value", {"accesses_argument": src2}, wl)


# ---------------------------------------------------------------------- R04.h
def r04h(repo, chk, R="R04.h"):
    g = repo.mod("generate_code")
    t = repo.mod("types")
    from .shared import GEN_CLASS
    hs = repo.handlers()
    fn = g.func(f"{GEN_CLASS}.{hs['Assign']}")
    chk.saw("generate_code", fn.qual)
    cfg, rd = fn_ctx(fn)
    where = f"{g.path}:{fn.lineno} in {fn.qual}"
    # the store that shares a register: X.code_expr = <V>.code_expr ...
    shares = []
    for st in ast.walk(fn):
        if isinstance(st, ast.Assign) and len(st.targets) == 1 and isinstance(st.targets[0], ast.Attribute) and st.targets[0].attr == "code_expr":
            recv = norm(st.targets[0].value)
            srcs = [norm(a.value) for a in ast.walk(st.value) if isinstance(a, ast.Attribute) and a.attr == "code_expr" and norm(a.value) != recv]
            if srcs:
                shares.append((st, recv, srcs[0]))
    if not shares:
        raise AnalysisError("handle_assign: the store that lets a name share another value's register was not found")
    lf = t.func("IC10Register.lifetime")
    ltxt = " ".join(norm(x) for x in ast.walk(lf) if isinstance(x, ast.BinOp))
    for st, recv, src in shares:
        # a statement on every path to the store (or right after it) that hands recv's accesses to the value whose register is
        # shared.  src may itself be a name without a register of its own (z = x after x = y): the accesses must reach the value
        # at the END of that chain, so the site either walks a link it maintains itself, or src is known to own its register.
        attrs = set()
        direct = []
        for c in ast.walk(fn):
            if not (isinstance(c, ast.Call) and isinstance(c.func, ast.Attribute) and c.func.attr in ("extend", "append", "update") and isinstance(c.func.value, ast.Attribute)
                    and c.args):
                continue
            a = norm(c.args[0])
            if not (f"{recv}.nodes_reading" in a and f"{recv}.nodes_writing" in a):
                continue
            tgt = c.func.value.value
            ids_c, ids_s = live_ids(cfg, c), live_ids(cfg, st)
            if not (ids_c and ids_s):
                continue
            gs = {(norm(t_), p_) for t_, p_ in guard_atoms(cfg, ids_s[0])}
            gc = {(norm(t_), p_) for t_, p_ in guard_atoms(cfg, ids_c[0])}
            extra = gc - gs
            if not gs <= gc:
                continue
            if norm(tgt) == src:
                # executed whenever the store is and the shared value is a register: same guards, plus at most 'isinstance(src, IC10Register)'
                if all(p_ and t_.startswith(f"isinstance({src}, ") for t_, p_ in extra):
                    direct.append(c)
                continue
            if not isinstance(tgt, ast.Name):
                continue
            owner = tgt.id
            ds = rd.at(ids_c[0], owner)
            links = set()
            start_ok = False
            for d in ds:
                if d.kind != "assign" or d.index or d.value is None:
                    links.add(None)
                elif norm(d.value) == src:
                    start_ok = True
                elif isinstance(d.value, ast.Attribute) and norm(d.value.value) == owner:
                    links.add(d.value.attr)
                else:
                    links.add(None)
            if not start_ok or None in links or len(links) != 1:
                continue
            link = next(iter(links))
            walks = [w for w in ast.walk(fn) if isinstance(w, ast.While) and norm(w.test) == f"{owner}.{link} is not None"
                     and any(isinstance(b, ast.Assign) and norm(b) == f"{owner} = {owner}.{link}" for b in w.body)]
            records = [b for b in ast.walk(fn) if isinstance(b, ast.Assign) and norm(b) == f"{recv}.{link} = {owner}" and live_ids(cfg, b)
                       and {(norm(t_), p_) for t_, p_ in guard_atoms(cfg, live_ids(cfg, b)[0])} == gc]
            # (the exit condition of the walk is one of the guards of everything after it)
            allowed = all((p_ and (t_.startswith(f"isinstance({src}, ") or t_ in (f"{owner} is not {recv}", f"{src} is not {recv}")))
                          or (not p_ and t_ == f"{owner}.{link} is not None") for t_, p_ in extra)
            if walks and records and allowed:
                attrs.add(c.func.value.attr)
        key = f"generate_code:{fn.qual}:accesses of the new name are handed to the shared register"
        if not attrs and direct:
            chk.bad(R, key, f"the accesses of {recv} are added to {src} itself, but {src} may be a name that only stands for another value's register (it got there through this "
                    f"very store): in 'x = y; z = x; c = ...; c + z' the accesses of z reach x, not y, the register of y is released after the last access of x and c takes it",
                    None, f"{g.path}:{direct[0].lineno} in {fn.qual}")
            continue
        if not attrs:
            chk.bad(R, key, f"{recv} is made to share the register of {src}, but the reading and writing nodes of {recv} are not added to {src}: the register is released after the "
                    f"last access of the old name ('y = x; z = ...; y + z': z takes the register and the sum is z + z)", None, f"{g.path}:{st.lineno} in {fn.qual}")
            continue
        chk.ok(R, key, {"attributes": sorted(attrs)})
        used = [a for a in attrs if f"self.{a}" in ltxt]
        chk.judge(R, "types:IC10Register.lifetime:the handed-over accesses enter the lifetime", bool(used),
                  f"handle_assign records the accesses of the sharing name in {sorted(attrs)}, but IC10Register.lifetime does not include that list in the accesses it widens",
                  None, f"{t.path}:{lf.lineno} in IC10Register.lifetime")


# ---------------------------------------------------------------------- R04.f / R13.f: the module scopes form a chain
def rule_module_chain(repo, chk, R):
    """Every library module scope is entered 'from' the main scope and from every module scope ordered before it: module-level
    values live for the whole program, so two modules must not draw their registers from the same pool."""
    ra = repo.mod("register_assignment")
    af = ra.func("assign_registers")
    cfg, rd = fn_ctx(af)
    wa = f"{ra.path}:{af.lineno} in assign_registers"
    state, why = _interpreted_caller_sets(af)
    if state is not None and "module" in state:
        got = sorted(state["module"])
        key = "register_assignment:assign_registers:a module scope comes after the main scope and after the modules ordered before it"
        chk.judge(R, key, {"MAIN", "PREV"} <= state["module"],
                  f"the callers of a module scope are guaranteed to contain {got or 'nothing'} (MAIN = the main scope, PREV = the modules ordered before it): the modules are no "
                  f"longer ordered among themselves, two libraries allocate their (ever-live) globals from the same registers",
                  {"callers_guaranteed": got, "by": "abstract interpretation of called_from"}, wa)
        return

    def modules_iter(e, at, depth=0):
        t = norm(e)
        if "data.modules" in t:
            return True
        if isinstance(e, ast.Call) and norm(e.func) in ("sorted", "list", "set", "enumerate", "tuple") and e.args:
            return modules_iter(e.args[0], at, depth + 1)
        if isinstance(e, ast.Name) and depth < 4:
            ids_ = live_ids(cfg, at)
            ds_ = rd.at(ids_[0], e.id) if ids_ else []
            return bool(ds_) and all(d_.kind == "assign" and not d_.index and d_.value is not None and modules_iter(d_.value, cfg.nodes[d_.node].ast, depth + 1) for d_ in ds_)
        return False
    n = 0
    for lp in ast.walk(af):
        if not (isinstance(lp, ast.For) and modules_iter(lp.iter, lp.iter)):
            continue
        mvar = lp.target.id if isinstance(lp.target, ast.Name) else (lp.target.elts[-1].id if isinstance(lp.target, ast.Tuple) and isinstance(lp.target.elts[-1], ast.Name) else None)
        pvar = lp.target.elts[0].id if isinstance(lp.target, ast.Tuple) and isinstance(lp.target.elts[0], ast.Name) and "enumerate" in norm(lp.iter) else None
        for st in lp.body:
            if not (isinstance(st, ast.Assign) and len(st.targets) == 1 and isinstance(st.targets[0], ast.Subscript) and "called_from" in norm(st.targets[0].value)
                    and norm(st.targets[0].slice) == mvar):
                continue
            n += 1
            v = st.value
            names = {x.id for x in ast.walk(v) if isinstance(x, ast.Name)}
            key = "register_assignment:assign_registers:a module scope comes after the main scope and after the modules ordered before it"
            grows = None
            # (a) an accumulator that receives the module after it was used:  acc.copy() ... acc.add(module)
            for nm in names:
                added = any(isinstance(c, ast.Call) and isinstance(c.func, ast.Attribute) and norm(c.func.value) == nm and c.func.attr in ("add", "append") and c.args and norm(c.args[0]) == mvar
                            for x in lp.body for c in ast.walk(x)) or \
                    any(isinstance(x, ast.AugAssign) and norm(x.target) == nm and mvar in norm(x.value) for x in lp.body)
                if added:
                    grows = f"accumulator {nm}"
            # (b) the modules before this one by position: names[:position]
            if grows is None and pvar is not None:
                for x in ast.walk(v):
                    if isinstance(x, ast.Subscript) and isinstance(x.slice, ast.Slice) and x.slice.lower is None and x.slice.upper is not None and norm(x.slice.upper) == pvar \
                            and modules_iter(x.value, st):
                        grows = f"slice {norm(x)}"
            if grows is not None:
                chk.ok(R, key, {"how": grows})
            elif not names:
                chk.bad(R, key, f"every module scope is given the same callers {norm(v)}: the modules are no longer ordered among themselves, each of them only keeps clear of the "
                        f"main scope and two libraries allocate their (ever-live) globals from the same registers", {"callers": norm(v)}, wa)
            else:
                raise AnalysisError(f"assign_registers: what the module scopes are called from ({norm(v)[:60]}) was not understood")
    if n == 0:
        raise AnalysisError("assign_registers: the loop that enters the module scopes into called_from was not found")


# ---------------------------------------------------------------------- R04.i
def _lifetime_lists(repo):
    """Attributes of IC10Register whose nodes enter the accesses that lifetime widens."""
    t = repo.mod("types")
    lf = t.func("IC10Register.lifetime")
    out = set()
    for b in ast.walk(lf):
        if isinstance(b, ast.BinOp):
            for a in ast.walk(b):
                if isinstance(a, ast.Attribute) and isinstance(a.value, ast.Name) and a.value.id == "self" and a.attr.startswith("nodes_"):
                    out.add(a.attr)
    return out


def r04i(repo, chk, R="R04.i"):
    g = repo.mod("generate_code")
    from .shared import GEN_CLASS
    fn = g.func(f"{GEN_CLASS}.{repo.handlers()['Assign']}")
    chk.saw("generate_code", fn.qual)
    cfg, rd = fn_ctx(fn)
    keeps = [st for st in ast.walk(fn) if isinstance(st, ast.Assign) and len(st.targets) == 1 and isinstance(st.targets[0], ast.Attribute)
             and st.targets[0].attr == "_is_intermediate" and isinstance(st.value, ast.Constant) and st.value.value is False]
    if not keeps:
        raise AnalysisError("handle_assign: the store that keeps a device-id register beyond its statement (<id>._is_intermediate = False) was not found")
    lists = _lifetime_lists(repo)
    for st in keeps:
        reg = norm(st.targets[0].value)
        ids_s = live_ids(cfg, st)
        if not ids_s:
            continue
        gs = {(norm(t_), p_) for t_, p_ in guard_atoms(cfg, ids_s[0])}
        handed = []
        for c in ast.walk(fn):
            if isinstance(c, ast.Call) and isinstance(c.func, ast.Attribute) and c.func.attr in ("extend", "append", "update") and isinstance(c.func.value, ast.Attribute) \
                    and norm(c.func.value.value) == reg and c.args and "nodes_reading" in norm(c.args[0]):
                ids_c = live_ids(cfg, c)
                if ids_c and {(norm(t_), p_) for t_, p_ in guard_atoms(cfg, ids_c[0])} == gs:
                    # whose accesses?  the symbol of the assignment target
                    recv = next((norm(a.value) for a in ast.walk(c.args[0]) if isinstance(a, ast.Attribute) and a.attr == "nodes_reading"), None)
                    is_target = False
                    if recv is not None:
                        for a in ast.walk(c.args[0]):
                            if isinstance(a, ast.Attribute) and a.attr == "nodes_reading" and isinstance(a.value, ast.Name):
                                ds = rd.at(ids_c[0], a.value.id)
                                is_target = bool(ds) and all(d.kind == "assign" and d.value is not None and isinstance(d.value, ast.Call) and norm(d.value.func).endswith("get_sym_data")
                                                             and d.value.args and all(".targets[0]" in norm(u) for u in underlying(rd, d.node, d.value.args[0])) for d in ds)
                    if is_target:
                        handed.append(c.func.value.attr)
        key = f"generate_code:{fn.qual}:the kept device-id register gets the accesses of the device name"
        where = f"{g.path}:{st.lineno} in {fn.qual}"
        # every id that lives in a register is covered, a named variable as much as a temporary: the variable's own accesses end where the
        # id is last read BY NAME, the device is used longer
        narrowed = sorted(t_ for t_, p_ in gs if p_ and ("_is_intermediate" in t_ or "is_overwritten" in t_ or ".name" in t_.split("isinstance")[0] and "startswith" in t_))
        chk.judge(R, f"generate_code:{fn.qual}:every register that holds a device id is kept, whatever kind of value it is", not narrowed,
                  f"the device-id register is kept (and given the device's accesses) only under {narrowed}: an id held in a parameter or a named local is released after "
                  f"the last use of THAT name, the next local takes the register and 'dev.On = 1' addresses another device", {"guards": sorted(t_ for t_, p_ in gs)}, where)
        if not handed:
            chk.bad(R, key, f"{reg} is kept beyond its statement ({norm(st)}), but nothing records that the device name is read later: inside a function the register's "
                            f"lifetime is the line of 'dev = Device(n + 1)', the next value takes it and 'dev.On = a' addresses another device", None, where)
            continue
        chk.judge(R, key, any(a in lists for a in handed),
                  f"the accesses are recorded in {sorted(set(handed))}, which IC10Register.lifetime does not include ({sorted(lists)})", {"lists": sorted(lists)}, where)


# ---------------------------------------------------------------------- R04.j
def r04j(repo, chk, R="R04.j"):
    g = repo.mod("generate_code")
    t = repo.mod("types")
    from .shared import GEN_CLASS, lifetime_leaves
    cf = g.func(f"{GEN_CLASS}.compile_function")
    chk.saw("generate_code", cf.qual)
    cfg, rd = fn_ctx(cf)
    node_param = cf.args.args[1].arg if len(cf.args.args) > 1 else None
    # does the function's own symbol get a register?  <sym>.code_expr = <fresh register>, <sym> = get_sym_data(<the FunctionDef>)
    gives = []
    for st in ast.walk(cf):
        if isinstance(st, ast.Assign) and len(st.targets) == 1 and isinstance(st.targets[0], ast.Attribute) and st.targets[0].attr == "code_expr" \
                and isinstance(st.targets[0].value, ast.Name):
            ids = live_ids(cfg, st)
            ds = rd.at(ids[0], st.targets[0].value.id) if ids else []
            if ds and all(d.kind == "assign" and d.value is not None and norm(d.value).endswith(f"get_sym_data({node_param})") for d in ds):
                gives.append(st)
    key = "types:IC10Register.lifetime:result register of a function inlined into another function"
    if not gives:
        chk.ok(R, key, {"note": "compile_function gives the function's own symbol no register"}, vacuous=True)
        return
    lf = t.func("IC10Register.lifetime")
    chk.saw("types", "IC10Register.lifetime")
    lcfg, lrd = fn_ctx(lf)
    where = f"{t.path}:{lf.lineno} in IC10Register.lifetime"
    stores = [(v, st) for v, st in lifetime_leaves(t, lf, lcfg, lrd) if isinstance(v, ast.Call) and norm(v.func) == "range" and v.args and "maxsize" in norm(v.args[-1])]
    if not stores:
        raise AnalysisError("IC10Register.lifetime: no unbounded lifetime found (see R04.e)")
    # the unbounded store must be reachable for a writer that is a FunctionDef whose symbol is read inside a function:
    # some test on the way mentions FunctionDef together with the scope of a reader
    mentions = False
    for v, st in stores:
        p = st
        tests = []
        while p is not None and p is not lf:
            par = getattr(p, "parent", None)
            if isinstance(par, (ast.If, ast.While)):
                tests.append(par.test)
            p = par
        # tests that define the values used in those tests (one level of locals)
        for tst in list(tests):
            for nm in ast.walk(tst):
                if isinstance(nm, ast.Name):
                    ids = live_ids(lcfg, tst)
                    for d in (lrd.at(ids[0], nm.id) if ids else []):
                        if d.kind == "assign" and d.value is not None:
                            tests.extend(t_ for t_, _p in guard_atoms(lcfg, d.node))
        txt = " ".join(norm(x) for x in tests)
        if "FunctionDef" in txt and "nodes_reading" in txt and ".scope()" in txt:
            mentions = True
    chk.judge(R, key, mentions,
              "compile_function puts the result of an inlined function into a register of the function's own symbol, which belongs to the scope of the 'def'; "
              "IC10Register.lifetime gives it the line interval from 'def' to the call although the register is written whenever the calling function runs: "
              "'def f(): ..', 'def g(): v = f() ..', 'db.Setting = g() + g()' keeps the first g() in the register that f's result overwrites during the second call",
              {"stores": [norm(st_)[:60] for st_ in gives]}, where)
