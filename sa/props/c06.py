"""C06 — calls return to their call site; arguments and results arrive intact (R06.a–g)."""
from __future__ import annotations

import ast
from ..model import Repo, AnalysisError, norm, enclosing_def
from ..report import Check
from ..consteval import TOP, FnEval, S, Pattern, Hole
from ..emit import collect_sites
from ..linnorm import lin, NotLinear
from .shared import rule_function_labels, rule_convention_roles, fn_ctx, live_ids, guard_atoms, body_loops, GEN_CLASS, convention_roles


def run(repo: Repo, chk: Check):
    chk.rule("R06.a", "caller and callee agree in both calling conventions: the i-th argument is written to and read from the same "
                      "slot (fixed slots) or pushed in order and popped in reverse (push/pop); the result slot is the same on both "
                      "sides and distinct from every argument slot; every role has a site under each convention", floor=12)
    chk.rule("R06.b", "the ra logic looks for the end label the code generator defines (same qualified name, same transformation, same suffix)", floor=6)
    chk.rule("R06.c", "every branch of add_ra_instructions that inserts 'push ra' also inserts 'pop ra'", floor=2)
    chk.rule("R06.d", "every form in which compile_function can end a function is recognised by the predicate that decides whether ra must be saved", floor=2)
    chk.rule("R06.e", "every lowering that wraps compiled statements into a 'jal L ... L: ... j ra' subroutine preserves ra around them", floor=1)
    chk.rule("R06.f", "ra is restored after the function's end label (early returns pass through the restore); in the push/pop "
                      "convention ra is pushed after the argument pops and the inserts are applied from the highest index down", floor=3)
    chk.rule("R06.i", "whether a function must save ra is decided from the instruction list that is emitted for it (every '*al' opcode in "
                      "self.code), not from a side table", floor=1)
    chk.rule("R06.h", "a return omits the jump to the function's end label only when it is the last statement of the function body "
                      "itself: the ra logic finds the exit points of a function by that jump and by the end label", floor=1)
    chk.rule("R06.g", "at a call site arguments are stored before the jal and the result is read after it; a return stores the "
                      "result before jumping to the end label", floor=3)
    chk.guarded(rule_convention_roles, repo, chk, "R06.a")
    chk.guarded(r06a, repo, chk)
    chk.guarded(rule_function_labels, repo, chk, "R06.b")
    chk.guarded(r06cdf, repo, chk)
    chk.guarded(r06e, repo, chk)
    chk.guarded(r06g, repo, chk)
    chk.guarded(r06h, repo, chk)
    chk.guarded(r06k, repo, chk)
    chk.rule("R06.l", "a function's end label, the target of its early returns, is followed by an instruction that cannot fall through also when the "
                      "final 'j ra' is replaced by a tail call: otherwise an early return runs into the next function and never returns to the call site "
                      "(shared with R07.c)", floor=2)
    from .c07 import r07c
    chk.guarded(r07c, repo, chk, "R06.l")
    chk.rule("R06.m", "a call is turned into a tail jump only when it leaves nothing to do after the callee has returned: what the call adds to its "
                      "'end' section (taking the returned value off the stack) would be skipped, and the stack pointer at the return would be one "
                      "above its value at the call", floor=1)
    chk.guarded(r06m, repo, chk)
    chk.rule("R06.n", "a call with the wrong number of arguments is rejected whatever the options are: in the push/pop convention it would push "
                      "more (or fewer) values than the callee pops", floor=1)
    chk.guarded(r06n, repo, chk)


def _addr(site):
    """(device text, linear form of the address) for put db A v / get r db A; a local that holds the address is followed to its
    single definition."""
    ins = site.input_exprs
    if len(ins) < 2:
        return None
    cfg, rd = fn_ctx(site.fn)
    ids = live_ids(cfg, site.call)

    def resolve(nm):
        ds = rd.at(ids[0], nm.id) if ids else []
        if len(ds) == 1 and ds[0].kind == "assign" and not ds[0].index and isinstance(ds[0].value, (ast.BinOp, ast.Constant, ast.UnaryOp)):
            return ds[0].value
        return None
    try:
        return norm(ins[0]), lin(ins[1], resolve)
    except NotLinear:
        return None


def r06a(repo, chk, R="R06.a"):
    roles = convention_roles(repo)
    g = repo.mod("generate_code")
    # fixed slots
    ca, ce = roles[("caller-arg", False)], roles[("callee-arg", False)]
    cr, er = roles[("caller-result", False)], roles[("callee-result", False)]
    if not (ca and ce and cr and er):
        return  # reported by rule_convention_roles
    def loop_index(site):
        """The enumerate index variable and iterated expression of the loop around the site."""
        p = site.call
        while p is not None and p is not site.fn:
            if isinstance(p, ast.For) and isinstance(p.iter, ast.Call) and norm(p.iter.func) == "enumerate" and isinstance(p.target, ast.Tuple) \
                    and isinstance(p.target.elts[0], ast.Name):
                return p.target.elts[0].id, p.iter.args[0], p
            p = getattr(p, "parent", None)
        return None, None, None
    a1, a2 = _addr(ca[0]), _addr(ce[0])
    i1, it1, lp1 = loop_index(ca[0])
    i2, it2, lp2 = loop_index(ce[0])
    def rename(linform, var):
        co, k = linform
        return ({("<i>" if a == var else a): v for a, v in co.items()}, k)
    ok = a1 is not None and a2 is not None and i1 and i2 and a1[0] == a2[0] and rename(a1[1], i1) == rename(a2[1], i2) and rename(a1[1], i1)[0].get("<i>") in (1, -1)
    chk.judge(R, "fixed slots: i-th argument slot (caller put == callee get)", bool(ok),
              f"caller writes argument i to {norm(ca[0].input_exprs[1]) if len(ca[0].input_exprs) > 1 else '?'} on {a1[0] if a1 else '?'}, "
              f"callee reads it from {norm(ce[0].input_exprs[1]) if len(ce[0].input_exprs) > 1 else '?'} on {a2[0] if a2 else '?'}",
              {"caller": norm(ca[0].call), "callee": norm(ce[0].call)}, ce[0].where())
    r1, r2 = _addr(er[0]), _addr(cr[0])
    okr = r1 is not None and r2 is not None and r1 == r2
    chk.judge(R, "fixed slots: result slot (callee put == caller get)", bool(okr),
              f"callee writes the result to {norm(er[0].input_exprs[1])}, caller reads {norm(cr[0].input_exprs[1])}", None, cr[0].where())
    if ok and okr:
        co, k = rename(a1[1], i1)
        # argument slots RET-1-i never reach the result slot for i >= 0
        rk = r1[1]
        same_atoms = {a: v for a, v in co.items() if a != "<i>"} == rk[0]
        slope = co.get("<i>")
        distinct = same_atoms and ((slope < 0 and k < rk[1]) or (slope > 0 and k > rk[1]))
        if not same_atoms:
            # the two addresses are written over different symbols: nothing can be said about their distance
            chk.unresolved(R, "fixed slots: no argument slot coincides with the result slot",
                           f"argument slot {co}+{k} and result slot {rk} are not expressed over the same constants", ca[0].where())
        else:
          chk.judge(R, "fixed slots: no argument slot coincides with the result slot", bool(distinct),
                  f"argument slot {co}+{k} can equal the result slot {rk}", None, ca[0].where())
    # iteration order
    cfgc, rdc = fn_ctx(ca[0].fn)
    cfge, rde = fn_ctx(ce[0].fn)
    def iter_shape(expr, rd, cfg, at):
        """('plain'|'reversed'|'flag', text)"""
        if isinstance(expr, ast.Name):
            ids = live_ids(cfg, at)
            ds = rd.at(ids[0], expr.id) if ids else []
            if len(ds) == 1 and ds[0].kind == "assign" and ds[0].value is not None:
                return iter_shape(ds[0].value, rd, cfg, at)
        if isinstance(expr, ast.IfExp):
            t = norm(expr.test)
            b, o = iter_shape(expr.body, rd, cfg, at), iter_shape(expr.orelse, rd, cfg, at)
            if t.endswith("use_push_pop_functions") and b[0] == "reversed" and o[0] == "plain":
                return ("flag", "reversed iff push/pop")
            if t.endswith("use_push_pop_functions"):
                return ("bad", f"{b[0]} if push/pop else {o[0]}")
            return ("?", norm(expr))
        txt = norm(expr)
        if "reversed(" in txt or "[::-1]" in txt:
            return ("reversed", txt)
        return ("plain", txt)
    s1 = iter_shape(it1, rdc, cfgc, lp1.iter) if it1 is not None else ("?", "")
    s2 = iter_shape(it2, rde, cfge, lp2.iter) if it2 is not None else ("?", "")
    chk.judge(R, "argument order: caller enumerates the call's arguments in source order", s1[0] == "plain" and norm(it1).endswith(".args"),
              f"caller iterates {s1[1]}", {"iter": s1[1]}, ca[0].where())
    chk.judge(R, "argument order: callee reads declared order (fixed slots) / reversed order (push/pop)", s2[0] == "flag",
              f"callee iterates its parameters as: {s2[1]}; expected reversed exactly under use_push_pop_functions (last pushed is popped first)",
              {"iter": s2[1]}, ce[0].where())
    # push/pop sites sit in the same loops as the fixed-slot ones
    for role in ("caller-arg", "callee-arg"):
        f_site, p_site = roles[(role, False)], roles[(role, True)]
        if f_site and p_site:
            same = loop_index(f_site[0])[2] is loop_index(p_site[0])[2] and loop_index(f_site[0])[2] is not None
            chk.judge(R, f"{role}: both conventions handle every argument (same loop)", same,
                      "the push/pop site and the fixed-slot site are not in the same loop over the arguments", None, p_site[0].where())
    def _rejecting(fn_, t, p):
        """The other branch of the if that produced guard (t, p) only raises: a compile error, not a skip."""
        for node in ast.walk(fn_):
            if isinstance(node, ast.If) and any(x is t for x in ast.walk(node.test)):
                other = node.orelse if p else node.body
                if other and isinstance(other[-1], ast.Raise):
                    return True
        return False

    # push/pop: every pushed argument is popped — the pop site must not be skippable for individual parameters
    for s_ in roles[("callee-arg", True)]:
        cfgp, rdp = fn_ctx(s_.fn)
        ids = live_ids(cfgp, s_.call)
        lp = loop_index(s_)[2]
        extra = []
        for t, p in (guard_atoms(cfgp, ids[0]) if ids else []):
            if lp is not None and any(x is t for x in ast.walk(lp)) and not norm(t).endswith("use_push_pop_functions") and not _rejecting(s_.fn, t, p):
                extra.append(norm(t) + ("" if p else " is False"))
        chk.judge(R, "push/pop: every declared parameter is popped (no per-parameter condition)", not extra,
                  f"the pop of a parameter is skipped under {extra}: the caller still pushes every argument, so all later parameters read the wrong stack entries "
                  f"and one entry leaks per call", {"conditions": extra}, s_.where())
    for s_ in roles[("caller-arg", True)] + roles[("caller-arg", False)]:
        cfgp, rdp = fn_ctx(s_.fn)
        ids = live_ids(cfgp, s_.call)
        lp = loop_index(s_)[2]
        extra = []
        for t, p in (guard_atoms(cfgp, ids[0]) if ids else []):
            if lp is not None and any(x is t for x in ast.walk(lp)) and not norm(t).endswith("use_push_pop_functions") and "do_inline" not in norm(t) and "inline" not in norm(t) \
                    and not _rejecting(s_.fn, t, p):
                extra.append(norm(t) + ("" if p else " is False"))
        chk.judge(R, f"caller: every argument is stored ({'push/pop' if s_ in roles[('caller-arg', True)] else 'fixed slots'})", not extra,
                  f"storing an argument is skipped under {extra}", {"conditions": extra}, s_.where())
    # result partners in push/pop: callee pushes exactly the value, caller pops into the result symbol
    ep, cp_ = roles[("callee-result", True)], roles[("caller-result", True)]
    if ep and cp_:
        ok = len(ep[0].input_exprs) == 1 and cp_[0].has_output and len(cp_[0].input_exprs) == 0
        same_val = norm(ep[0].input_exprs[0]) == norm(er[0].input_exprs[-1]) if ep[0].input_exprs and er[0].input_exprs else False
        same_out = norm(cp_[0].output_expr) == norm(cr[0].output_expr) if cp_[0].has_output and cr[0].has_output else False
        chk.judge(R, "push/pop: result is pushed by the callee and popped by the caller into the same symbol as in the fixed-slot convention",
                  ok and same_val and same_out, "push/pop result sites do not mirror the fixed-slot ones", None, cp_[0].where())


def r06cdf(repo, chk):
    cp = repo.mod("compile_pass")
    qual = "FunctionData.add_ra_instructions"
    fn = cp.func(qual)
    chk.saw("compile_pass", qual)
    cfg, rd = fn_ctx(fn)
    sites = [s for s in collect_sites(repo, ["compile_pass"]) if s.fn is fn]
    where = f"{cp.path}:{fn.lineno} in {qual}"

    def pol(site):
        ids = live_ids(cfg, site.call)
        for t, p in (guard_atoms(cfg, ids[0]) if ids else []):
            if norm(t).endswith("use_push_pop_functions"):
                return p
        return None

    def names_ra(e, at_call):
        """the operand is the register ra: the text 'ra', or a local name whose every reaching definition builds a register called 'ra'"""
        if isinstance(e, ast.Constant):
            return e.value == "ra"
        if isinstance(e, ast.Call):
            a0 = e.args[0] if e.args else next((k.value for k in e.keywords if k.arg in ("name", "code_expr")), None)
            return isinstance(a0, ast.Constant) and a0.value == "ra"
        if isinstance(e, ast.Name):
            ids = live_ids(cfg, at_call)
            ds = rd.at(ids[0], e.id) if ids else []
            return bool(ds) and all(d.kind == "assign" and not d.index and d.value is not None and not isinstance(d.value, ast.Name) and names_ra(d.value, at_call) for d in ds)
        return False
    by = {}
    for s in sites:
        ops = s.opcodes
        if ops is TOP or len(ops) != 1:
            continue
        op = next(iter(ops))
        is_ra = (s.input_exprs and names_ra(s.input_exprs[0], s.call)) or (s.has_output and names_ra(s.output_expr, s.call))
        if op in ("push", "pop") and is_ra:
            by.setdefault(pol(s), {}).setdefault(op, []).append(s)
    if not by:
        raise AnalysisError("add_ra_instructions: push/pop of ra not found")
    for p, d in sorted(by.items(), key=lambda kv: str(kv[0])):
        name = {True: "push/pop convention", False: "fixed-slot convention", None: "common code"}[p]
        chk.judge("R06.c", f"compile_pass:{qual}:{name}", bool(d.get("push")) == bool(d.get("pop")),
                  f"branch for the {name} inserts {sorted(d)} of ra only: the return address is saved but never restored (or vice versa)",
                  {k: len(v) for k, v in d.items()}, where)
    if True not in by or False not in by:
        chk.bad("R06.c", f"compile_pass:{qual}:both conventions save ra", f"ra is saved only for {sorted(map(str, by))}", None, where)

    # ------------------------------------------------------------ R06.d exit forms
    g = repo.mod("generate_code")
    cf = g.func(f"{GEN_CLASS}.compile_function")
    chk.saw("generate_code", cf.qual)
    forms = []
    for s in collect_sites(repo, ["generate_code"]):
        if s.fn is cf and s.opcodes is not TOP and set(s.opcodes) == {"j"} and s.section == "end":
            tgt = norm(s.input_exprs[0]) if s.input_exprs else "?"
            forms.append(("final jump", "j", tgt.strip("'\"")))
    for st in ast.walk(cf):
        if isinstance(st, ast.Assign) and any(isinstance(t, ast.Attribute) and t.attr == "op" for t in st.targets) and isinstance(st.value, ast.Constant):
            forms.append(("tail call: jal rewritten", st.value.value, "<function label>"))
    if len(forms) < 2:
        raise AnalysisError(f"compile_function: exit forms not recognised ({forms})")
    # the predicate have_returns: assignments `X = True` under a test on instr
    flags = {}
    for st in ast.walk(fn):
        if isinstance(st, ast.Assign) and isinstance(st.value, ast.Constant) and st.value.value is True and len(st.targets) == 1 and isinstance(st.targets[0], ast.Name):
            par = getattr(st, "parent", None)
            if isinstance(par, ast.If):
                flags.setdefault(st.targets[0].id, []).append(par.test)
    # which flag is the 'returns' flag: its test mentions "ra"
    ret_flags = [f for f, tests in flags.items() if any('"ra"' in norm(t).replace("'", '"') for t in tests)]
    # the other flag: the second name in the condition that guards the insertion of push ra
    call_flags = []
    for node in ast.walk(fn):
        if isinstance(node, ast.If) and isinstance(node.test, ast.BoolOp) and isinstance(node.test.op, ast.And) \
                and any(isinstance(v, ast.Name) and v.id in ret_flags for v in node.test.values) \
                and any(isinstance(c, ast.Call) and c.args and isinstance(c.args[0], ast.Constant) and c.args[0].value == "push" for c in ast.walk(node)):
            call_flags = [norm(v) for v in node.test.values if not (isinstance(v, ast.Name) and v.id in ret_flags)]
    if not ret_flags or not call_flags:
        raise AnalysisError("add_ra_instructions: the flags for 'has calls' / 'has returns' were not recognised")
    # R06.i: 'this function makes calls' is read off the instruction list that is emitted
    for cf_ in call_flags:
        if not cf_.isidentifier():
            chk.bad("R06.i", f"compile_pass:{qual}:'makes calls' is decided by scanning the emitted instruction list",
                    f"whether ra is saved depends on {cf_}, a value recorded somewhere else: it must be derived from the opcodes in self.code (the instructions that are emitted for this "
                    f"function, including those spliced in from inlined callees); a side table misses a 'jal' that arrives through an inlined function", {"flag": cf_}, where)
            continue
        defs = [st for st in ast.walk(fn) if isinstance(st, ast.Assign) and len(st.targets) == 1 and norm(st.targets[0]) == cf_]
        okc = True
        detail = []
        for st in defs:
            v = st.value
            if isinstance(v, ast.Constant) and v.value is False:
                continue
            in_scan = False
            p = st
            while p is not None and p is not fn:
                if isinstance(p, ast.For) and "self.code" in norm(p.iter):
                    in_scan = True
                p = getattr(p, "parent", None)
            par = getattr(st, "parent", None)
            test_ok = isinstance(par, ast.If) and ".op" in norm(par.test) and "al" in norm(par.test)
            if not (isinstance(v, ast.Constant) and v.value is True and in_scan and test_ok):
                okc = False
                detail.append(norm(st))
        chk.judge("R06.i", f"compile_pass:{qual}:'makes calls' is decided by scanning the emitted instruction list", okc and bool(defs),
                  f"the flag {cf_} is set by {detail or 'nothing'}: it must be derived from the opcodes in self.code (the instructions that are emitted for this "
                  f"function, including those spliced in from inlined callees); a side table misses a 'jal' that arrives through an inlined function",
                  {"definitions": [norm(d) for d in defs]}, where)
    fe = FnEval(repo, cp, fn)
    for label, op, tgt in forms:
        recognised = False
        for f in ret_flags:
            for t in flags[f]:
                ov = {}
                for a in ast.walk(t):
                    if isinstance(a, ast.Attribute) and a.attr == "op":
                        ov[norm(a)] = S(op)
                    if isinstance(a, ast.Attribute) and a.attr == "value" and "inputs" in norm(a):
                        ov[norm(a)] = S(tgt)
                e2 = FnEval(repo, cp, fn, ov)
                ids = e2.node_ids(t)
                v = e2.eval(t, ids[0]) if ids else TOP
                if v is not TOP and v and all(bool(x) for x in v):
                    recognised = True
        chk.judge("R06.d", f"compile_pass:{qual}:exit form '{label}' ({op} {tgt})", recognised,
                  f"a function can end with '{op} {tgt}' ({label}), but the predicate that decides whether ra must be saved only recognises "
                  f"{[norm(t) for f in ret_flags for t in flags[f]]}: a function that calls another function and then leaves this way loses its return address",
                  None, where)

    # ------------------------------------------------------------ R06.f
    inserts = [c for c in ast.walk(fn) if isinstance(c, ast.Call) and isinstance(c.func, ast.Attribute) and c.func.attr == "insert"]
    fixed = []
    for c in inserts:
        ids = live_ids(cfg, c)
        p = None
        for t, pp in (guard_atoms(cfg, ids[0]) if ids else []):
            if norm(t).endswith("use_push_pop_functions"):
                p = pp
        if p is False:
            fixed.append(c)
    pops = [c for c in fixed if any(isinstance(a, ast.Call) and a.args and isinstance(a.args[0], ast.Constant) and a.args[0].value == "pop" for a in c.args)]
    pushes = [c for c in fixed if c not in pops]
    if len(pops) != 1 or len(pushes) != 1:
        raise AnalysisError("add_ra_instructions: fixed-slot branch: expected one insert of push ra and one of pop ra")
    try:
        pco, pk = lin(pops[0].args[0])
        uco, uk = lin(pushes[0].args[0])
    except NotLinear:
        pco = None
    end_atoms = [a for a in (pco or {}) if "end" in a and "pos" in a or a.endswith("_pos")]
    ok = pco is not None and len(pco) == 1 and len(end_atoms) == 1 and pco[end_atoms[0]] == 1 and not uco
    # push goes in first (lower index, before the label) -> label moves by one
    order_ok = pushes[0].lineno < pops[0].lineno
    shift = 1 if order_ok else 0
    chk.judge("R06.f", f"compile_pass:{qual}:fixed slots: 'pop ra' directly follows the end label", bool(ok) and pk - shift == 1 and uk >= 1,
              f"pop ra is inserted at {norm(pops[0].args[0])} after push ra at {norm(pushes[0].args[0])}: expected index(end label) + 1 (+1 for the earlier insert), "
              f"so that early returns, which jump to the end label, restore ra before 'j ra'", {"pop_index": norm(pops[0].args[0]), "push_index": norm(pushes[0].args[0])}, where)
    # end_label_pos is the position of the end label
    # push/pop branch
    srt = [c for c in ast.walk(fn) if isinstance(c, ast.Call) and norm(c.func) == "sorted" and any(kw.arg == "reverse" and isinstance(kw.value, ast.Constant) and kw.value.value is True for kw in c.keywords)]
    loops = [lp for lp in ast.walk(fn) if isinstance(lp, ast.For) and any(c in ast.walk(lp.iter) for c in srt) and any(i in ast.walk(lp) for i in inserts)]
    chk.judge("R06.f", f"compile_pass:{qual}:push/pop: inserts are applied from the highest index down", bool(loops),
              "the collected (position, instruction) pairs are not inserted in descending order of position: earlier inserts shift the later positions", None, where)
    # push ra after the argument pops
    ok_idx = False
    for t in ast.walk(fn):
        if isinstance(t, ast.Tuple) and len(t.elts) == 2 and isinstance(t.elts[1], ast.Call) and t.elts[1].args and isinstance(t.elts[1].args[0], ast.Constant) \
                and t.elts[1].args[0].value == "push":
            try:
                co, k = lin(t.elts[0])
                ok_idx = k == 1 and len(co) == 1 and list(co.values()) == [1]
                idx_txt = norm(t.elts[0])
            except NotLinear:
                pass
    chk.judge("R06.f", f"compile_pass:{qual}:push/pop: ra is pushed after the leading argument pops", ok_idx,
              "push ra is not inserted at 1 + <number of leading argument pops>: it would be popped as an argument", None, where)
    # 'pop ra' goes in front of the value pushed for the caller at EVERY exit point (early returns and the end label): a 'pop ra'
    # behind that push would take the returned value for the return address
    def is_push_test(t, depth=0):
        if any(isinstance(c, ast.Compare) and isinstance(c.left, ast.Attribute) and c.left.attr == "op" and any(isinstance(k, ast.Constant) and k.value == "push" for k in c.comparators)
               for c in ast.walk(t)):
            return True
        # a flag that was given the result of that test
        if depth < 2:
            for nm in ast.walk(t):
                if isinstance(nm, ast.Name) and isinstance(nm.ctx, ast.Load):
                    defs = [a_ for a_ in ast.walk(fn) if isinstance(a_, ast.Assign) and any(isinstance(t_, ast.Name) and t_.id == nm.id for t_ in a_.targets)]
                    if defs and all(is_push_test(a_.value, depth + 1) for a_ in defs):
                        return True
        return False

    def adjusted(e, at, depth=0):
        """every position in e went through 'one earlier if the instruction before it is a push': True / False / None"""
        if depth > 6:
            return None
        if isinstance(e, ast.Call) and norm(e.func) in ("set", "sorted", "list", "tuple", "frozenset") and e.args:
            return adjusted(e.args[0], at, depth + 1)
        if isinstance(e, ast.BinOp) and isinstance(e.op, (ast.Add, ast.BitOr)):
            a, b = adjusted(e.left, at, depth + 1), adjusted(e.right, at, depth + 1)
            if a is False or b is False:
                return False
            return True if a and b else None
        if isinstance(e, (ast.ListComp, ast.SetComp, ast.GeneratorExp)):
            el = e.elt
            if isinstance(el, ast.IfExp) and is_push_test(el.test):
                return True
            if isinstance(el, ast.Name) and len(e.generators) == 1 and isinstance(e.generators[0].target, (ast.Name, ast.Tuple)):
                tgt = e.generators[0].target
                first = tgt.id if isinstance(tgt, ast.Name) else (tgt.elts[0].id if isinstance(tgt.elts[0], ast.Name) else None)
                if el.id == first and isinstance(tgt, ast.Name):
                    return adjusted(e.generators[0].iter, at, depth + 1)       # passes the positions of another list through
                if el.id == first:
                    return False       # the raw index of an instruction
            return None
        if isinstance(e, (ast.List, ast.Tuple, ast.Set)):
            rs = [adjusted(x, at, depth + 1) if isinstance(x, (ast.Name, ast.Starred)) else None for x in e.elts]
            if any(r is False for r in rs):
                return False
            return True if rs and all(rs) else None
        if isinstance(e, ast.Starred):
            return adjusted(e.value, at, depth + 1)
        if isinstance(e, ast.Name):
            ids_ = live_ids(cfg, at)
            ds = rd.at(ids_[0], e.id) if ids_ else []
            if not ds:
                return None
            # a collection filled element by element
            fills = [c for c in ast.walk(fn) if isinstance(c, ast.Call) and isinstance(c.func, ast.Attribute) and isinstance(c.func.value, ast.Name) and c.func.value.id == e.id
                     and c.func.attr in ("add", "append")]
            if fills:
                ok_all = True
                for c in fills:
                    cid = live_ids(cfg, c)
                    arg = c.args[0] if c.args else None
                    under = any(is_push_test(t_) for t_, p_ in (guard_atoms(cfg, cid[0]) if cid else []))
                    if not (under or isinstance(arg, ast.IfExp) and is_push_test(arg.test)):
                        ok_all = False
                return ok_all
            rs = []
            for d in ds:
                if d.kind == "assign" and d.value is not None and not d.index:
                    rs.append(adjusted(d.value, cfg.nodes[d.node].ast, depth + 1))
                elif d.kind == "aug" and isinstance(d.value, ast.AugAssign):
                    # x -= 1 under the push test
                    rs.append(True if any(is_push_test(t_) for t_, p_ in guard_atoms(cfg, d.node)) else None)
                else:
                    rs.append(None)
            # a scalar position: raw definition plus a conditional decrement under the push test
            if any(r is True for r in rs) and not any(r is False for r in rs):
                return True
            if any(r is False for r in rs):
                return False
            return None
        return None
    pops = []
    for t in ast.walk(fn):
        if isinstance(t, ast.Tuple) and len(t.elts) == 2 and isinstance(t.elts[1], ast.Call) and t.elts[1].args and isinstance(t.elts[1].args[0], ast.Constant) \
                and t.elts[1].args[0].value == "pop" and isinstance(t.elts[0], ast.Name):
            pops.append(t)
    for t in pops:
        # where do the values of the position variable come from?
        src = None
        p_ = getattr(t, "parent", None)
        while p_ is not None and p_ is not fn:
            if isinstance(p_, (ast.ListComp, ast.SetComp, ast.GeneratorExp)):
                for g_ in p_.generators:
                    if isinstance(g_.target, ast.Name) and g_.target.id == t.elts[0].id:
                        src = (g_.iter, p_)
            if isinstance(p_, ast.For) and isinstance(p_.target, ast.Name) and p_.target.id == t.elts[0].id:
                src = (p_.iter, p_)
            p_ = getattr(p_, "parent", None)
        key = f"compile_pass:{qual}:push/pop: 'pop ra' precedes the pushed return value at every exit point"
        if src is None:
            raise AnalysisError("add_ra_instructions: where the positions of 'pop ra' come from was not understood")
        verdict = adjusted(src[0], src[0] if live_ids(cfg, src[0]) else src[1])
        if verdict is None:
            chk.unresolved("R06.f", key, f"how the positions {norm(src[0])[:60]} are computed was not understood", where)
        else:
            chk.judge("R06.f", key, verdict,
                      f"some positions in {norm(src[0])[:60]} are the exit points themselves, without stepping in front of a preceding 'push': at 'push v; j <name>end' the "
                      f"'pop ra' lands behind the push and takes v for the return address", None, where)


def r06e(repo, chk):
    """Subroutine-style lowerings: jal L ... L: <compiled statements> j ra."""
    g = repo.mod("generate_code")
    sites = collect_sites(repo, ["generate_code"])
    n = 0
    for fn in g.funcs.values():
        if not fn.qual.startswith(GEN_CLASS + ".") or fn.name in ("compile_function", "handle_call"):
            continue
        mine = [s for s in sites if s.fn is fn and s.opcodes is not TOP]
        jal = [s for s in mine if set(s.opcodes) == {"jal"}]
        jra = [s for s in mine if set(s.opcodes) == {"j"} and s.input_exprs and isinstance(s.input_exprs[0], ast.Constant) and s.input_exprs[0].value == "ra"]
        if not (jal and jra and body_loops(fn)):
            continue
        n += 1
        chk.saw("generate_code", fn.qual)
        saves = [s for s in mine if set(s.opcodes) <= {"push", "pop", "move"} and (any(norm(e) in ("ra", "'ra'") for e in s.input_exprs) or (s.has_output and "ra" == norm(s.output_expr).strip("'")))]
        chk.judge("R06.e", f"generate_code:{fn.qual}:subroutine around the loop body preserves ra", len(saves) >= 2,
                  "the lowering calls the loop body with 'jal' and ends it with 'j ra' but does not save ra: a call inside the body "
                  "overwrites ra and the body 'returns' into itself (endless loop); inside a function the function's own return address is lost too",
                  {"jal": len(jal), "j ra": len(jra), "saves": len(saves)}, jal[0].where())
    if n < 1:
        chk.ok("R06.e", "generate_code:no subroutine-style lowering", None, vacuous=True)


def r06g(repo, chk, R="R06.g"):
    g = repo.mod("generate_code")
    roles = convention_roles(repo)
    hs = repo.handlers()
    call_fn = g.func(f"{GEN_CLASS}.{hs['Call']}")
    sites = [s for s in collect_sites(repo, ["generate_code"]) if s.fn is call_fn and s.opcodes is not TOP]
    jal = [s for s in sites if set(s.opcodes) == {"jal"}]
    if len(jal) != 1:
        raise AnalysisError(f"handle_call: expected one jal site, found {len(jal)}")
    cfg, rd = fn_ctx(call_fn)
    dom = cfg.dominators()
    jid = live_ids(cfg, jal[0].call)[0]
    for conv in (False, True):
        for s in roles[("caller-arg", conv)]:
            lp = s.call
            while lp is not None and not isinstance(lp, ast.For):
                lp = getattr(lp, "parent", None)
            lid = live_ids(cfg, lp.iter)[0] if lp is not None else None
            chk.judge(R, f"generate_code:{call_fn.qual}:arguments ({'push/pop' if conv else 'fixed slots'}) are stored before the jal",
                      lid is not None and lid in dom.get(jid, set()) and s.section == "" and jal[0].section == "",
                      "the argument stores are not emitted before the jal in the same code section", None, s.where())
        for s in roles[("caller-result", conv)]:
            chk.judge(R, f"generate_code:{call_fn.qual}:result ({'push/pop' if conv else 'fixed slots'}) is read after the call",
                      s.section == "end", f"the result is read in section {s.section!r}, expected the 'end' section (after the callee's code / the jal)", None, s.where())
    # the whole call sequence belongs to the call's own fragment: the gather pass emits the fragments of all argument nodes first,
    # so every argument is evaluated before the first one is stored (slots and stack are shared by nested calls)
    node_param = call_fn.args.args[1].arg if len(call_fn.args.args) > 1 else None

    def fragment_owner(recv, at):
        """the node whose fragment *recv* is:  <x>._ndata  or a local bound to it -> norm(<x>)"""
        if isinstance(recv, ast.Attribute) and recv.attr == "_ndata":
            return norm(recv.value)
        if isinstance(recv, ast.Name):
            ids = live_ids(cfg, at)
            ds = rd.at(ids[0], recv.id) if ids else []
            owners = {fragment_owner(d.value, cfg.nodes[d.node].ast) if d.kind == "assign" and not d.index and d.value is not None and not isinstance(d.value, ast.Name) else None for d in ds}
            if len(owners) == 1:
                return owners.pop()
        return None
    seq = [(s, "argument store") for conv in (False, True) for s in roles[("caller-arg", conv)]] + [(jal[0], "jal")]
    for s, what in seq:
        sk = s.sinks()
        if not sk:
            raise AnalysisError(f"handle_call: where the {what} {norm(s.call)[:50]} is added was not recognised")
        for recv, meth, c in sk:
            owner = fragment_owner(recv, c)
            if owner is None:
                raise AnalysisError(f"handle_call: the fragment {norm(recv)} that receives the {what} was not resolved")
            chk.judge(R, f"generate_code:{call_fn.qual}:{what} goes to the call's own fragment", owner == node_param and meth in ("add", "_add"),
                      f"the {what} is added with {norm(recv)}.{meth}(...), the fragment of {owner!r}: it is emitted between the evaluation of the arguments instead of after all of "
                      f"them, so a call nested in a later argument overwrites the argument slots (or pushes in between) that were already filled", {"receiver": norm(recv), "method": meth}, s.where())
    ret_fn = g.func(f"{GEN_CLASS}.{hs['Return']}")
    rsites = sorted([s for s in collect_sites(repo, ["generate_code"]) if s.fn is ret_fn and s.opcodes is not TOP], key=lambda s: s.call.lineno)
    jumps = [s for s in rsites if set(s.opcodes) == {"j"}]
    stores = [s for s in rsites if set(s.opcodes) <= {"put", "push", "move"}]
    ok = bool(jumps) and bool(stores) and all(st.call.lineno < j.call.lineno and st.section == j.section for st in stores for j in jumps)
    chk.judge(R, f"generate_code:{ret_fn.qual}:result is stored before the jump to the end label", ok,
              "a return jumps to the function's end label before (or in another section than) storing its value", None, f"{g.path}:{ret_fn.lineno} in {ret_fn.qual}")


def r06k(repo, chk, R="R06.f"):
    """The fixed-slot branch restores ra behind 'the' end label: the scan must keep the LAST label that ends in '<name>end:'
    (an inlined callee whose name ends in the caller's name leaves its own end label inside the caller's code)."""
    cp = repo.mod("compile_pass")
    qual = "FunctionData.add_ra_instructions"
    fn = cp.func(qual)
    cfg, rd = fn_ctx(fn)
    where = f"{cp.path}:{fn.lineno} in {qual}"
    inserts = [c for c in ast.walk(fn) if isinstance(c, ast.Call) and isinstance(c.func, ast.Attribute) and c.func.attr == "insert" and len(c.args) == 2
               and any(isinstance(a, ast.Call) and a.args and isinstance(a.args[0], ast.Constant) and a.args[0].value == "pop" for a in ast.walk(c.args[1]))]
    pos_names = set()
    for c in inserts:
        ids = live_ids(cfg, c)
        pol = None
        for t, p in (guard_atoms(cfg, ids[0]) if ids else []):
            if norm(t).endswith("use_push_pop_functions"):
                pol = p
        if pol is False:
            pos_names |= {n.id for n in ast.walk(c.args[0]) if isinstance(n, ast.Name)}
    if len(pos_names) != 1:
        raise AnalysisError(f"add_ra_instructions: the variable holding the end label's position was not identified ({sorted(pos_names)})")
    var = pos_names.pop()
    verdicts = []
    for d in rd.all_defs:
        if d.name != var or d.kind == "param":
            continue
        v = d.value
        if d.kind == "assign" and isinstance(v, ast.Constant) and v.value is None:
            continue
        st = cfg.nodes[d.node].ast if d.node >= 0 else None
        if d.kind == "assign" and isinstance(v, ast.Call) and isinstance(v.func, ast.Name) and v.func.id in ("max", "min") and v.args and isinstance(v.args[0], (ast.GeneratorExp, ast.ListComp)):
            verdicts.append(("last" if v.func.id == "max" else "first", norm(v)[:70], st))
            continue
        # <indices>[-1] / <indices>[0] (possibly '... if <indices> else None') over the list of matching positions in order
        v2 = v.body if isinstance(v, ast.IfExp) and isinstance(v.orelse, ast.Constant) and v.orelse.value is None else v
        if d.kind == "assign" and isinstance(v2, ast.Subscript) and isinstance(v2.value, ast.Name) and isinstance(v2.slice, (ast.Constant, ast.UnaryOp)):
            try:
                idx = ast.literal_eval(v2.slice)
            except Exception:
                idx = None
            lds = rd.at(d.node, v2.value.id)
            comp = lds[0].value if len(lds) == 1 and lds[0].kind == "assign" and not lds[0].index else None
            if idx in (0, -1) and isinstance(comp, ast.ListComp) and len(comp.generators) == 1 and "self.code" in norm(comp.generators[0].iter) \
                    and "enumerate" in norm(comp.generators[0].iter) and isinstance(comp.generators[0].target, ast.Tuple) \
                    and norm(comp.elt) == norm(comp.generators[0].target.elts[0]):
                rev_ = "reversed" in norm(comp.generators[0].iter)
                keeps_ = "last" if (idx == -1) != rev_ else "first"
                verdicts.append((keeps_, norm(v)[:70], st))
                continue
        # assigned inside a scan over enumerate(self.code)
        lp = st
        while lp is not None and not isinstance(lp, ast.For):
            lp = getattr(lp, "parent", None)
        if d.kind != "assign" or lp is None or "self.code" not in norm(lp.iter):
            raise AnalysisError(f"add_ra_instructions: definition of {var} not understood: {norm(st)[:80] if st is not None else d.kind}")
        rev = "reversed" in norm(lp.iter) or norm(lp.iter).endswith("[::-1]")
        # does the scan stop at this match?  (a break that the assignment reaches before the next element is taken)
        stops = False
        seen, stack = set(), [b for b, lab in cfg.succ[d.node] if not (isinstance(lab, tuple) and lab[0] == "exc")]
        heads = {n.id for n in cfg.nodes if n.kind == "for" and n.stmt is lp}
        while stack:
            a = stack.pop()
            if a in seen or a in heads:
                continue
            seen.add(a)
            if cfg.nodes[a].kind == "break":
                stops = True
            stack.extend(b for b, lab in cfg.succ[a] if not (isinstance(lab, tuple) and lab[0] == "exc"))
        keeps = "first" if stops else "last"
        if rev:
            keeps = "last" if stops else "first"
        verdicts.append((keeps, norm(st)[:70], st))
    if not verdicts:
        raise AnalysisError(f"add_ra_instructions: no definition of {var} found")
    for keeps, txt, st in verdicts:
        chk.judge(R, f"compile_pass:{qual}:the end label is the last label ending in '<name>end:'", keeps == "last",
                  f"{var} is set by '{txt}', which keeps the {keeps} matching label: with an inlined callee whose name ends in this function's name "
                  f"(update / pre_update) that is the callee's end label inside the body, 'pop ra' lands in the middle of the function and a later jal loses the return address",
                  {"keeps": keeps}, where)


def r06h(repo, chk, R="R06.h"):
    g = repo.mod("generate_code")
    hs = repo.handlers()
    fn = g.func(f"{GEN_CLASS}.{hs['Return']}")
    chk.saw("generate_code", fn.qual)
    cfg, rd = fn_ctx(fn)
    sites = [s for s in collect_sites(repo, ["generate_code"]) if s.fn is fn and s.opcodes is not TOP and set(s.opcodes) == {"j"}]
    if not sites:
        raise AnalysisError("handle_return: jump to the function's end label not found")
    for s in sites:
        ids = live_ids(cfg, s.call)
        atoms = guard_atoms(cfg, ids[0]) if ids else []
        ok = False
        desc = [norm(t) + ("" if p else " is False") for t, p in atoms]
        for t, p in atoms:
            if isinstance(t, ast.Compare) and len(t.ops) == 1 and norm(t.comparators[0]).endswith(".body[-1]") and isinstance(t.left, ast.Name):
                if (isinstance(t.ops[0], (ast.NotEq, ast.IsNot)) and p) or (isinstance(t.ops[0], (ast.Eq, ast.Is)) and not p):
                    ok = True
        only = len([1 for t, p in atoms if "inline" not in norm(t)]) <= 1
        chk.judge(R, "generate_code:handle_return:jump to the end label unless the return is the last statement of the body", ok and only,
                  f"the jump to '<name>end' is emitted under {desc}: expected exactly 'node is not func_node.body[-1]'. A return elsewhere (end of an if-branch, "
                  f"end of a loop body) that omits the jump is not an exit point for add_ra_instructions (pop ra is misplaced under push/pop) and inside a loop it "
                  f"falls onto the back jump", {"guards": desc}, s.where())


# ---------------------------------------------------------------------- R06.m
def _tri(e, env):
    """Kleene evaluation of a guard over the atoms PP (push/pop convention), RV (callee returns a value), E (the call's
    'end' section is empty); anything else is unknown (None)."""
    if isinstance(e, ast.BoolOp):
        vals = [_tri(v, env) for v in e.values]
        if isinstance(e.op, ast.And):
            return False if any(v is False for v in vals) else (None if any(v is None for v in vals) else True)
        return True if any(v is True for v in vals) else (None if any(v is None for v in vals) else False)
    if isinstance(e, ast.UnaryOp) and isinstance(e.op, ast.Not):
        v = _tri(e.operand, env)
        return None if v is None else (not v)
    if isinstance(e, ast.Attribute) and e.attr == "use_push_pop_functions":
        return env["PP"]
    if isinstance(e, ast.Attribute) and e.attr in ("has_return_value", "func_has_return_value"):
        return env["RV"]
    if _is_end_section(e):
        return not env["E"]
    if isinstance(e, ast.Compare) and len(e.ops) == 1 and isinstance(e.left, ast.Call) and norm(e.left.func) == "len" and e.left.args \
            and _is_end_section(e.left.args[0]) and isinstance(e.comparators[0], ast.Constant) and e.comparators[0].value == 0:
        if isinstance(e.ops[0], ast.Eq):
            return env["E"]
        if isinstance(e.ops[0], (ast.NotEq, ast.Gt)):
            return not env["E"]
    return None


def _is_end_section(e):
    return isinstance(e, ast.Subscript) and isinstance(e.value, ast.Attribute) and e.value.attr == "code" \
        and isinstance(e.slice, ast.Constant) and e.slice.value == "end"


def r06m(repo, chk, R="R06.m"):
    g = repo.mod("generate_code")
    cf = g.func(f"{GEN_CLASS}.compile_function")
    chk.saw("generate_code", cf.qual)
    cfg, rd = fn_ctx(cf)
    rewrites = [st for st in ast.walk(cf) if isinstance(st, ast.Assign) and any(isinstance(t, ast.Attribute) and t.attr == "op" for t in st.targets)
                and isinstance(st.value, ast.Constant) and st.value.value == "j"]
    if not rewrites:
        raise AnalysisError("compile_function: the tail-call rewrite (<instr>.op = 'j') was not found")
    # does a call of a non-inlined function put anything into its 'end' section?  (the read of the result)
    hc = g.func(f"{GEN_CLASS}.handle_call")
    pending = [s for s in collect_sites(repo, ["generate_code"]) if s.fn is hc and s.section == "end"]
    if not pending:
        chk.ok(R, "generate_code:compile_function:tail jump leaves nothing pending", {"pending": "handle_call adds nothing to the end section"})
        return
    pops = sorted({op for s in pending if s.opcodes is not TOP for op in s.opcodes})
    for rw in rewrites:
        ids = live_ids(cfg, rw)
        if not ids:
            continue
        atoms = guard_atoms(cfg, ids[0])
        # is the state  push/pop convention, callee returns a value, end section not empty  excluded by the guards?
        env = {"PP": True, "RV": True, "E": False}
        excluded = any(_tri(t, env) is (not pol) for t, pol in atoms)
        chk.judge(R, "generate_code:compile_function:tail jump leaves nothing pending", excluded,
                  f"the rewrite jal->j is applied also when the call still has work in its 'end' section ({pops} after the jal, emitted by handle_call): "
                  f"after the tail jump the callee returns straight to the caller's caller, the returned value stays on the stack and every such call "
                  f"leaves the stack pointer one higher (push/pop convention, result not used)",
                  {"guards": [f"{norm(t)} is {pol}" for t, pol in atoms], "pending": pops}, f"{g.path}:{rw.lineno} in {cf.qual}")


# ---------------------------------------------------------------------- R06.n
def _count_test(t):
    """len(A) != len(B) (or ==): returns the operator, else None."""
    if isinstance(t, ast.Compare) and len(t.ops) == 1 and all(isinstance(x, ast.Call) and norm(x.func) == "len" for x in (t.left, t.comparators[0])):
        return type(t.ops[0])
    return None


def _mentions_option(t):
    return any(isinstance(a, ast.Attribute) and isinstance(a.value, (ast.Attribute, ast.Name)) and norm(a.value).split(".")[-1] in ("options", "opts")
               for a in ast.walk(t))


def r06n(repo, chk, R="R06.n"):
    g = repo.mod("generate_code")
    found = []
    for q in ("handle_call", "compile_function"):
        fn = g.func(f"{GEN_CLASS}.{q}")
        chk.saw("generate_code", fn.qual)
        cfg, rd = fn_ctx(fn)
        for r in ast.walk(fn):
            if not isinstance(r, ast.Raise):
                continue
            ids = live_ids(cfg, r)
            if not ids:
                continue
            atoms = guard_atoms(cfg, ids[0])
            cnt = [(t, pol) for t, pol in atoms if (_count_test(t) is ast.NotEq and pol) or (_count_test(t) is ast.Eq and not pol)]
            if not cnt:
                continue
            opt = [(t, pol) for t, pol in atoms if _mentions_option(t)]
            found.append((fn, r, cnt, opt))
    key = "generate_code:argument count of a call is compared with the parameter count under every option vector"
    if not found:
        chk.bad(R, key, "no site compares the number of arguments of a call with the number of parameters of the callee: 'f(1, 2)' for 'def f(a)' "
                        "pushes two values and pops one", None, f"{g.path}")
        return
    uncond = [x for x in found if not x[3]]
    fn, r, cnt, opt = (uncond or found)[0]
    chk.judge(R, key, bool(uncond),
              f"the argument count is checked only under {[norm(t) + ' is ' + str(p) for t, p in opt]}: under the other option values "
              f"'f(1, 2)' for 'def f(a)' compiles, and in the push/pop convention pushes two values of which the callee pops one",
              {"test": norm(cnt[0][0]), "option_guards": [norm(t) for t, _ in opt]}, f"{g.path}:{r.lineno} in {fn.qual}")
