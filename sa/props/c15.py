"""C15 — in-source '# pytrapic:' directives (R15.a–e) on compiler.compile_code."""
from __future__ import annotations

import ast
from ..model import Repo, AnalysisError, norm
from ..report import Check
from ..cfg import CFG, ReachingDefs, decompose
from .shared import guard_atoms


def option_fields(repo: Repo):
    m = repo.mod("compile_pass")
    c = m.cls("CompileOptions")
    if not any("dataclass" in norm(d) for d in c.decorator_list):
        raise AnalysisError("CompileOptions is no longer a dataclass")
    out = {}
    for st in c.body:
        if isinstance(st, ast.AnnAssign) and isinstance(st.target, ast.Name):
            out[st.target.id] = st.value
    if len(out) < 2:
        raise AnalysisError("CompileOptions: fields not found")
    return out


class Scanner:
    """Facts about the directive scanner inside compile_code."""

    def __init__(self, repo: Repo):
        self.repo = repo
        self.mod = repo.mod("compiler")
        self.fn = self.mod.anchor("compile_code")
        self.cfg = CFG(self.fn)
        self.rd = ReachingDefs(self.cfg)
        self.fields = option_fields(repo)
        params = [a.arg for a in self.fn.args.args]
        if len(params) < 2:
            raise AnalysisError("compile_code: parameters (src, options) not found")
        self.src_param, self.opt_param = params[0], params[1]
        live = self.cfg.reachable()
        # setattr sites
        self.setattrs = []
        for n in self.cfg.nodes:
            if n.id not in live or n.ast is None:
                continue
            for c in ast.walk(n.ast) if n.kind in ("stmt", "test", "iter", "return") else []:
                if isinstance(c, ast.Call) and isinstance(c.func, ast.Name) and c.func.id == "setattr" and len(c.args) == 3:
                    self.setattrs.append((n, c))
        self.where = f"{self.mod.path}:{self.fn.lineno} in compile_code"
        # effective sites: a setattr that runs in 'for k, v in D.items()' over a dictionary D which the scan fills with D[K] = V
        # takes effect where D[K] = V stands (same name, same value, same conditions); whether applying D afterwards keeps the
        # "last directive wins" order is R15.e's question
        self.sites = []
        for n, c in self.setattrs:
            virt = self._virtual_sites(n, c)
            self.sites.extend(virt if virt else [(n, c)])
        # the functional form: the scan fills a dictionary D (D[K] = V) and the options object is MADE from it,
        # options = CompileOptions(**D) / dataclasses.replace(options, **D) / CompileOptions(**{**options, **D}).  A directive takes effect where
        # D[K] = V stands; the order of the merged parts decides who wins (R15.e)
        self.applications = []          # (cfg node, call, [component expressions in merge order])
        for n in self.cfg.nodes:
            if n.id not in live or n.kind != "stmt" or not isinstance(n.ast, ast.Assign):
                continue
            if not any(isinstance(t, ast.Name) and t.id == self.opt_param for t in n.ast.targets):
                continue

            def arms(e):
                return arms(e.body) + arms(e.orelse) if isinstance(e, ast.IfExp) else [e]
            for call in [a_ for a_ in arms(n.ast.value) if isinstance(a_, ast.Call)]:
                self._application(n, call)
        self.pragma_dicts = set()
        self._finish_applications()

    def _application(self, n, call):
        if True:
            comps = []
            if norm(call.func) in ("dataclasses.replace", "replace") and call.args:
                comps.append(call.args[0])
            for k in call.keywords:
                if k.arg is None:
                    comps.extend(self._merge_parts(k.value))
                else:
                    comps.append(ast.Dict(keys=[ast.Constant(value=k.arg)], values=[k.value]))
            if any(k.arg is None for k in call.keywords):
                # a local that only stands for another dictionary (pragmas = _collected) is that dictionary
                res = []
                for c in comps:
                    seen_ = set()
                    while isinstance(c, ast.Name) and c.id != self.opt_param and c.id not in seen_:
                        seen_.add(c.id)
                        ds = self.rd.at(n.id, c.id)
                        srcs = {d.value.id for d in ds if d.kind == "assign" and isinstance(d.value, ast.Name) and not d.index}
                        if ds and len(srcs) == 1 and all(d.kind == "assign" and isinstance(d.value, ast.Name) and not d.index for d in ds):
                            c = ast.copy_location(ast.Name(id=next(iter(srcs)), ctx=ast.Load()), c)
                        else:
                            break
                    res.append(c)
                self.applications.append((n, call, res))

    def _finish_applications(self):
        for n, call, comps in self.applications:
            for c in comps:
                if isinstance(c, ast.Name) and c.id != self.opt_param:
                    fills = [st for st in ast.walk(self.fn) if isinstance(st, ast.Assign) and len(st.targets) == 1 and isinstance(st.targets[0], ast.Subscript)
                             and norm(st.targets[0].value) == c.id]
                    if fills:
                        self.pragma_dicts.add(c.id)
        if not self.setattrs:
            for dn in sorted(self.pragma_dicts):
                app = next(call for n, call, comps in self.applications if any(isinstance(c, ast.Name) and c.id == dn for c in comps))
                for st in ast.walk(self.fn):
                    if isinstance(st, ast.Assign) and len(st.targets) == 1 and isinstance(st.targets[0], ast.Subscript) and norm(st.targets[0].value) == dn:
                        ids = [x.id for x in self.cfg.nodes_of(st)]
                        if not ids:
                            continue
                        vc = ast.Call(func=ast.Name(id="setattr", ctx=ast.Load()), args=[ast.Name(id=self.opt_param, ctx=ast.Load()), st.targets[0].slice, st.value], keywords=[])
                        ast.copy_location(vc, st)
                        ast.fix_missing_locations(vc)
                        vc.parent = st
                        vc.virtual_for = app
                        vc.application = app
                        self.sites.append((self.cfg.nodes[ids[0]], vc))

    def _merge_parts(self, e):
        """the parts of a '**' argument in merge order: a name, or the entries of a dict display (later ones win)"""
        if isinstance(e, ast.Dict):
            out = []
            for k, v in zip(e.keys, e.values):
                if k is None:
                    out.extend(self._merge_parts(v))
                else:
                    out.append(ast.Dict(keys=[k], values=[v]))
            return out
        if isinstance(e, ast.BinOp) and isinstance(e.op, ast.BitOr):
            return self._merge_parts(e.left) + self._merge_parts(e.right)
        return [e]

    def _virtual_sites(self, n, call):
        p = getattr(call, "parent", None)
        lp = None
        while p is not None and p is not self.fn:
            if isinstance(p, ast.For):
                lp = p
                break
            p = getattr(p, "parent", None)
        if lp is None or not (isinstance(lp.iter, ast.Call) and isinstance(lp.iter.func, ast.Attribute) and lp.iter.func.attr == "items" and isinstance(lp.iter.func.value, ast.Name)
                              and isinstance(lp.target, ast.Tuple) and len(lp.target.elts) == 2):
            return []
        k, v = norm(lp.target.elts[0]), norm(lp.target.elts[1])
        if not (norm(call.args[1]) == k and norm(call.args[2]) == v):
            return []
        dn = lp.iter.func.value.id
        # the table under another name:  result = table  on every path (a helper's return value after expansion)
        lids = [x.id for x in self.cfg.nodes_of(lp.iter)]
        ds = self.rd.at(lids[0], dn) if lids else []
        for _hop in range(3):
            if ds and all(d.kind == "assign" and not d.index and isinstance(d.value, ast.Name) for d in ds) and len({d.value.id for d in ds}) == 1:
                dn = ds[0].value.id
                ds = self.rd.at(ds[0].node, dn)
        fills = [st for st in ast.walk(self.fn) if isinstance(st, ast.Assign) and len(st.targets) == 1 and isinstance(st.targets[0], ast.Subscript) and norm(st.targets[0].value) == dn]
        out = []
        for st in fills:
            ids = [x.id for x in self.cfg.nodes_of(st)]
            if not ids:
                continue
            vc = ast.Call(func=ast.Name(id="setattr", ctx=ast.Load()), args=[call.args[0], st.targets[0].slice, st.value], keywords=[])
            ast.copy_location(vc, st)
            ast.fix_missing_locations(vc)
            vc.parent = st
            vc.virtual_for = call
            out.append((self.cfg.nodes[ids[0]], vc))
        return out

    def for_loops(self):
        return [n for n in self.cfg.nodes if n.kind == "for" and n.id in self.cfg.reachable()]

    FRESH = ("CompileOptions", "copy.copy", "copy.deepcopy", "dataclasses.replace", "replace", "deepcopy", "copy")

    def options_defs_at(self, nid):
        """[(text of the definition, is it a fresh private object)] for the options variable at node nid."""
        out = []
        for d in self.rd.at(nid, self.opt_param):
            if d.kind == "param":
                out.append(("<parameter>", False))
            elif d.kind == "assign" and d.value is not None:
                v = d.value

                def is_fresh(e):
                    if isinstance(e, ast.IfExp):
                        return is_fresh(e.body) and is_fresh(e.orelse)      # every arm makes a new object
                    return isinstance(e, ast.Call) and norm(e.func) in self.FRESH
                out.append((norm(v), is_fresh(v)))
            else:
                out.append((d.kind, False))
        return out

    def single_def(self, name, nid):
        ds = self.rd.at(nid, name)
        if len(ds) == 1:
            return ds[0]
        return None


PREFIX = "no_"


def _subst(e, env):
    """Copy of expression *e* with local names replaced by their symbolic values."""
    from ..inline import _clone

    class S(ast.NodeTransformer):
        def visit_Name(self, n):
            if isinstance(n.ctx, ast.Load) and n.id in env:
                return _clone(env[n.id])
            return n
    return S().visit(_clone(e))


def _assign_env(st, env):
    """Update *env* for an assignment statement (names and tuple-to-tuple unpacking)."""
    if isinstance(st, ast.Assign) and len(st.targets) == 1:
        t, v = st.targets[0], st.value
        if isinstance(t, ast.Name):
            env[t.id] = _subst(v, env)
            return True
        if isinstance(t, ast.Tuple) and isinstance(v, ast.Tuple) and len(t.elts) == len(v.elts) and all(isinstance(x, ast.Name) for x in t.elts):
            vals = [_subst(x, env) for x in v.elts]
            for x, val in zip(t.elts, vals):
                env[x.id] = val
            return True
        if isinstance(t, ast.Tuple) and all(isinstance(x, ast.Name) for x in t.elts):
            val = _subst(v, env)
            for i, x in enumerate(t.elts):
                env[x.id] = ast.Subscript(value=val, slice=ast.Constant(value=i), ctx=ast.Load())
            return True
    return False


def _assigned_in(stmts):
    out = set()
    for st in stmts:
        for n in ast.walk(st):
            if isinstance(n, ast.Name) and isinstance(n.ctx, ast.Store):
                out.add(n.id)
    return out


def symbolic_path(loop, call):
    """Walk from the start of *loop*'s body to the statement containing *call*: returns (env, conds) where env maps
    local names to expressions over the loop variable and conds is [(expr, polarity)] of the enclosing tests."""
    env, conds = {}, []

    def walk(stmts):
        for st in stmts:
            contains = any(x is call for x in ast.walk(st))
            if not contains:
                if isinstance(st, ast.If):
                    test = _subst(st.test, env)
                    e1, e2 = dict(env), dict(env)
                    for x in st.body:
                        _assign_env(x, e1)
                    for x in st.orelse:
                        _assign_env(x, e2)
                    for name in _assigned_in(st.body) | _assigned_in(st.orelse):
                        a, b = e1.get(name, ast.Name(id=name, ctx=ast.Load())), e2.get(name, ast.Name(id=name, ctx=ast.Load()))
                        env[name] = a if ast.dump(a) == ast.dump(b) else ast.IfExp(test=test, body=a, orelse=b)
                    # early exit: the statements after 'if c: return/continue/raise' run under 'not c'
                    def _exits(b):
                        return bool(b) and isinstance(b[-1], (ast.Return, ast.Continue, ast.Raise, ast.Break))
                    if _exits(st.body) and not _exits(st.orelse):
                        conds.append((test, False))
                    elif _exits(st.orelse) and not _exits(st.body):
                        conds.append((test, True))
                else:
                    _assign_env(st, env)
                continue
            if isinstance(st, ast.If):
                test = _subst(st.test, env)
                if any(any(x is call for x in ast.walk(y)) for y in st.body):
                    conds.append((test, True))
                    return walk(st.body)
                conds.append((test, False))
                return walk(st.orelse)
            if isinstance(st, (ast.For, ast.While, ast.With, ast.Try)):
                return walk(st.body)
            return True
        return False
    walk(loop.body)
    return env, conds


def _strip_chain(e):
    """Peel .strip()/.lstrip()/.rstrip() (no argument) off *e*; returns inner expression."""
    while isinstance(e, ast.Call) and isinstance(e.func, ast.Attribute) and e.func.attr in ("strip", "lstrip", "rstrip") and not e.args:
        e = e.func.value
    return e


def _norm_tag(e, loopvar):
    """Is *e* the loop variable passed through strip() and replace('-','_') (replace required)? -> True/False/None"""
    saw_replace = False
    cur = e
    while True:
        if isinstance(cur, ast.Call) and isinstance(cur.func, ast.Attribute) and cur.func.attr in ("strip", "lstrip", "rstrip") and not cur.args:
            cur = cur.func.value
        elif isinstance(cur, ast.Call) and isinstance(cur.func, ast.Attribute) and cur.func.attr == "replace" and len(cur.args) == 2 \
                and all(isinstance(a, ast.Constant) for a in cur.args) and (cur.args[0].value, cur.args[1].value) == ("-", "_"):
            saw_replace = True
            cur = cur.func.value
        else:
            break
    if isinstance(cur, ast.Name) and cur.id == loopvar:
        return saw_replace
    return None


def _prefix_test(e, loopvar):
    """If *e* tests the 'no_' prefix of a tag expression return (tag_expr, normalised?) else None."""
    if isinstance(e, ast.Call) and isinstance(e.func, ast.Attribute) and e.func.attr == "startswith" and len(e.args) == 1 \
            and isinstance(e.args[0], ast.Constant) and e.args[0].value == PREFIX:
        n = _norm_tag(e.func.value, loopvar)
        if n is not None:
            return e.func.value, n
    if isinstance(e, ast.Compare) and len(e.ops) == 1 and isinstance(e.ops[0], ast.Eq):
        for a, b in ((e.left, e.comparators[0]), (e.comparators[0], e.left)):
            if isinstance(b, ast.Constant) and b.value == PREFIX and isinstance(a, ast.Subscript) and isinstance(a.slice, ast.Slice) \
                    and a.slice.lower is None and _int_of(a.slice.upper) == len(PREFIX):
                n = _norm_tag(a.value, loopvar)
                if n is not None:
                    return a.value, n
    return None


def _int_of(e):
    if isinstance(e, ast.Constant) and isinstance(e.value, int):
        return e.value
    if isinstance(e, ast.Call) and norm(e.func) == "len" and len(e.args) == 1 and isinstance(e.args[0], ast.Constant) and isinstance(e.args[0].value, str):
        return len(e.args[0].value)
    return None


def fold(e, loopvar, pol):
    """Partially evaluate *e* assuming the prefix test is *pol*: constants, not/and/or, IfExp, == on constants."""
    if _prefix_test(e, loopvar) is not None:
        return ast.Constant(value=pol)
    if isinstance(e, ast.UnaryOp) and isinstance(e.op, ast.Not):
        v = fold(e.operand, loopvar, pol)
        if isinstance(v, ast.Constant) and isinstance(v.value, bool):
            return ast.Constant(value=not v.value)
        return ast.UnaryOp(op=ast.Not(), operand=v)
    if isinstance(e, ast.IfExp):
        t = fold(e.test, loopvar, pol)
        if isinstance(t, ast.Constant) and isinstance(t.value, bool):
            return fold(e.body if t.value else e.orelse, loopvar, pol)
        return ast.IfExp(test=t, body=fold(e.body, loopvar, pol), orelse=fold(e.orelse, loopvar, pol))
    if isinstance(e, ast.BoolOp):
        vals = [fold(v, loopvar, pol) for v in e.values]
        consts = [v.value for v in vals if isinstance(v, ast.Constant) and isinstance(v.value, bool)]
        if len(consts) == len(vals):
            return ast.Constant(value=all(consts) if isinstance(e.op, ast.And) else any(consts))
        return ast.BoolOp(op=e.op, values=vals)
    if isinstance(e, ast.Subscript) and isinstance(e.value, ast.Tuple) and isinstance(e.slice, ast.Constant) and isinstance(e.slice.value, int):
        return fold(e.value.elts[e.slice.value], loopvar, pol)
    return e


def run(repo: Repo, chk: Check):
    chk.rule("R15.a", "a directive name is applied only if it is a CompileOptions dataclass field (not hasattr)", floor=1)
    chk.rule("R15.b", "'-' is normalised to '_' before the 'no_' prefix test, and exactly that prefix is removed from a negated name", floor=2)
    chk.rule("R15.c", "directive parsing is dominated by a test that the stripped line of the main source starts with '#'", floor=2)
    chk.rule("R15.d", "only the named attribute of the call's private options object is assigned, with the polarity value", floor=2)
    chk.rule("R15.e", "the scan runs before any option is read; lines and names are visited in source order without break (last wins)", floor=3)
    sc = Scanner(repo)
    chk.saw("compiler", "compile_code")
    cfg, rd = sc.cfg, sc.rd
    # a directive changes one attribute of an options object that already exists: that equals constructing the object with the value
    # only if the class derives nothing from its fields when it is constructed
    oc = repo.mod("compile_pass").cls("CompileOptions")
    for st in oc.body:
        if isinstance(st, ast.FunctionDef) and st.name in ("__post_init__", "__init__", "__new__"):
            derived = sorted({t.attr for a in ast.walk(st) if isinstance(a, (ast.Assign, ast.AugAssign)) for t in (a.targets if isinstance(a, ast.Assign) else [a.target])
                              if isinstance(t, ast.Attribute) and isinstance(t.value, ast.Name) and t.value.id == "self" and t.attr in sc.fields})
            chk.judge("R15.d", f"compile_pass:CompileOptions.{st.name}:no field is derived from another at construction", not derived,
                      f"CompileOptions.{st.name} sets {derived} from other fields when the object is constructed; a directive is applied with setattr afterwards and does not go "
                      f"through it, so '# pytrapic: compact' and CompileOptions(compact=True) give different option vectors", {"derived": derived},
                      f"{repo.mod('compile_pass').path}:{st.lineno} in CompileOptions.{st.name}")
        elif isinstance(st, ast.FunctionDef) and st.name in ("__setattr__", "__getattribute__", "__getattr__") or \
                isinstance(st, ast.FunctionDef) and any(norm(d) == "property" or norm(d).endswith(".setter") for d in st.decorator_list):
            raise AnalysisError(f"CompileOptions.{st.name}: attribute access is customised; setattr on an options object is no longer a plain store")
    chk.ok("R15.d", "compile_pass:CompileOptions:plain dataclass fields", {"fields": sorted(sc.fields)})
    if not sc.setattrs and not sc.sites:
        raise AnalysisError("compile_code: no setattr site (directive application) found")
    fields = set(sc.fields)
    pending_error = None
    for idx, (n, call) in enumerate(sc.sites):
        obj, name, val = call.args
        key = f"compiler:compile_code:setattr #{idx + 1}" if len(sc.sites) > 1 else "compiler:compile_code:setattr"
        where = f"{sc.mod.path}:{call.lineno} in compile_code"
        # ---- the loop over the names of one directive
        tag_loop = None
        p = getattr(call, "parent", None)
        while p is not None and p is not sc.fn:
            if isinstance(p, ast.For) and isinstance(p.target, ast.Name):
                it_txt = norm(p.iter)
                if isinstance(p.iter, ast.Name):
                    ids_ = [x.id for x in cfg.nodes_of(p.iter)]
                    it_txt = " ".join(norm(d.value) for d in (rd.at(ids_[0], p.iter.id) if ids_ else []) if d.value is not None)
                if ".split(" in it_txt and ".splitlines" not in it_txt.split(".split(")[-1] and ("','" in it_txt or '","' in it_txt):
                    tag_loop = p
                    break
            p = getattr(p, "parent", None)
        if tag_loop is None:
            # applied outside the scan (from a collection filled by it): judged by the ordering rule R15.e below
            pending_error = "compile_code: the loop over the comma-separated names of a directive was not found around setattr"
            continue
        T = tag_loop.target.id
        env, conds = symbolic_path(tag_loop, call.parent if getattr(call, "virtual_for", None) is not None else call)
        name_e, val_e = _subst(name, env), _subst(val, env)
        # does the path constrain the prefix test?
        pols = []
        for pol in (False, True):
            feasible = True
            for c, want in conds:
                fc = fold(c, T, pol)
                if isinstance(fc, ast.Constant) and isinstance(fc.value, bool) and fc.value != want:
                    feasible = False
            if feasible:
                pols.append(pol)
        saw_prefix = any(_prefix_test(x, T) is not None for e in [name_e, val_e] + [c for c, _ in conds] for x in ast.walk(e))
        if not saw_prefix:
            raise AnalysisError(f"compile_code: no test for the '{PREFIX}' prefix found on the way to setattr")
        # R15.b: the prefix test looks at the normalised tag
        unnorm = [norm(t[0]) for e in [name_e, val_e] + [c for c, _ in conds] for x in ast.walk(e) for t in [_prefix_test(x, T)] if t is not None and t[1] is False]
        chk.judge("R15.b", key + ":'-' normalised before the 'no_' test", not unnorm,
                  f"the '{PREFIX}' prefix is tested on {unnorm}, before '-' has been replaced by '_': 'no-x' would not be recognised as a negation", None, where)
        for pol in pols:
            nm = fold(name_e, T, pol)
            vv = fold(val_e, T, pol)
            case = "negated name (no_x)" if pol else "plain name"
            # value
            okv = isinstance(vv, ast.Constant) and vv.value is (not pol)
            chk.judge("R15.d", key + f":value for a {case}", okv,
                      f"for a {case} the option is set to {norm(vv)}, expected {not pol}", {"value": norm(vv)}, where)
            # name
            inner = _strip_chain(nm)
            if pol:
                ok_name = False
                why = f"the attribute assigned for 'no_x' is {norm(nm)}"
                if isinstance(inner, ast.Subscript) and isinstance(inner.slice, ast.Slice) and inner.slice.upper is None and inner.slice.step is None:
                    k = _int_of(inner.slice.lower)
                    if _norm_tag(inner.value, T):
                        ok_name = k == len(PREFIX)
                        why += f": it drops {k} characters, the prefix has {len(PREFIX)}"
                elif isinstance(inner, ast.Call) and isinstance(inner.func, ast.Attribute) and inner.func.attr == "removeprefix" and len(inner.args) == 1 \
                        and isinstance(inner.args[0], ast.Constant) and inner.args[0].value == PREFIX and _norm_tag(inner.func.value, T):
                    ok_name = True
                elif isinstance(inner, ast.Call) and isinstance(inner.func, ast.Attribute) and inner.func.attr in ("lstrip", "strip", "replace"):
                    why += ": stripping a character set / replacing the text also eats letters of the option name itself"
                else:
                    raise AnalysisError(f"compile_code: name expression {norm(nm)} for a negated directive not understood")
                chk.judge("R15.b", key + ":exactly the prefix is removed from a negated name", ok_name, why, {"name": norm(nm)}, where)
            else:
                # a plain name does not start with the prefix: X.removeprefix('no_') is X
                for _ in range(3):
                    if isinstance(inner, ast.Call) and isinstance(inner.func, ast.Attribute) and inner.func.attr == "removeprefix" and len(inner.args) == 1 \
                            and isinstance(inner.args[0], ast.Constant) and inner.args[0].value == PREFIX:
                        inner = _strip_chain(inner.func.value)
                t = _norm_tag(inner, T)
                if t is None:
                    raise AnalysisError(f"compile_code: name expression {norm(nm)} for a plain directive not understood")
                chk.judge("R15.b", key + ":a plain name is used as written (normalised)", bool(t), f"the attribute assigned is {norm(nm)}", {"name": norm(nm)}, where)
            # membership
            okm = False
            seen = []
            for c, want in conds:
                fc = fold(c, T, pol)
                seen.append(norm(fc) + ("" if want else " is False"))
                if want and isinstance(fc, ast.Compare) and len(fc.ops) == 1 and isinstance(fc.ops[0], ast.In) and norm(fold(fc.left, T, pol)) == norm(nm):
                    okm = okm or _is_field_set(repo, sc, fc.comparators[0], fields)
            chk.judge("R15.a", key + f":membership ({case})", okm,
                      f"setattr is not guarded by membership of the name in the CompileOptions field set (guards: {seen}): an unknown name "
                      f"such as '__class__' would be assigned", {"fields": sorted(fields)}, where)
        # ---- R15.c '#' guard on the stripped line
        hash_guard = None
        for test, pol in cfg.guards(n.id):
            if not isinstance(test, ast.expr) or not pol:
                continue
            if isinstance(test, ast.Call) and isinstance(test.func, ast.Attribute) and test.func.attr == "startswith" and test.args \
                    and isinstance(test.args[0], ast.Constant) and test.args[0].value == "#":
                hash_guard = (test, test.func.value)
            if isinstance(test, ast.Compare) and len(test.ops) == 1 and isinstance(test.ops[0], ast.Eq) and isinstance(test.comparators[0], ast.Constant) \
                    and test.comparators[0].value == "#" and isinstance(test.left, ast.Subscript):
                sl = test.left.slice
                if (isinstance(sl, ast.Slice) and sl.lower is None and _int_of(sl.upper) == 1) or _int_of(sl) == 0:
                    hash_guard = (test, test.left.value)
        chk.judge("R15.c", key + ":'#' guard", hash_guard is not None,
                  "applying a directive is not dominated by a test that the line starts with '#'", None, where)
        if hash_guard is not None:
            test, lexpr = hash_guard
            tn = [x.id for x in cfg.nodes_of(test)]
            chain = _provenance(sc, lexpr, tn[0] if tn else n.id)
            stripped = any(op in ("strip", "lstrip") for op in chain)
            src_ok = bool(chain) and chain[-1].startswith("for:") and (chain[-1].endswith(".splitlines()") or "split('\\n')" in chain[-1])
            chk.judge("R15.c", key + ":guard is on the stripped line of the source", stripped and src_ok,
                      f"the '#' test looks at a value with the history {chain}: expected the current line of <source>.splitlines() after strip()",
                      {"history": chain}, f"{sc.mod.path}:{test.lineno} in compile_code")
        # ---- R15.d object
        oname = obj.id if isinstance(obj, ast.Name) else None
        chk.judge("R15.d", key + ":object is the options variable", oname == sc.opt_param, f"setattr target is {norm(obj)}", None, where)
        defs = sc.options_defs_at(n.id)
        if getattr(call, "application", None) is not None:
            # the directive goes into the object that the application makes
            app_ = call.application
            defs = [(norm(app_)[:60], norm(app_.func) in sc.FRESH)]
        shared = [t for t, fresh in defs if not fresh]
        chk.judge("R15.d", key + ":object is private to this call", bool(defs) and not shared,
                  f"directives are written into an object that outlives the call ({shared}): options named in one source leak "
                  f"into the caller's object or into later compilations", {"definitions": [t for t, _ in defs]}, where)
    # no other attribute store on options
    stores = []
    for node in ast.walk(sc.fn):
        if isinstance(node, (ast.Assign, ast.AugAssign)):
            tg = node.targets if isinstance(node, ast.Assign) else [node.target]
            for t in tg:
                if isinstance(t, ast.Attribute) and isinstance(t.value, ast.Name) and t.value.id == sc.opt_param:
                    stores.append(norm(node))
    chk.judge("R15.d", "compiler:compile_code:no other option store", not stores, f"options attributes are also assigned by {stores}", None, sc.where)
    r15e(sc, chk, "R15.e")
    if pending_error and not chk.findings:
        raise AnalysisError(pending_error)


def _is_field_set(repo, sc, e, fields, depth=0):
    """Does *e* denote the set of CompileOptions field names?"""
    t = norm(e)
    if t.endswith("__dataclass_fields__") and ("CompileOptions" in t or sc.opt_param in t or "type(" in t):
        return True
    if "fields(" in t and ("CompileOptions" in t or sc.opt_param in t):
        return True
    if isinstance(e, (ast.Tuple, ast.List, ast.Set)) and all(isinstance(x, ast.Constant) for x in e.elts):
        return {x.value for x in e.elts} <= set(fields)
    if isinstance(e, ast.Call) and norm(e.func) in ("frozenset", "set", "tuple", "list", "sorted") and len(e.args) == 1:
        return _is_field_set(repo, sc, e.args[0], fields, depth + 1)
    if isinstance(e, ast.Name) and depth < 3:
        # a local bound once, or a module-level constant (possibly imported)
        ds = [d for d in sc.rd.all_defs if d.name == e.id]
        if len(ds) == 1 and ds[0].kind == "assign" and ds[0].value is not None:
            return _is_field_set(repo, sc, ds[0].value, fields, depth + 1)
        got = repo.lookup(sc.mod, e.id)
        if got and isinstance(got[1], (ast.Assign, ast.AnnAssign)) and got[1].value is not None:
            return _is_field_set(repo, sc, got[1].value, fields, depth + 1)
    return False


def _provenance(sc, e, nid, depth=0):
    """History of a line expression back to the loop it comes from: ['strip', 'alias', 'for:<iter>']."""
    if depth > 8:
        return ["?"]
    if isinstance(e, ast.Call) and isinstance(e.func, ast.Attribute) and e.func.attr in ("strip", "lstrip", "rstrip") and not e.args:
        return [e.func.attr] + _provenance(sc, e.func.value, nid, depth + 1)
    if isinstance(e, ast.Name):
        ds = sc.rd.at(nid, e.id)
        if len(ds) == 1:
            d = ds[0]
            if d.kind == "for":
                v_ = d.value
                if isinstance(v_, ast.Call) and norm(v_.func) == "map" and len(v_.args) == 2 and norm(v_.args[0]) in ("str.strip", "str.lstrip", "str.rstrip"):
                    return [norm(v_.args[0])[4:], "for:" + norm(v_.args[1])]      # every line stripped, then iterated
                return ["for:" + norm(d.value)]
            if d.kind == "assign" and d.value is not None and not d.index:
                return ["alias"] + _provenance(sc, d.value, d.node, depth + 1) if isinstance(d.value, ast.Name) else _provenance(sc, d.value, d.node, depth + 1)
        return ["?:" + e.id]
    return ["?:" + norm(e)[:30]]


def r15e(sc: Scanner, chk: Check, rule: str):
    """The scan precedes every option read; source order; no break."""
    cfg = sc.cfg
    live = cfg.reachable()
    loops = sc.for_loops()
    scan_loops = []
    for n, call in sc.setattrs:
        for lp in loops:
            # loop contains the setattr?
            if any(x is call for x in ast.walk(lp.stmt)):
                scan_loops.append(lp)
    def _lines_of(it):
        t_ = norm(it)
        if t_.endswith(".splitlines()") or ".split(" in t_ and "\\n" in t_:
            return True
        # the lines passed through an order-preserving wrapper: map(str.strip, X.splitlines()), enumerate(..), iter(..)
        return isinstance(it, ast.Call) and norm(it.func) in ("map", "enumerate", "iter", "list", "tuple") and it.args and _lines_of(it.args[-1])
    line_loops = [lp for lp in loops if _lines_of(lp.stmt.iter)]
    outside = [call for n, call in sc.setattrs if not any(any(x is call for x in ast.walk(lp.stmt)) for lp in line_loops)]
    for call in outside:
        # applied after the scan from a collection: accepted only for ONE loop over a list of (name, value) pairs built in scan order
        lp = None
        for l2 in loops:
            if any(x is call for x in ast.walk(l2.stmt)):
                lp = l2
        coll = norm(lp.stmt.iter) if lp is not None else None
        ordered = False
        if lp is not None and isinstance(lp.stmt.iter, ast.Name) and len(outside) == 1:
            ds = sc.rd.at(lp.id, lp.stmt.iter.id)
            ordered = bool(ds) and all(d.kind == "assign" and isinstance(d.value, ast.List) and not d.value.elts for d in ds) and \
                any(isinstance(c, ast.Call) and norm(c.func) == f"{lp.stmt.iter.id}.append" for c in ast.walk(sc.fn))
        # a dictionary name -> value filled by plain item assignment in scan order: the last directive for a name overwrites the
        # earlier ones, and the options are independent fields, so applying the entries afterwards in any order gives the same result
        if lp is not None and len(outside) == 1 and isinstance(lp.stmt.iter, ast.Call) and isinstance(lp.stmt.iter.func, ast.Attribute) and lp.stmt.iter.func.attr == "items" \
                and isinstance(lp.stmt.iter.func.value, ast.Name) and isinstance(lp.stmt.target, ast.Tuple) and len(lp.stmt.target.elts) == 2:
            dn = lp.stmt.iter.func.value.id
            ds = sc.rd.at(lp.id, dn)
            # the table under another name:  result = table   on every path (a helper's return value after expansion)
            for _hop in range(3):
                if ds and all(d.kind == "assign" and not d.index and isinstance(d.value, ast.Name) for d in ds) and len({d.value.id for d in ds}) == 1:
                    dn = ds[0].value.id
                    ds = sc.rd.at(ds[0].node, dn)
            empty = bool(ds) and all(d.kind == "assign" and (isinstance(d.value, ast.Dict) and not d.value.keys or isinstance(d.value, ast.Call) and norm(d.value) == "dict()") for d in ds)
            fills = [st for st in ast.walk(sc.fn) if isinstance(st, ast.Assign) and any(isinstance(t, ast.Subscript) and norm(t.value) == dn for t in st.targets)]
            others = [c for c in ast.walk(sc.fn) if isinstance(c, ast.Call) and isinstance(c.func, ast.Attribute) and norm(c.func.value) == dn and c.func.attr not in ("items", "get", "keys", "values")]
            in_line_loop = all(any(any(x is st for x in ast.walk(ll.stmt)) for ll in line_loops) for st in fills)
            conditional = []
            for st in fills:
                ids_ = [x.id for x in cfg.nodes_of(st)]
                for t_, p_ in (cfg.guards(ids_[0]) if ids_ else []):
                    if isinstance(t_, ast.expr) and dn in {x.id for x in ast.walk(t_) if isinstance(x, ast.Name)}:
                        conditional.append(norm(t_))      # 'if name not in overrides': first wins
            k, v = norm(lp.stmt.target.elts[0]), norm(lp.stmt.target.elts[1])
            uses_pair = len(call.args) == 3 and norm(call.args[1]) == k and norm(call.args[2]) == v
            ordered = empty and bool(fills) and not others and in_line_loop and not conditional and uses_pair
            if ordered:
                scan_loops.extend(ll for ll in line_loops if any(any(x is st for x in ast.walk(ll.stmt)) for st in fills))
        chk.judge(rule, f"compiler:compile_code:{norm(call)} is applied in source order", ordered,
                  f"directives are applied after the scan from {coll or 'outside any loop'}" + ("" if ordered else
                  ": a set, or separate passes for enabling and disabling names, forget the order in which the directives were written, so the last directive for an option does not win"),
                  {"collection": coll}, f"{sc.mod.path}:{call.lineno} in compile_code")
    if not sc.setattrs and sc.pragma_dicts:
        for dn in sorted(sc.pragma_dicts):
            nid0 = sc.applications[0][0].id
            ds = sc.rd.at(nid0, dn)
            empty = bool(ds) and all(d.kind == "assign" and (isinstance(d.value, ast.Dict) and not d.value.keys or isinstance(d.value, ast.Call) and norm(d.value) == "dict()") for d in ds)
            fills = [st for st in ast.walk(sc.fn) if isinstance(st, ast.Assign) and any(isinstance(t, ast.Subscript) and norm(t.value) == dn for t in st.targets)]
            others = [c for c in ast.walk(sc.fn) if isinstance(c, ast.Call) and isinstance(c.func, ast.Attribute) and norm(c.func.value) == dn and c.func.attr not in ("items", "get", "keys", "values", "copy")]
            in_line_loop = all(any(any(x is st for x in ast.walk(ll.stmt)) for ll in line_loops) for st in fills)
            conditional = []
            for st in fills:
                ids_ = [x.id for x in cfg.nodes_of(st)]
                for t_, p_ in (cfg.guards(ids_[0]) if ids_ else []):
                    if isinstance(t_, ast.expr) and dn in {x.id for x in ast.walk(t_) if isinstance(x, ast.Name)}:
                        conditional.append(norm(t_))
            ordered = empty and bool(fills) and not others and in_line_loop and not conditional
            chk.judge(rule, f"compiler:compile_code:directives collected in {dn} keep their order (last wins)", ordered,
                      f"the dictionary {dn} is not filled by plain item assignment inside the loop over the source lines (empty at first: {empty}; other changes: "
                      f"{[norm(c)[:30] for c in others]}; conditions on it: {conditional}): the last directive for an option would not win", None, sc.where)
            if ordered:
                scan_loops.extend(ll for ll in line_loops if any(any(x is st for x in ast.walk(ll.stmt)) for st in fills))
            # who wins: a directive must override what the caller passed, so the directives are the LAST part of every merge they take part in
            with_d = [(n_, call_, comps) for n_, call_, comps in sc.applications if any(isinstance(c, ast.Name) and c.id == dn for c in comps)]
            for n_, call_, comps in with_d:
                pos = [i for i, c in enumerate(comps) if isinstance(c, ast.Name) and c.id == dn]
                later = [norm(c)[:30] for i, c in enumerate(comps) if i > pos[-1]]
                chk.judge(rule, f"compiler:compile_code:{norm(call_.func)}(...): the directives are merged in last", not later,
                          f"in {norm(call_)[:70]} the collected directives are followed by {later}: what the caller passed overrides the directive, "
                          f"'# pytrapic: compact' has no effect when the caller's options say compact=False", None,
                          f"{sc.mod.path}:{call_.lineno} in compile_code")
            # ... and no way leads from a collected directive to the compiler that does not pass such a merge
            merge_ids = {n_.id for n_, _c, _cs in with_d}
            sinks = [n2.id for n2 in cfg.nodes if n2.id in live and n2.kind in ("stmt", "return") and n2.ast is not None and any(
                isinstance(c, ast.Call) and norm(c.func) == "Compiler" and any(isinstance(a, ast.Name) and a.id == sc.opt_param for a in c.args) for c in ast.walk(n2.ast))]
            if not sinks:
                raise AnalysisError("compile_code: the call Compiler(options) was not found")
            lost = False
            for st in fills:
                seen, stack = set(), [x.id for x in cfg.nodes_of(st)]
                while stack:
                    a_ = stack.pop()
                    if a_ in seen or a_ in merge_ids:
                        continue
                    seen.add(a_)
                    if a_ in sinks:
                        lost = True
                        break
                    stack.extend(b_ for b_, lab in cfg.succ[a_] if not (isinstance(lab, tuple) and lab[0] == "exc"))
            chk.judge(rule, f"compiler:compile_code:every collected directive reaches the options the compiler gets", not lost,
                      f"a path leads from '{dn}[name] = value' to Compiler(options) without the dictionary being merged into the options: for that kind of caller the "
                      f"'# pytrapic:' lines are ignored", None, sc.where)
    if not scan_loops:
        raise AnalysisError("compile_code: directive application is not inside a loop over the source lines")
    # option reads: options.<field> loads, or options passed as a call argument, outside the scan loops
    outer = scan_loops[0]
    for lp in scan_loops:
        if any(x is outer.stmt for x in ast.walk(lp.stmt)):
            outer = lp
    inside = {id(x) for x in ast.walk(outer.stmt)}
    reads = []
    for n in cfg.nodes:
        if n.id not in live or n.ast is None or n.kind not in ("stmt", "test", "iter", "return"):
            continue
        rebinding = isinstance(n.ast, ast.Assign) and all(isinstance(t, ast.Name) and t.id == sc.opt_param for t in n.ast.targets)
        for c in ast.walk(n.ast):
            if id(c) in inside:
                continue
            if rebinding and isinstance(c, ast.Call):
                continue  # options = CompileOptions(**options) / copy.copy(options): normalisation, not a use
            if isinstance(c, ast.Attribute) and isinstance(c.value, ast.Name) and c.value.id == sc.opt_param and isinstance(c.ctx, ast.Load) \
                    and c.attr in sc.fields:
                reads.append((n, c))
            elif isinstance(c, ast.Call) and not (isinstance(c.func, ast.Name) and c.func.id in ("isinstance", "copy", "replace", "setattr", "hasattr")) \
                    and not norm(c.func).startswith(("copy.", "dataclasses.")):
                for a in list(c.args) + [k.value for k in c.keywords]:
                    if isinstance(a, ast.Name) and a.id == sc.opt_param:
                        reads.append((n, c))
    if not reads:
        raise AnalysisError("compile_code: no use of the options after the directive scan")
    for n, c in reads:
        before = outer.id in cfg.reachable(start=n.id)
        chk.judge(rule, f"compiler:compile_code:read {norm(c)[:60]} after the scan", not before,
                  f"options are read by {norm(c)[:60]} on a path that reaches the directive scan afterwards: the pragma would come too late",
                  None, f"{sc.mod.path}:{c.lineno} in compile_code")
    # source order and no break
    for lp in scan_loops:
        it = norm(lp.stmt.iter)
        ordered = not it.startswith(("reversed(", "sorted(", "set(")) and "[::-1]" not in it
        brk = [b for b in ast.walk(lp.stmt) if isinstance(b, ast.Break)]
        chk.judge(rule, f"compiler:compile_code:loop over {it[:50]} in source order, no break", ordered and not brk,
                  f"loop over {it} {'is not in source order' if not ordered else 'contains break'}: the last directive would not win", None,
                  f"{sc.mod.path}:{lp.stmt.lineno} in compile_code")
    # the scanned text is the main module
    scan_outer = outer
    inner_lines = [ll for ll in line_loops if ll in scan_loops or any(any(x is c_ for x in ast.walk(ll.stmt)) for _n, c_ in sc.setattrs)]
    if inner_lines and not (norm(outer.stmt.iter).endswith(".splitlines()")):
        scan_outer = inner_lines[0]
    outer_iter = scan_outer.stmt.iter
    # through order-preserving wrappers to  <text>.splitlines()
    while isinstance(outer_iter, ast.Call) and norm(outer_iter.func) in ("map", "enumerate", "iter", "list", "tuple") and outer_iter.args:
        outer_iter = outer_iter.args[-1]
    base = None
    if isinstance(outer_iter, ast.Call) and isinstance(outer_iter.func, ast.Attribute) and outer_iter.func.attr in ("splitlines", "split") and isinstance(outer_iter.func.value, ast.Name):
        base = outer_iter.func.value.id
    ok = False
    detail = None
    if base is None:
        chk.unresolved(rule, "compiler:compile_code:scanned text is the main source", f"the loop that reads the directives iterates over {norm(scan_outer.stmt.iter)[:60]}: "
                       "which text that is was not determined", sc.where)
        return
    if base:
        ids = [x.id for x in cfg.nodes_of(outer_iter)]
        ds = sc.rd.at(ids[0], base) if ids else []
        isdict = f"isinstance({sc.src_param}, dict)"

        def main_text(v, pol):
            """v is the main module's text, given that isinstance(src, dict) is pol (None: unknown)"""
            if isinstance(v, ast.IfExp):
                if norm(v.test) == isdict:
                    return main_text(v.body, True) and main_text(v.orelse, False)
                if norm(v.test) == "not " + isdict:
                    return main_text(v.body, False) and main_text(v.orelse, True)
                unknown.append(norm(v))
                return False
            if norm(v) == f"{sc.src_param}['']":
                return pol is True
            if norm(v) == sc.src_param:
                return pol is False
            all_modules = any(isinstance(c_, ast.Call) and isinstance(c_.func, ast.Attribute) and c_.func.attr in ("values", "items") and sc.src_param in {
                x_.id for x_ in ast.walk(c_.func.value) if isinstance(x_, ast.Name)} for c_ in ast.walk(v))
            if not (isinstance(v, ast.Subscript) and norm(v.value) == sc.src_param) and not all_modules:
                unknown.append(norm(v))      # neither the source nor one of its modules: not judged here
            return False                     # (a text put together from all modules of the source is judged: directives of a library would count)
        unknown = []
        if ds and base != sc.src_param:
            detail = " | ".join(norm(d.value) if d.value is not None else d.kind for d in ds)
            ok = True
            for d in ds:
                if d.kind != "assign" or d.index or d.value is None:
                    ok = False
                    continue
                pol = None
                for t, pp in guard_atoms(cfg, d.node):
                    if norm(t) == isdict:
                        pol = pp
                ok = ok and main_text(d.value, pol)
        elif base == sc.src_param:
            ok, detail = False, base
    if not ok and unknown:
        chk.unresolved(rule, "compiler:compile_code:scanned text is the main source", f"the scanned text is {detail}: not recognised as the source or one of its modules", sc.where)
        return
    chk.judge(rule, "compiler:compile_code:scanned text is the main source", ok, f"scanner iterates over {detail}", {"text": detail}, sc.where)
