"""C15 — in-source '# pytrapic:' directives (R15.a–e) on compiler.compile_code."""
from __future__ import annotations

import ast
from ..model import Repo, AnalysisError, norm
from ..report import Check
from ..cfg import CFG, ReachingDefs, decompose


def option_fields(repo: Repo):
    m = repo.mod("compile_pass")
    c = m.cls("CompileOptions")
    if not any("dataclass" in norm(d) for d in c.decorator_list):
        raise AnalysisError("CompileOptions is no longer a dataclass")
    out = {}
    for st in c.body:
        if isinstance(st, ast.AnnAssign) and isinstance(st.target, ast.Name):
            out[st.target.id] = st.value
    if len(out) < 2:
        raise AnalysisError("CompileOptions: fields not found")
    return out


class Scanner:
    """Facts about the directive scanner inside compile_code."""

    def __init__(self, repo: Repo):
        self.repo = repo
        self.mod = repo.mod("compiler")
        self.fn = self.mod.anchor("compile_code")
        self.cfg = CFG(self.fn)
        self.rd = ReachingDefs(self.cfg)
        self.fields = option_fields(repo)
        params = [a.arg for a in self.fn.args.args]
        if len(params) < 2:
            raise AnalysisError("compile_code: parameters (src, options) not found")
        self.src_param, self.opt_param = params[0], params[1]
        live = self.cfg.reachable()
        # setattr sites
        self.setattrs = []
        for n in self.cfg.nodes:
            if n.id not in live or n.ast is None:
                continue
            for c in ast.walk(n.ast) if n.kind in ("stmt", "test", "iter", "return") else []:
                if isinstance(c, ast.Call) and isinstance(c.func, ast.Name) and c.func.id == "setattr" and len(c.args) == 3:
                    self.setattrs.append((n, c))
        self.where = f"{self.mod.path}:{self.fn.lineno} in compile_code"

    def for_loops(self):
        return [n for n in self.cfg.nodes if n.kind == "for" and n.id in self.cfg.reachable()]

    FRESH = ("CompileOptions", "copy.copy", "copy.deepcopy", "dataclasses.replace", "replace", "deepcopy", "copy")

    def options_defs_at(self, nid):
        """[(text of the definition, is it a fresh private object)] for the options variable at node nid."""
        out = []
        for d in self.rd.at(nid, self.opt_param):
            if d.kind == "param":
                out.append(("<parameter>", False))
            elif d.kind == "assign" and d.value is not None:
                v = d.value
                fresh = isinstance(v, ast.Call) and norm(v.func) in self.FRESH
                out.append((norm(v), fresh))
            else:
                out.append((d.kind, False))
        return out

    def single_def(self, name, nid):
        ds = self.rd.at(nid, name)
        if len(ds) == 1:
            return ds[0]
        return None


def run(repo: Repo, chk: Check):
    chk.rule("R15.a", "a directive name is applied only if it is a CompileOptions dataclass field (not hasattr)", floor=1)
    chk.rule("R15.b", "'-' is normalised to '_' before the 'no_' prefix test, and the prefix is stripped only when it matched", floor=2)
    chk.rule("R15.c", "directive parsing is dominated by a startswith('#') test on the stripped line of the main source", floor=2)
    chk.rule("R15.d", "only the named attribute of the local options object is assigned, with the polarity value", floor=2)
    chk.rule("R15.e", "the scan runs before any option is read; lines and names are visited in source order without break (last wins)", floor=3)
    sc = Scanner(repo)
    chk.saw("compiler", "compile_code")
    cfg, rd = sc.cfg, sc.rd
    if not sc.setattrs:
        raise AnalysisError("compile_code: no setattr site (directive application) found")
    for n, call in sc.setattrs:
        obj, name, val = call.args
        key = f"compiler:compile_code:{norm(call)}"
        guards = cfg.guards(n.id)
        # R15.a membership
        ok = False
        seen = []
        for test, pol in guards:
            if not isinstance(test, ast.expr):
                continue
            seen.append((norm(test), pol))
            if pol and isinstance(test, ast.Compare) and len(test.ops) == 1 and isinstance(test.ops[0], ast.In) and norm(test.left) == norm(name):
                rhs = test.comparators[0]
                t = norm(rhs)
                if t.endswith("__dataclass_fields__") and ("CompileOptions" in t or norm(obj) in t or "type(" in t):
                    ok = True
                elif isinstance(rhs, (ast.Tuple, ast.List, ast.Set)) and all(isinstance(e, ast.Constant) for e in rhs.elts):
                    ok = {e.value for e in rhs.elts} <= set(sc.fields)
                elif "fields(" in t and ("CompileOptions" in t or norm(obj) in t):
                    ok = True
        chk.judge("R15.a", key + ":membership", ok,
                  f"setattr is not guarded by membership of {norm(name)} in the CompileOptions field set (guards: {seen})",
                  {"fields": sorted(sc.fields)}, f"{sc.mod.path}:{call.lineno} in compile_code")
        # R15.c '#' guard
        hash_guard = None
        for test, pol in guards:
            if isinstance(test, ast.Call) and isinstance(test.func, ast.Attribute) and test.func.attr == "startswith" and pol \
                    and test.args and isinstance(test.args[0], ast.Constant) and test.args[0].value == "#":
                hash_guard = test
        chk.judge("R15.c", key + ":'#' guard", hash_guard is not None,
                  "applying a directive is not dominated by <line>.startswith('#')", None, f"{sc.mod.path}:{call.lineno} in compile_code")
        if hash_guard is not None and isinstance(hash_guard.func.value, ast.Name):
            lname = hash_guard.func.value.id
            tnodes = [x.id for x in cfg.nodes_of(hash_guard)]
            d = sc.single_def(lname, tnodes[0]) if tnodes else None
            t = norm(d.value) if d is not None and d.value is not None else None
            ok = d is not None and d.kind == "assign" and t in (f"{lname}.strip()", f"{lname}.lstrip()")
            src_ok = False
            if ok:
                # the variable stripped is the loop variable over the main module's lines
                d0s = rd.at(d.node, lname)
                for d0 in d0s:
                    if d0.kind == "for":
                        it = norm(d0.value)
                        src_ok = it.endswith(".splitlines()") or '.split("\\n")' in it or ".split('\\n')" in it
            chk.judge("R15.c", key + ":guard is on the stripped line", ok and src_ok,
                      f"the '#' test is applied to {lname} = {t}, expected the stripped current line of the source", {"line_def": t},
                      f"{sc.mod.path}:{hash_guard.lineno} in compile_code")
        # R15.d assigned object / name / value
        od = sc.single_def(norm(obj), n.id) if isinstance(obj, ast.Name) else None
        chk.judge("R15.d", key + ":object is the options variable", isinstance(obj, ast.Name) and obj.id == sc.opt_param,
                  f"setattr target is {norm(obj)}", None, f"{sc.mod.path}:{call.lineno}")
        defs = sc.options_defs_at(n.id)
        shared = [t for t, fresh in defs if not fresh]
        chk.judge("R15.d", key + ":object is private to this call", bool(defs) and not shared,
                  f"directives are written into an object that outlives the call ({shared}): options named in one source leak "
                  f"into the caller's object or into later compilations", {"definitions": [t for t, _ in defs]}, f"{sc.mod.path}:{call.lineno}")
        # value polarity
        vd = sc.single_def(val.id, n.id) if isinstance(val, ast.Name) else None
        vexpr = vd.value if vd is not None else val
        pol_ok = False
        prefix_call = None
        if isinstance(vexpr, ast.UnaryOp) and isinstance(vexpr.op, ast.Not):
            c = vexpr.operand
            if isinstance(c, ast.Call) and isinstance(c.func, ast.Attribute) and c.func.attr == "startswith" and c.args \
                    and isinstance(c.args[0], ast.Constant) and c.args[0].value == "no_":
                pol_ok = True
                prefix_call = c
        chk.judge("R15.d", key + ":value is the polarity", pol_ok,
                  f"assigned value {norm(vexpr)} is not 'not <name>.startswith(\"no_\")'", {"value": norm(vexpr)}, f"{sc.mod.path}:{call.lineno}")
        # R15.b normalisation before the prefix test, prefix stripped iff matched
        if prefix_call is not None and isinstance(prefix_call.func.value, ast.Name) and vd is not None:
            tname = prefix_call.func.value.id
            td = sc.single_def(tname, vd.node)
            t = norm(td.value) if td is not None and td.value is not None else ""
            ok = ".replace('-', '_')" in t
            chk.judge("R15.b", key + ":'-' normalised before the 'no_' test", ok,
                      f"{tname} is {t!r} when tested for the 'no_' prefix: 'no-x' would not be recognised", {"name_def": t},
                      f"{sc.mod.path}:{prefix_call.lineno}")
            # the name passed to setattr: either the same def (value True) or the def stripping 3 chars under (value False)
            nds = rd.at(n.id, tname)
            strip_ok, others = False, []
            for dd in nds:
                if dd is td:
                    continue
                tt = norm(dd.value) if dd.value is not None else ""
                g = [(norm(t_), p) for t_, p in cfg.guards(dd.node) if isinstance(t_, ast.expr)]
                if tt.startswith(f"{tname}[3:]") and (norm(val), False) in g:
                    strip_ok = True
                else:
                    others.append(tt)
            chk.judge("R15.b", key + ":prefix stripped only when it matched", strip_ok and not others and any(dd is td for dd in nds),
                      f"definitions of {tname} reaching setattr: {[norm(dd.value) for dd in nds if dd.value is not None]}", None,
                      f"{sc.mod.path}:{call.lineno}")
    # no other attribute store on options
    stores = []
    for node in ast.walk(sc.fn):
        if isinstance(node, (ast.Assign, ast.AugAssign)):
            tg = node.targets if isinstance(node, ast.Assign) else [node.target]
            for t in tg:
                if isinstance(t, ast.Attribute) and isinstance(t.value, ast.Name) and t.value.id == sc.opt_param:
                    stores.append(norm(node))
    chk.judge("R15.d", "compiler:compile_code:no other option store", not stores, f"options attributes are also assigned by {stores}", None, sc.where)
    r15e(sc, chk, "R15.e")


def r15e(sc: Scanner, chk: Check, rule: str):
    """The scan precedes every option read; source order; no break."""
    cfg = sc.cfg
    live = cfg.reachable()
    loops = sc.for_loops()
    scan_loops = []
    for n, call in sc.setattrs:
        for lp in loops:
            # loop contains the setattr?
            if any(x is call for x in ast.walk(lp.stmt)):
                scan_loops.append(lp)
    line_loops = [lp for lp in loops if norm(lp.stmt.iter).endswith(".splitlines()") or ".split(" in norm(lp.stmt.iter) and "\\n" in norm(lp.stmt.iter)]
    outside = [call for n, call in sc.setattrs if not any(any(x is call for x in ast.walk(lp.stmt)) for lp in line_loops)]
    for call in outside:
        # applied after the scan from a collection: accepted only for ONE loop over a list of (name, value) pairs built in scan order
        lp = None
        for l2 in loops:
            if any(x is call for x in ast.walk(l2.stmt)):
                lp = l2
        coll = norm(lp.stmt.iter) if lp is not None else None
        ordered = False
        if lp is not None and isinstance(lp.stmt.iter, ast.Name) and len(outside) == 1:
            ds = sc.rd.at(lp.id, lp.stmt.iter.id)
            ordered = bool(ds) and all(d.kind == "assign" and isinstance(d.value, ast.List) and not d.value.elts for d in ds) and \
                any(isinstance(c, ast.Call) and norm(c.func) == f"{lp.stmt.iter.id}.append" for c in ast.walk(sc.fn))
        chk.judge(rule, f"compiler:compile_code:{norm(call)} is applied in source order", ordered,
                  f"directives are applied after the scan from {coll or 'outside any loop'}" + ("" if ordered else
                  ": a set, or separate passes for enabling and disabling names, forget the order in which the directives were written, so the last directive for an option does not win"),
                  {"collection": coll}, f"{sc.mod.path}:{call.lineno} in compile_code")
    if not scan_loops:
        raise AnalysisError("compile_code: directive application is not inside a loop over the source lines")
    # option reads: options.<field> loads, or options passed as a call argument, outside the scan loops
    outer = scan_loops[0]
    for lp in scan_loops:
        if any(x is outer.stmt for x in ast.walk(lp.stmt)):
            outer = lp
    inside = {id(x) for x in ast.walk(outer.stmt)}
    reads = []
    for n in cfg.nodes:
        if n.id not in live or n.ast is None or n.kind not in ("stmt", "test", "iter", "return"):
            continue
        rebinding = isinstance(n.ast, ast.Assign) and all(isinstance(t, ast.Name) and t.id == sc.opt_param for t in n.ast.targets)
        for c in ast.walk(n.ast):
            if id(c) in inside:
                continue
            if rebinding and isinstance(c, ast.Call):
                continue  # options = CompileOptions(**options) / copy.copy(options): normalisation, not a use
            if isinstance(c, ast.Attribute) and isinstance(c.value, ast.Name) and c.value.id == sc.opt_param and isinstance(c.ctx, ast.Load) \
                    and c.attr in sc.fields:
                reads.append((n, c))
            elif isinstance(c, ast.Call) and not (isinstance(c.func, ast.Name) and c.func.id in ("isinstance", "copy", "replace", "setattr", "hasattr")) \
                    and not norm(c.func).startswith(("copy.", "dataclasses.")):
                for a in list(c.args) + [k.value for k in c.keywords]:
                    if isinstance(a, ast.Name) and a.id == sc.opt_param:
                        reads.append((n, c))
    if not reads:
        raise AnalysisError("compile_code: no use of the options after the directive scan")
    for n, c in reads:
        before = outer.id in cfg.reachable(start=n.id)
        chk.judge(rule, f"compiler:compile_code:read {norm(c)[:60]} after the scan", not before,
                  f"options are read by {norm(c)[:60]} on a path that reaches the directive scan afterwards: the pragma would come too late",
                  None, f"{sc.mod.path}:{c.lineno} in compile_code")
    # source order and no break
    for lp in scan_loops:
        it = norm(lp.stmt.iter)
        ordered = not it.startswith(("reversed(", "sorted(", "set(")) and "[::-1]" not in it
        brk = [b for b in ast.walk(lp.stmt) if isinstance(b, ast.Break)]
        chk.judge(rule, f"compiler:compile_code:loop over {it[:50]} in source order, no break", ordered and not brk,
                  f"loop over {it} {'is not in source order' if not ordered else 'contains break'}: the last directive would not win", None,
                  f"{sc.mod.path}:{lp.stmt.lineno} in compile_code")
    # the scanned text is the main module
    outer_iter = outer.stmt.iter
    base = None
    if isinstance(outer_iter, ast.Call) and isinstance(outer_iter.func, ast.Attribute) and isinstance(outer_iter.func.value, ast.Name):
        base = outer_iter.func.value.id
    ok = False
    detail = None
    if base:
        ids = [x.id for x in cfg.nodes_of(outer_iter)]
        d = sc.single_def(base, ids[0]) if ids else None
        if d is not None and d.value is not None:
            detail = norm(d.value)
            ok = detail in (f"{sc.src_param}[''] if isinstance({sc.src_param}, dict) else {sc.src_param}",) or \
                (f"{sc.src_param}['']" in detail and f"isinstance({sc.src_param}, dict)" in detail)
        elif base == sc.src_param:
            ok, detail = False, base
    chk.judge(rule, "compiler:compile_code:scanned text is the main source", ok, f"scanner iterates over {detail}", {"text": detail}, sc.where)
