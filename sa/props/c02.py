"""C02 — every combination of compile options preserves behaviour (R02.a–e)."""
from __future__ import annotations

import ast
import itertools
from ..model import Repo, AnalysisError, norm, enclosing_def
from ..report import Check
from ..consteval import TOP
from ..emit import collect_sites
from .c15 import Scanner, r15e, option_fields
from .shared import rule_convention_roles, fn_ctx, live_ids, guard_atoms, GEN_CLASS

# classification of the option fields: documented effect is textual only / changes the instruction sequence
LAYOUT = {"compact", "remove_labels", "append_version", "original_code_as_comment", "generated_comments"}
SEMANTIC = {"inline_functions", "tail_call_optimization", "use_push_pop_functions"}
# the rendering layer: functions that turn finished instructions into text
RENDER = {("compiler", "compile_code"), ("generate_code", "CompilerPassGatherCode.get_code")}
# functions that choose between the symbolic and the numeric spelling of one value
SPELLING = {("utils", "format_enum"), ("utils", "is_compact_output"), ("types", "_apply_output_mode"), ("utils", "set_output_mode")}
PATH_MODULES = ["compiler", "compile_pass", "generate_code", "register_assignment", "utils", "types", "intrinsics", "symbols", "mod_daemon", "parse_lua"]


def run(repo: Repo, chk: Check):
    chk.rule("R02.a", "the '# pytrapic:' scan runs before any option is read, over the main source in order (pragma == API)", floor=3)
    chk.rule("R02.b", "options whose documented effect is textual, and the output mode, are read only in the rendering layer / the "
                      "spelling functions, never where instructions are chosen or code is pruned", floor=8)
    chk.rule("R02.c", "every site that decides inlining evaluates the same predicate (inline_functions AND called-exactly-once) or its negation", floor=8)
    chk.rule("R02.d", "both calling conventions have an emission site for every role (argument write/read, result write/read)", floor=8)
    chk.rule("R02.e", "the tail-call rewrite (jal -> j) and the suppression of the final 'j ra' hang on the same flag, set in the same block", floor=2)
    chk.guarded(lambda: r15e(Scanner(repo), chk, "R02.a"))
    chk.guarded(r02b, repo, chk)
    chk.guarded(r02c, repo, chk)
    chk.guarded(rule_convention_roles, repo, chk, "R02.d")
    from .c06 import r06a, r06g
    chk.guarded(r06a, repo, chk, "R02.d")
    chk.guarded(r06g, repo, chk, "R02.d")
    chk.guarded(r02e, repo, chk)
    chk.rule("R02.f", "the ra logic finds a function's own exit points whatever the options splice into it: the end label is the LAST label ending in "
                      "'<name>end:' (an inlined callee may end in the same text), and a return omits its jump to the end label only as the last statement of "
                      "the body (shared with R06.f / R06.h)", floor=2)
    from .c06 import r06k, r06h
    chk.guarded(r06k, repo, chk, "R02.f")
    chk.guarded(r06h, repo, chk, "R02.f")
    chk.rule("R02.g", "with tail_call_optimization the end label of a function, the target of its early returns, is still followed by an instruction that "
                      "cannot fall through, and whether a function saves ra is decided from the instructions that end up in it (an inlined callee brings its jal "
                      "along): turning the options on must not change where control goes (shared with R07.c, R06.c/d/f/i)", floor=6)
    from .c07 import r07c
    from .c06 import r06cdf
    chk.guarded(r07c, repo, chk, "R02.g")
    chk.shared({"R06.c": "R02.g", "R06.d": "R02.g", "R06.f": "R02.g", "R06.i": "R02.g"}, r06cdf, repo, chk)
    chk.rule("R02.h", "no program is rejected because of an option: no 'raise' on the compile path is control-dependent on a CompileOptions field, and "
                      "code that runs only under an option looks up the callee of a call only after establishing that it is a user function "
                      "(the lookup fails for built-ins)", floor=1)
    chk.guarded(r02h, repo, chk)
    chk.rule("R02.i", "turning tail calls on does not change the stack pointer at a return: a call becomes a tail jump only when nothing is left to do "
                      "after the callee has returned (shared with R06.m)", floor=1)
    from .c06 import r06m
    chk.guarded(r06m, repo, chk, "R02.i")
    chk.rule("R02.k", "the option 'remove_labels' rewrites label operands and nothing else: the substitution pattern delimits whole labels and leaves text in "
                      "quotes alone, and every label is rewritten in every line that mentions it (shared with R05.a / R05.i / R05.f)", floor=2)
    from .c05 import r05a, r05f
    chk.shared({"R05.a": "R02.k", "R05.i": "R02.k"}, r05a, repo, chk)
    chk.shared({"R05.f": "R02.k"}, r05f, repo, chk)
    chk.rule("R02.l", "inlining binds a parameter to the caller's value without a copy only when neither of the two is assigned again: otherwise the "
                      "inlined and the called version of the same function see different values (shared with R01.c, the site in compile_function)", floor=1)
    from .shared import rule_alias_single_assignment
    chk.guarded(rule_alias_single_assignment, repo, chk, "R02.l", 1, False, f"{GEN_CLASS}.compile_function")
    chk.rule("R02.j", "the option 'compact' changes how a constant is spelled, not whether an expression over it can be folded: the folding coercions "
                      "understand every symbolic spelling (shared with R03.m)", floor=2)
    from .c03 import r03m
    chk.guarded(r03m, repo, chk, "R02.j")


def _option_reads(repo, fields):
    out = []
    for mn in PATH_MODULES:
        if not repo.has_mod(mn):
            continue
        m = repo.mod(mn)
        # the functions in canonical form (extracted helpers expanded at their call sites), then the module-level code
        units = [(f, f) for f in m.funcs.values() if isinstance(f, (ast.FunctionDef, ast.AsyncFunctionDef))]
        top = [st for st in ast.walk(m.tree) if isinstance(st, ast.stmt) and enclosing_def(st) is None and not isinstance(st, (ast.FunctionDef, ast.AsyncFunctionDef, ast.ClassDef))]
        seen = set()
        for root, fn in units + [(st, None) for st in top]:
            for a in ast.walk(root):
                if id(a) in seen:
                    continue
                seen.add(id(a))
                if fn is None and enclosing_def(a) is not None:
                    continue
                if isinstance(a, ast.Attribute) and a.attr in fields and isinstance(a.ctx, ast.Load):
                    base = norm(a.value)
                    if base.endswith("options") or base == "opts" or base.endswith(".options"):
                        out.append((m, enclosing_def(a) if fn is not None else None, a))
                if isinstance(a, ast.Call) and isinstance(a.func, ast.Name) and a.func.id == "getattr" and len(a.args) >= 2 and norm(a.args[0]).endswith("options"):
                    out.append((m, enclosing_def(a) if fn is not None else None, a))
    return out


def r02b(repo, chk):
    fields = option_fields(repo)
    unknown = set(fields) - LAYOUT - SEMANTIC
    if unknown:
        raise AnalysisError(f"CompileOptions has field(s) {sorted(unknown)} that are not classified as layout-only or semantic in the checker's table")
    sites = collect_sites(repo, ["generate_code", "compile_pass", "types", "utils"])
    emitting = {(s.mod.name, s.qual) for s in sites}
    reads = _option_reads(repo, fields)
    if len(reads) < 15:
        raise AnalysisError(f"R02.b: only {len(reads)} option reads found (expected about 20)")
    for m, fn, a in reads:
        q = fn.qual if fn is not None else "<module>"
        field = a.attr if isinstance(a, ast.Attribute) else "<dynamic>"
        key = f"{m.name}:{q}:reads options.{field}"
        where = f"{m.path}:{a.lineno} in {q}"
        chk.saw(m.name, q)
        if field == "<dynamic>":
            chk.bad("R02.b", key, "an option is read through getattr with a computed name: its kind cannot be classified", None, where)
        elif field in LAYOUT:
            ok = (m.name, q) in RENDER
            reason = ""
            if not ok:
                prunes = fn is not None and any(isinstance(st, ast.Assign) and any(isinstance(t, ast.Attribute) and t.attr in ("is_used", "is_constant", "code_expr") for t in st.targets)
                                                for st in ast.walk(fn))
                reason = ("a function that emits instructions" if (m.name, q) in emitting else
                          "a function that prunes code or assigns registers" if prunes else "a function outside the rendering layer")
            chk.judge("R02.b", key, ok, f"the layout-only option {field!r} is read in {reason} ({m.name}.{q}): it can now change which instructions are produced, "
                                        f"not only how they are printed", {"field": field}, where)
        else:
            chk.ok("R02.b", key, {"field": field, "kind": "semantic"})
    rule_mode_readers(repo, chk, "R02.b")


def rule_mode_readers(repo, chk, rule):
    """The compact/verbose output mode is read only by the spelling functions (R02.b / R08.e)."""
    n_mode = 0
    for mn in PATH_MODULES:
        if not repo.has_mod(mn):
            continue
        m = repo.mod(mn)
        for a in ast.walk(m.tree):
            hit = None
            if isinstance(a, ast.Name) and a.id == "_output_mode" and isinstance(a.ctx, ast.Load):
                hit = "_output_mode"
            elif isinstance(a, ast.Attribute) and a.attr == "_output_mode" and isinstance(a.ctx, ast.Load):
                hit = norm(a)
            elif isinstance(a, ast.Call) and (norm(a.func) == "is_compact_output" or norm(a.func).endswith(".is_compact_output")):
                hit = "is_compact_output()"
            if hit is None:
                continue
            fn = enclosing_def(a)
            q = fn.qual if fn is not None else "<module>"
            if fn is None and isinstance(getattr(a, "parent", None), (ast.Assign, ast.AnnAssign)):
                continue
            n_mode += 1
            chk.judge(rule, f"{m.name}:{q}:reads the output mode ({hit})", (m.name, q) in SPELLING,
                      f"the compact/verbose output mode is read in {m.name}.{q}, which is not one of the spelling functions "
                      f"{sorted(f'{a_}.{b_}' for a_, b_ in SPELLING)}: compact output could differ from verbose output in more than token spelling",
                      None, f"{m.path}:{a.lineno} in {q}")
    if n_mode < 3:
        raise AnalysisError(f"{rule}: only {n_mode} readers of the output mode found")


# ---------------------------------------------------------------------- R02.c
def _atom_kind(e):
    """'INL' | ('P', receiver) | None for a leaf of an inlining predicate; returns (kind, negated)."""
    neg = False
    while isinstance(e, ast.UnaryOp) and isinstance(e.op, ast.Not):
        e = e.operand
        neg = not neg
    if isinstance(e, ast.Attribute) and e.attr == "inline_functions":
        return "INL", neg, None
    if isinstance(e, ast.Attribute) and e.attr == "can_inline":
        return "P", neg, norm(e.value)
    if isinstance(e, ast.Name) and e.id in ("do_inline",):
        return None, neg, None
    if isinstance(e, ast.Compare) and len(e.ops) == 1 and isinstance(e.left, ast.Attribute) and e.left.attr == "is_read" \
            and isinstance(e.comparators[0], ast.Constant) and e.comparators[0].value == 1:
        if isinstance(e.ops[0], ast.Eq):
            return "P", neg, norm(e.left.value)
        if isinstance(e.ops[0], ast.NotEq):
            return "P", not neg, norm(e.left.value)
    return None, neg, None


def _eval_bool(e, env):
    if isinstance(e, ast.BoolOp):
        vals = [_eval_bool(v, env) for v in e.values]
        return all(vals) if isinstance(e.op, ast.And) else any(vals)
    if isinstance(e, ast.UnaryOp) and isinstance(e.op, ast.Not):
        return not _eval_bool(e.operand, env)
    kind, neg, recv = _atom_kind(e)
    v = env["INL"] if kind == "INL" else env["P"]
    return (not v) if neg else v


def _leaves(e):
    if isinstance(e, ast.BoolOp):
        out = []
        for v in e.values:
            out.extend(_leaves(v))
        return out
    if isinstance(e, ast.UnaryOp) and isinstance(e.op, ast.Not):
        return _leaves(e.operand)
    return [e]


def r02c(repo, chk, R="R02.c"):
    n = 0
    # can_inline itself:  node and sym_data.is_read == 1
    cp = repo.mod("compile_pass")
    ci = cp.func("FunctionData.can_inline")
    chk.saw("compile_pass", "FunctionData.can_inline")
    rets = [r for r in ast.walk(ci) if isinstance(r, ast.Return) and r.value is not None]
    okci = False
    if len(rets) == 1:
        lv = _leaves(rets[0].value)
        kinds = [_atom_kind(x) for x in lv]
        okci = isinstance(rets[0].value, ast.BoolOp) and isinstance(rets[0].value.op, ast.And) and \
            any(k[0] == "P" and not k[1] for k in kinds) and all(k[0] == "P" or norm(x) == "self.node" for k, x in zip(kinds, lv))
    chk.judge(R, "compile_pass:FunctionData.can_inline:is 'called exactly once'", okci,
              f"can_inline returns {norm(rets[0].value) if rets else '?'}, expected node and sym_data.is_read == 1", None, f"{cp.path}:{ci.lineno}")
    for mn in ("generate_code", "compile_pass", "register_assignment", "utils"):
        m = repo.mod(mn)
        occurrences = [(f_, a_) for f_ in m.funcs.values() if isinstance(f_, (ast.FunctionDef, ast.AsyncFunctionDef)) for a_ in ast.walk(f_)
                       if isinstance(a_, ast.Attribute) and a_.attr == "inline_functions" and isinstance(a_.ctx, ast.Load) and enclosing_def(a_) is f_]
        for fn, a in occurrences:
            # climb to the largest boolean expression whose leaves are all inlining atoms
            top = a
            while True:
                p = getattr(top, "parent", None)
                if isinstance(p, ast.UnaryOp) and isinstance(p.op, ast.Not):
                    top = p
                    continue
                if isinstance(p, ast.BoolOp) and all(_atom_kind(x)[0] is not None for x in _leaves(p)):
                    top = p
                    continue
                break
            leaves = _leaves(top)
            kinds = [_atom_kind(x) for x in leaves]
            recvs = {k[2] for k in kinds if k[0] == "P"}
            n += 1
            chk.saw(mn, fn.qual)
            key = f"{mn}:{fn.qual}:inlining decision {norm(top)[:80]}"
            where = f"{m.path}:{a.lineno} in {fn.qual}"
            if not recvs:
                # the flag alone: acceptable only as a conjunct next to a P atom one level up (e.g. 'A and (INL and P)' is handled above)
                p = getattr(top, "parent", None)
                sib_ok = False
                if isinstance(p, ast.BoolOp):
                    for x in _leaves(p):
                        if _atom_kind(x)[0] == "P":
                            sib_ok = True
                chk.judge(R, key, False if not sib_ok else True,
                          "inlining is decided from the option alone, without 'called exactly once': for a function that is called twice this site treats it as "
                          "inlined while the others emit a call", None, where)
                continue
            if len(recvs) > 1:
                chk.bad(R, key, f"the predicate mixes the call counts of {sorted(recvs)}", None, where)
                continue
            table = tuple(_eval_bool(top, {"INL": i, "P": p_}) for i, p_ in itertools.product((False, True), repeat=2))
            AND = (False, False, False, True)
            NAND = (True, True, True, False)
            chk.judge(R, key, table in (AND, NAND),
                      f"truth table over (inline_functions, called once) is {table}: neither 'both' nor its negation, so this site can disagree with the "
                      f"other sites about whether the function is inlined", {"table": table, "receiver": sorted(recvs)}, where)
    if n < 7:
        raise AnalysisError(f"{R}: only {n} inlining decision sites found (expected 8)")


# ---------------------------------------------------------------------- R02.e
def r02e(repo, chk, R="R02.e"):
    g = repo.mod("generate_code")
    cf = g.func(f"{GEN_CLASS}.compile_function")
    chk.saw("generate_code", cf.qual)
    cfg, rd = fn_ctx(cf)
    where = f"{g.path}:{cf.lineno} in {cf.qual}"
    rewrites = [st for st in ast.walk(cf) if isinstance(st, ast.Assign) and any(isinstance(t, ast.Attribute) and t.attr == "op" for t in st.targets)
                and isinstance(st.value, ast.Constant) and st.value.value == "j"]
    if not rewrites:
        raise AnalysisError("compile_function: the tail-call rewrite (<instr>.op = 'j') was not found")
    flag_sets = [st for st in ast.walk(cf) if isinstance(st, ast.Assign) and isinstance(st.value, ast.Constant) and st.value.value is True
                 and len(st.targets) == 1 and isinstance(st.targets[0], ast.Name) and "tail" in st.targets[0].id]
    if not flag_sets:
        raise AnalysisError("compile_function: the flag recording an applied tail call was not found")
    flag = flag_sets[0].targets[0].id
    for rw in rewrites:
        par = getattr(rw, "parent", None)
        body = None
        for fld in ("body", "orelse"):
            if rw in getattr(par, fld, []):
                body = getattr(par, fld)
        same_block = body is not None and any(fs in body for fs in flag_sets)
        # the rewritten instruction is checked to be a jal on the same path
        guards_jal = body is not None and any(isinstance(s, ast.If) and "jal" in norm(s.test) and any(isinstance(x, ast.Raise) for x in ast.walk(s)) for s in body)
        if not guards_jal:
            # the positive form: the rewrite sits under a test  <instr>.op == "jal"
            for nid in live_ids(cfg, rw)[:1]:
                for t, pol in guard_atoms(cfg, nid):
                    if isinstance(t, ast.Compare) and len(t.ops) == 1 and isinstance(t.left, ast.Attribute) and t.left.attr == "op" \
                            and isinstance(t.comparators[0], ast.Constant) and t.comparators[0].value == "jal" \
                            and ((isinstance(t.ops[0], ast.Eq) and pol) or (isinstance(t.ops[0], ast.NotEq) and not pol)) \
                            and norm(t.left.value) == norm(rw.targets[0].value):
                        guards_jal = True
        chk.judge(R, "generate_code:compile_function:rewrite jal->j sets the tail-call flag in the same block", same_block and guards_jal,
                  f"the rewrite {norm(rw)} and '{flag} = True' are not in one block (or the rewritten instruction is not verified to be a jal): "
                  f"'j ra' could be dropped without a tail jump, or kept after one", None, f"{g.path}:{rw.lineno} in {cf.qual}")
    # the rewrite applies only when neither the function being compiled nor the callee is inlined
    from ..origin import Origin
    o = Origin(cf)
    for rw in rewrites:
        ids = live_ids(cfg, rw)
        classes = {}
        for t, p in (guard_atoms(cfg, ids[0]) if ids else []):
            if not any(isinstance(a, ast.Attribute) and a.attr == "inline_functions" for a in ast.walk(t)):
                continue
            # the smallest boolean sub-expressions around the option that also mention a call count
            for sub in ast.walk(t):
                if isinstance(sub, ast.BoolOp) and all(_atom_kind(x)[0] is not None for x in _leaves(sub)) and any(_atom_kind(x)[0] == "P" for x in _leaves(sub)):
                    recv_nodes = []
                    for x in _leaves(sub):
                        y = x
                        while isinstance(y, ast.UnaryOp):
                            y = y.operand
                        if isinstance(y, ast.Attribute) and y.attr == "can_inline":
                            recv_nodes.append(y.value)
                        elif isinstance(y, ast.Compare):
                            recv_nodes.append(y.left.value)
                    table = tuple(_eval_bool(sub, {"INL": i, "P": q}) for i, q in itertools.product((False, True), repeat=2))
                    holds_nand = (table == (True, True, True, False)) == p and table in ((True, True, True, False), (False, False, False, True))
                    for rn in recv_nodes:
                        tg = o.tags(rn, live_ids(cfg, t)[0] if live_ids(cfg, t) else ids[0])
                        who = "callee" if any(x == "func" or x.startswith("value") for x in tg) else ("self" if any(x.startswith("param:") or x.startswith("call:") for x in tg) or norm(rn) in ("func_data", "sym_data") else "?")
                        classes[who] = classes.get(who, False) or holds_nand
        chk.judge(R, "generate_code:compile_function:tail call only if the CALLEE is not inlined", classes.get("callee") is True,
                  "the rewrite jal->j is not guarded by 'not (inline_functions and callee called once)' for the symbol of the called function: "
                  "a tail call to a function that gets inlined leaves a 'j' to a label that does not exist / drops the caller's 'j ra'",
                  {"guards_by_subject": classes}, f"{g.path}:{rw.lineno} in {cf.qual}")
        chk.judge(R, "generate_code:compile_function:tail call only if the function itself is emitted as a region", classes.get("self") is True,
                  "the rewrite jal->j is not guarded by 'not (inline_functions and this function called once)': an inlined function's last call "
                  "would become a jump out of the code it was pasted into", {"guards_by_subject": classes}, f"{g.path}:{rw.lineno} in {cf.qual}")
    for fs in flag_sets:
        par = getattr(fs, "parent", None)
        body = None
        for fld in ("body", "orelse"):
            if fs in getattr(par, fld, []):
                body = getattr(par, fld)
        chk.judge(R, "generate_code:compile_function:the flag is set only where the rewrite happens", body is not None and any(rw in body for rw in rewrites),
                  f"'{flag} = True' without the jal->j rewrite in the same block: the function would end without 'j ra' and without a tail jump", None,
                  f"{g.path}:{fs.lineno} in {cf.qual}")
    # the final 'j ra' depends on the flag
    finals = [s for s in collect_sites(repo, ["generate_code"]) if s.fn is cf and s.section == "end" and s.opcodes is not TOP and set(s.opcodes) == {"j"}]
    if not finals:
        raise AnalysisError("compile_function: final 'j ra' not found")
    for f in finals:
        par = f.call
        while par is not None and not isinstance(par, ast.If):
            par = getattr(par, "parent", None)
        mentions = par is not None and any(isinstance(n, ast.Name) and n.id == flag for n in ast.walk(par.test))
        chk.judge(R, "generate_code:compile_function:the final 'j ra' is suppressed by that flag only", mentions,
                  f"the condition of the final 'j ra' does not mention {flag}: after a tail call the function would return twice or never", None, f.where())
    # tail calls only for functions that are emitted as a region (not inlined): checked as part of R02.c (negated predicate)


# ---------------------------------------------------------------------- R02.h
def _is_option_read(a, fields):
    return isinstance(a, ast.Attribute) and a.attr in fields and isinstance(a.ctx, ast.Load) and \
        (norm(a.value).endswith("options") or norm(a.value) == "opts")


def r02h(repo, chk, R="R02.h"):
    fields = set(option_fields(repo))
    n_raise = 0
    for mn in ("compile_pass", "generate_code", "register_assignment", "utils", "types"):
        if not repo.has_mod(mn):
            continue
        m = repo.mod(mn)
        for fn in m.funcs.values():
            if not isinstance(fn, (ast.FunctionDef, ast.AsyncFunctionDef)):
                continue
            raises = [r for r in ast.walk(fn) if isinstance(r, ast.Raise) and enclosing_def(r) is fn]
            lookups = [c for c in ast.walk(fn) if isinstance(c, ast.Call) and isinstance(c.func, ast.Attribute) and c.func.attr == "get_sym_data"
                       and len(c.args) == 1 and not c.keywords and isinstance(c.args[0], ast.Attribute) and c.args[0].attr == "func" and enclosing_def(c) is fn]
            if not raises and not lookups:
                continue
            if not any(_is_option_read(a, fields) for a in ast.walk(fn)):
                n_raise += len(raises)
                continue
            cfg, rd = fn_ctx(fn)
            chk.saw(mn, fn.qual)
            for r in raises:
                ids = live_ids(cfg, r)
                if not ids:
                    continue
                n_raise += 1
                atoms = guard_atoms(cfg, ids[0])
                opts = sorted({a.attr for t, _ in atoms for a in ast.walk(t) if _is_option_read(a, fields)})
                what = norm(r.exc)[:70] if r.exc is not None else "re-raise"
                # the message identifies the rejection, not its position
                msg = next((norm(x)[:60] for x in ast.walk(r) if isinstance(x, (ast.Constant, ast.JoinedStr)) and (not isinstance(x, ast.Constant) or isinstance(x.value, str))), what)
                key = f"{mn}:{fn.qual}:raise {msg}"
                if opts:
                    chk.bad(R, key, f"this rejection happens only under a condition on the option(s) {opts} "
                                    f"({'; '.join(norm(t) + ' is ' + str(p) for t, p in atoms if any(_is_option_read(a, fields) for a in ast.walk(t)))}): "
                                    f"the same program compiles under the other value, so the option changes more than size and layout",
                            {"options": opts}, f"{m.path}:{r.lineno} in {fn.qual}")
                else:
                    chk.ok(R, key, None)
            for c in lookups:
                ids = live_ids(cfg, c)
                if not ids:
                    continue
                atoms = guard_atoms(cfg, ids[0])
                if not any(_is_option_read(a, fields) for t, _ in atoms for a in ast.walk(t)):
                    continue
                subj = norm(c.args[0].value)
                user = False
                for t, pol in atoms:
                    if isinstance(t, ast.Compare) and len(t.ops) == 1 and isinstance(t.ops[0], (ast.In, ast.NotIn)) and \
                            norm(t.comparators[0]).endswith("functions") and (isinstance(t.ops[0], ast.In) == pol):
                        lhs = t.left
                        if isinstance(lhs, ast.Name):
                            ds = rd.at(nid_of(cfg, t, ids[0]), lhs.id)
                            if len(ds) == 1 and ds[0].kind == "assign" and not ds[0].index and ds[0].value is not None:
                                lhs = ds[0].value
                        if subj in norm(lhs):
                            user = True
                    if isinstance(t, ast.Call) and norm(t.func).split(".")[-1] == "is_builtin_name" and not pol and t.args and subj in norm(t.args[0]):
                        user = True
                chk.judge(R, f"{mn}:{fn.qual}:symbol of the callee of {subj} is looked up for user functions only", user,
                          f"{norm(c)} runs only under an option and fails ('Name not found') when {subj} calls a built-in (yield_(), sleep(..), sqrt(..)): "
                          f"a program that ends a function with such a call compiles without the option and is rejected with it",
                          {"guards": [norm(t) for t, _ in atoms]}, f"{m.path}:{c.lineno} in {fn.qual}")
    if n_raise < 40:
        raise AnalysisError(f"{R}: only {n_raise} raise statements seen on the compile path (expected more than 40)")


def nid_of(cfg, test, default):
    ids = live_ids(cfg, test)
    return ids[0] if ids else default
