"""C11 — a compilation's result does not depend on earlier compilations (R11.a–d)."""
from __future__ import annotations

import ast
from ..model import Repo, AnalysisError, norm, enclosing_def
from ..report import Check
from ..cfg import CFG, ReachingDefs

COMPILE_PATH = ["compiler", "compile_pass", "generate_code", "register_assignment", "types", "utils", "intrinsics", "symbols", "parse_lua"]
MUTATORS = {"append", "extend", "insert", "sort", "reverse", "pop", "remove", "clear", "update", "add", "setdefault", "discard", "popitem", "__setitem__"}
FRESH_CALLS = {"list", "dict", "set", "sorted", "tuple", "frozenset", "copy.copy", "copy.deepcopy", "deepcopy", "reversed", "range", "enumerate", "zip"}
FRESH_METHODS = {"splitlines", "split", "copy", "keys", "values", "items", "union", "difference", "intersection"}

# module-level bindings that functions on the compile path write, each with its obligation
AUDITED_GLOBALS = {
    ("utils", "_output_mode"): "assigned by compile_code on every path before Compiler(...).compile, from options.compact only",
    ("utils", "_eval_constexpr_cache"): "keyed by the complete text of the evaluation script that is executed",
    ("utils", "_all_hashes"): "filled once, only under 'if not _all_hashes', from module constants (the structure tables)",
    ("compiler", "_last_time"): "timing aid, never read by a result",
}
# container mutations through a parameter that are safe by construction, one line of reason each
AUDITED_PARAM_MUTATIONS = {
    ("generate_code", "CompilerPassGatherCode.remove_labels", "keep_labels"): "keep_labels is never passed by a caller (default None -> fresh set())",
    ("types", "IC10Instruction.__init__", "inputs"): "every emission site passes a list display (R09.a checks the operand list is a literal)",
}
# attribute stores on structure/register objects outside __init__, each with the reason the receiver is per-compile
STRUCT_ATTRS = {"_alias", "_dev_id", "_id", "_batch_mode", "_name", "_prefab_name", "_hash", "_is_ref_id"}
AUDITED_STRUCT_STORES = {
    ("generate_code", "CompilerPassGenerateCode.handle_call", "<v>._dev_id._id"): "result is the value of a constructor call made by this compilation (alias= given as str)",
    ("generate_code", "CompilerPassGenerateCode.handle_assign", "<v>._alias"): "guarded by value._alias == True: only objects constructed with alias=True in this program, never a module singleton",
    ("generate_code", "CompilerPassGenerateCode.handle_assign", "<v>._dev_id._id"): "same guard as value._alias (alias=True objects)",
}


def is_fresh_expr(e, rd=None, nid=None, depth=0):
    if depth > 4:
        return False
    if isinstance(e, (ast.List, ast.Dict, ast.Set, ast.ListComp, ast.DictComp, ast.SetComp, ast.Tuple, ast.Constant, ast.JoinedStr)):
        return True
    if isinstance(e, ast.Call):
        f = norm(e.func)
        if f in FRESH_CALLS:
            return True
        if isinstance(e.func, ast.Attribute) and e.func.attr in FRESH_METHODS:
            return True
        if isinstance(e.func, ast.Name) and e.func.id[:1].isupper():
            return True  # constructor call
        if isinstance(e.func, ast.Name) and e.func.id.startswith("_") and e.func.id[1:2].isupper():
            return True
    if isinstance(e, ast.Subscript) and isinstance(e.slice, ast.Slice):
        return True
    if isinstance(e, ast.BinOp):
        return is_fresh_expr(e.left, rd, nid, depth + 1) or is_fresh_expr(e.right, rd, nid, depth + 1)
    if isinstance(e, ast.IfExp):
        return is_fresh_expr(e.body, rd, nid, depth + 1) and is_fresh_expr(e.orelse, rd, nid, depth + 1)
    if isinstance(e, ast.Name) and rd is not None:
        ds = rd.at(nid, e.id)
        return bool(ds) and all(d.kind == "assign" and d.value is not None and not d.index and is_fresh_expr(d.value, rd, d.node, depth + 1) for d in ds)
    return False


def per_compile_root(e):
    """Attribute/subscript chain rooted at self / data / node / sym: state created by this compilation."""
    cur = e
    while isinstance(cur, (ast.Attribute, ast.Subscript)):
        if isinstance(cur, ast.Attribute) and cur.attr == "_ndata":
            return True  # NodeData objects are created by this compilation's SetNodeData pass
        cur = cur.value
    return isinstance(cur, ast.Name) and cur.id in ("self", "cls")


def run(repo: Repo, chk: Check):
    chk.rule("R11.a", "every module-level binding written from the compile path is in the audited inventory and meets its "
                      "obligation (mode set per compile from options only; cache keyed by the executed text; hash set filled "
                      "once from constants)", floor=6)
    chk.rule("R11.b", "compile_code and Compiler.compile never mutate the objects they were given (options, src)", floor=3)
    chk.rule("R11.c", "attribute stores on device/structure objects outside __init__ hit only fresh copies or the audited sites", floor=6)
    chk.rule("R11.d", "no container that came in through a parameter or from a compile-time constant (cached constexpr "
                      "results) is mutated in place", floor=20)
    chk.rule("R11.e", "no loop on the compile path iterates a set of names in hash order while its body depends on the order: the string "
                      "hash seed differs between processes, so the result would differ from a fresh process", floor=3)
    chk.guarded(r11e, repo, chk)
    chk.rule("R11.f", "what outlives a compilation carries nothing of it: the constexpr cache holds decoded results only (no exception or node of the "
                      "text it was first seen in), and CodeData.get_sym_data hands out objects made by or stored in this compilation, never a module-level "
                      "register singleton", floor=3)
    chk.guarded(r11f, repo, chk)
    inventory(repo, chk)
    chk.guarded(r11a_interpreter_state, repo, chk)
    r11b(repo, chk)
    r11cd(repo, chk)


# settings of the interpreter / the process that outlive the call that changes them
PROCESS_SETTERS = {"sys.setrecursionlimit", "sys.setswitchinterval", "sys.set_int_max_str_digits", "os.chdir", "os.umask", "os.putenv", "random.seed",
                   "locale.setlocale", "gc.disable", "gc.enable", "gc.set_threshold", "warnings.simplefilter", "warnings.filterwarnings",
                   "decimal.setcontext", "sys.settrace", "sys.setprofile", "resource.setrlimit", "signal.signal", "socket.setdefaulttimeout"}


def r11a_interpreter_state(repo, chk, R="R11.a"):
    """No function on the compile path changes a process-wide setting of the interpreter without putting the old value back: a later
    compilation in the same process would run under other conditions than in a fresh process."""
    n = 0
    for mn in COMPILE_PATH:
        if not repo.has_mod(mn):
            continue
        m = repo.mod(mn)
        imports = {}
        for st in ast.walk(m.tree):
            if isinstance(st, ast.ImportFrom) and st.module and st.level == 0:
                for a in st.names:
                    imports[a.asname or a.name] = f"{st.module}.{a.name}"
            elif isinstance(st, ast.Import):
                for a in st.names:
                    if a.asname:
                        imports[a.asname] = a.name
        for q, f in m.funcs.items():
            if not isinstance(f, (ast.FunctionDef, ast.AsyncFunctionDef)):
                continue
            for c in ast.walk(f):
                full = None
                if isinstance(c, ast.Call):
                    t = norm(c.func)
                    head = t.split(".")[0]
                    full = (imports.get(head, head) + t[len(head):]) if head in imports else t
                elif isinstance(c, (ast.Assign, ast.AugAssign, ast.Delete)):
                    tg = c.targets if not isinstance(c, ast.AugAssign) else [c.target]
                    for x in tg:
                        if isinstance(x, ast.Subscript) and norm(x.value) in ("os.environ", "sys.modules") or isinstance(x, ast.Attribute) and norm(x.value) == "sys" \
                                and x.attr in ("path", "stdout", "stderr", "stdin", "argv", "excepthook"):
                            full = "store into " + norm(x)[:30]
                if full is None or not (full in PROCESS_SETTERS or full.startswith("store into ")):
                    continue
                n += 1
                # restored in a 'finally' of an enclosing try by a call of the same setter?
                restored = False
                p_ = getattr(c, "parent", None)
                while p_ is not None and p_ is not f:
                    if isinstance(p_, ast.Try) and any(isinstance(x, ast.Call) and norm(x.func) == norm(c.func) for st in p_.finalbody for x in ast.walk(st)) \
                            and isinstance(c, ast.Call):
                        restored = True
                    p_ = getattr(p_, "parent", None)
                chk.judge(R, f"{mn}:{q}:{full} is undone before the call returns", restored,
                          f"{norm(c)[:60]} changes a setting of the whole process and nothing puts the old value back: the next compilation in this process runs under "
                          f"other conditions than the same compilation in a fresh process (a program that fails there with a recursion error compiles here, or the "
                          f"other way round)", None, f"{m.path}:{c.lineno} in {q}")
    if n == 0:
        chk.ok(R, "compile path: no process-wide interpreter setting is changed", None)


def module_level_names(m):
    out = set(m.assigns)
    return out


def inventory(repo, chk):
    written = {}  # (module, name) -> [(func qual, how, node)]
    for mn in COMPILE_PATH:
        if not repo.has_mod(mn):
            continue
        m = repo.mod(mn)
        mnames = module_level_names(m)
        for q, fn in m.funcs.items():
            globs = set()
            for st in ast.walk(fn):
                if isinstance(st, ast.Global) and enclosing_def(st) is fn:
                    globs |= set(st.names)
            params = {a.arg for a in fn.args.args + fn.args.kwonlyargs}
            local_assigned = set()
            for st in ast.walk(fn):
                if isinstance(st, (ast.Assign, ast.AugAssign, ast.AnnAssign, ast.For)) and enclosing_def(st) is fn:
                    tg = st.targets if isinstance(st, ast.Assign) else [st.target]
                    for t in tg:
                        for nm in ast.walk(t):
                            if isinstance(nm, ast.Name) and isinstance(nm.ctx, ast.Store):
                                local_assigned.add(nm.id)
            for st in ast.walk(fn):
                if enclosing_def(st) is not fn and st is not fn:
                    continue
                if isinstance(st, (ast.Assign, ast.AugAssign)):
                    tg = st.targets if isinstance(st, ast.Assign) else [st.target]
                    for t in tg:
                        if isinstance(t, ast.Name) and t.id in globs:
                            written.setdefault((mn, t.id), []).append((q, "assign", st))
                        if isinstance(t, ast.Subscript) and isinstance(t.value, ast.Name) and t.value.id in mnames \
                                and t.value.id not in params and t.value.id not in (local_assigned - globs):
                            written.setdefault((mn, t.value.id), []).append((q, "item store", st))
                        if isinstance(t, ast.Attribute) and isinstance(t.value, ast.Name):
                            # store through a module alias: utils._output_mode = x
                            got = repo.resolve_import(m, t.value.id)
                            if got and got[1] is None and repo.has_mod(got[0]) and t.value.id not in params and t.value.id not in local_assigned:
                                written.setdefault((got[0], t.attr), []).append((q, "module attribute store", st))
                elif isinstance(st, ast.Call) and isinstance(st.func, ast.Attribute) and st.func.attr in MUTATORS and isinstance(st.func.value, ast.Name):
                    nm = st.func.value.id
                    if nm in mnames and nm not in params and nm not in (local_assigned - globs):
                        written.setdefault((mn, nm), []).append((q, "." + st.func.attr, st))
    chk.extra["global_bindings_written"] = sorted(f"{a}.{b}" for a, b in written)
    for (mn, name), sites in sorted(written.items()):
        m = repo.mod(mn)
        key = f"{mn}:{name}"
        where = f"{m.path} ({', '.join(sorted({s[0] for s in sites}))})"
        if (mn, name) not in AUDITED_GLOBALS:
            chk.bad("R11.a", key, f"module-level binding {mn}.{name} is written by {sorted({s[0] for s in sites})} on the compile path and is not in "
                                   f"the audited inventory: state that survives a compilation can change later results", None, where)
            continue
        chk.ok("R11.a", key + ":audited", {"writers": sorted({s[0] for s in sites}), "obligation": AUDITED_GLOBALS[(mn, name)]})
    for k in AUDITED_GLOBALS:
        if k not in written:
            chk.ok("R11.a", f"{k[0]}:{k[1]}:no longer written", None, vacuous=True)
    # obligations
    u = repo.mod("utils")
    cm = repo.mod("compiler")
    # _output_mode
    if ("utils", "_output_mode") in written:
        writers = {s[0] for s in written[("utils", "_output_mode")]}
        chk.judge("R11.a", "utils:_output_mode:single setter", writers == {"set_output_mode"}, f"_output_mode is written by {sorted(writers)}", None, str(u.path))
        fn = cm.anchor("compile_code")
        cfg = CFG(fn)
        live = cfg.reachable()
        setters = [n for n in cfg.nodes if n.id in live and n.ast is not None and n.kind == "stmt" and any(
            isinstance(c, ast.Call) and norm(c.func) in ("set_output_mode", "utils.set_output_mode") for c in ast.walk(n.ast))]
        compiles = [n for n in cfg.nodes if n.id in live and n.ast is not None and n.kind in ("stmt", "return") and any(
            isinstance(c, ast.Call) and isinstance(c.func, ast.Attribute) and c.func.attr == "compile" for c in ast.walk(n.ast))]
        if not compiles:
            raise AnalysisError("compile_code: call of Compiler(...).compile not found")
        dom = cfg.dominators()
        ok = bool(setters) and all(any(s.id in dom[c.id] for s in setters) for c in compiles)
        chk.judge("R11.a", "utils:_output_mode:set on every path before compiling", ok,
                  "a path reaches Compiler(...).compile without set_output_mode: the output mode of the previous compilation is used", None,
                  f"{cm.path}:{fn.lineno} in compile_code")
        for s in setters:
            call = [c for c in ast.walk(s.ast) if isinstance(c, ast.Call) and norm(c.func).endswith("set_output_mode")][0]
            params = [a.arg for a in fn.args.args]
            rd_ = ReachingDefs(cfg)
            # inputs of the mode value, through local definitions and the guards under which they were made
            names, attrs, todo, seen_ = set(), set(), [(a, s.id) for a in call.args], set()
            while todo:
                e_, at_ = todo.pop()
                for x in ast.walk(e_):
                    if isinstance(x, ast.Attribute):
                        attrs.add(norm(x))
                    if isinstance(x, ast.Name) and isinstance(x.ctx, ast.Load):
                        ds_ = [d for d in rd_.at(at_, x.id) if d.kind in ("assign", "aug")]
                        if x.id in ("OutputMode", params[1]) or not ds_:
                            names.add(x.id)
                            continue
                        for d in ds_:
                            if (x.id, d.node) in seen_ or d.value is None:
                                continue
                            seen_.add((x.id, d.node))
                            todo.append((d.value, d.node))
                            for t_, p_ in cfg.guards(d.node):
                                if isinstance(t_, ast.expr):
                                    todo.append((t_, d.node))
            attrs = {a for a in attrs if a.startswith(params[1] + ".")} | {a for a in attrs if not a.startswith(("OutputMode.", params[1] + "."))}
            okv = names <= {"OutputMode", params[1]} and f"{params[1]}.compact" in attrs and all(a == f"{params[1]}.compact" or a.startswith("OutputMode.") for a in attrs)
            chk.judge("R11.a", "utils:_output_mode:value depends on options.compact only", okv, f"mode expression {norm(call)} reads {sorted(names)}", None,
                      f"{cm.path}:{call.lineno}")
        # the setter itself
        sf = u.func("set_output_mode")
        body = [st for st in sf.body if not isinstance(st, (ast.Global, ast.Expr))]
        oks = len(body) == 1 and isinstance(body[0], ast.Assign) and norm(body[0].targets[0]) == "_output_mode" and norm(body[0].value) == sf.args.args[0].arg
        chk.judge("R11.a", "utils:set_output_mode assigns its argument", oks, f"set_output_mode body is {[norm(b) for b in body]}", None, f"{u.path}:{sf.lineno}")
        # nothing else caches a mode-dependent value at module level: readers of _output_mode
        readers = set()
        for mn in COMPILE_PATH:
            if not repo.has_mod(mn):
                continue
            for q, f in repo.mod(mn).funcs.items():
                for x in ast.walk(f):
                    if (isinstance(x, ast.Name) and x.id == "_output_mode" and isinstance(x.ctx, ast.Load)) or (isinstance(x, ast.Attribute) and x.attr == "_output_mode"):
                        if enclosing_def(x) is f:
                            readers.add(f"{mn}.{q}")
        chk.extra["output_mode_readers"] = sorted(readers)
    # cache
    if ("utils", "_eval_constexpr_cache") in written:
        cache_obligation(repo, chk, u)
    # _all_hashes
    if ("utils", "_all_hashes") in written:
        fn = u.func("format_int")
        cfg = CFG(fn)
        ok = True
        detail = []
        for n in cfg.nodes:
            if n.ast is not None and n.kind == "stmt" and "_all_hashes." in norm(n.ast):
                g = [(norm(t), p) for t, p in cfg.guards(n.id) if isinstance(t, ast.expr)]
                if ("_all_hashes", False) not in g:
                    ok = False
                detail.append(g)
        srcs = {norm(x) for x in ast.walk(fn) if isinstance(x, ast.Call) and norm(x.func) in ("dir", "getattr", "hasattr", "isinstance", "vars")}
        chk.judge("R11.a", "utils:_all_hashes:filled once from constants", ok and bool(detail), f"fill sites guarded by {detail}", {"sources": sorted(srcs)},
                  f"{u.path}:{fn.lineno} in format_int")
        # ... and nothing else in the package puts anything into the table: what a compilation adds stays there for the next one
        for mn in COMPILE_PATH:
            if not repo.has_mod(mn):
                continue
            mm = repo.mod(mn)
            for q, f_ in mm.funcs.items():
                if not isinstance(f_, (ast.FunctionDef, ast.AsyncFunctionDef)) or (mn == "utils" and q == "format_int"):
                    continue
                for c in ast.walk(f_):
                    if isinstance(c, ast.Call) and isinstance(c.func, ast.Attribute) and c.func.attr in ("add", "update", "discard", "remove", "clear", "pop") \
                            and norm(c.func.value) in ("_all_hashes", "utils._all_hashes") and enclosing_def(c) is f_:
                        fc = CFG(f_)
                        ids_ = [x.id for x in fc.nodes_of(c) if x.id in fc.reachable()]
                        g_ = [(norm(t), p) for t, p in (fc.guards(ids_[0]) if ids_ else []) if isinstance(t, ast.expr)]
                        once = ("_all_hashes", False) in g_ or ("utils._all_hashes", False) in g_
                        chk.judge("R11.a", f"{mn}:{q}:changes the table of known hashes only while filling it for the first time", once,
                                  f"{norm(c)[:60]} changes the process-wide table of known hashes during a compilation: the numbers one program mentions change how a later "
                                  f"program's integers are spelled (decimal instead of '$' hex), and a first compilation that adds one keeps the table from ever being filled",
                                  None, f"{mm.path}:{c.lineno} in {q}")
    if ("compiler", "_last_time") in written:
        readers = []
        for q, f in cm.funcs.items():
            if q != "time" and any(isinstance(x, ast.Name) and x.id == "_last_time" for x in ast.walk(f)):
                readers.append(q)
        chk.judge("R11.a", "compiler:_last_time:never read by a result", not readers, f"_last_time is read by {readers}", None, str(cm.path))


def cache_obligation(repo, chk, u):
    fn = u.anchor("eval_constexpr")
    chk.saw("utils", "eval_constexpr")
    cfg = CFG(fn)
    rd = ReachingDefs(cfg)
    where = f"{u.path}:{fn.lineno} in eval_constexpr"
    stores, lookups, execs = [], [], []
    for n in cfg.nodes:
        if n.ast is None or n.id not in cfg.reachable() or n.kind not in ("stmt", "test", "return"):
            continue
        for c in ast.walk(n.ast):
            if isinstance(c, ast.Subscript) and norm(c.value) == "_eval_constexpr_cache":
                (stores if isinstance(c.ctx, ast.Store) else lookups).append((n, c.slice))
            if isinstance(c, ast.Compare) and len(c.ops) == 1 and isinstance(c.ops[0], ast.In) and norm(c.comparators[0]) == "_eval_constexpr_cache":
                lookups.append((n, c.left))
            if isinstance(c, ast.Call) and norm(c.func) == "exec" and c.args:
                execs.append((n, c.args[0]))
            if isinstance(c, ast.Call) and norm(c.func).endswith("Popen") and c.args and isinstance(c.args[0], (ast.List, ast.Tuple)) and c.args[0].elts:
                execs.append((n, c.args[0].elts[-1]))
    if not stores or not lookups or not execs:
        raise AnalysisError("eval_constexpr: cache store / lookup / execution sites not found")
    keys = {norm(k) for _, k in stores + lookups}
    ex = {norm(k) for _, k in execs}
    chk.judge("R11.a", "utils:_eval_constexpr_cache:key is the executed program text", len(keys) == 1 and keys == ex and all(isinstance(k, ast.Name) for _, k in stores + lookups + execs),
              f"cache is keyed by {sorted(keys)} but the text executed is {sorted(ex)}: two programs with the same key and different text share a result",
              {"key": sorted(keys), "executed": sorted(ex)}, where)
    if len(keys) == 1 and all(isinstance(k, ast.Name) for _, k in stores + lookups + execs):
        kname = next(iter(keys))
        sets = [frozenset(id(d) for d in rd.at(n.id, kname)) for n, _ in stores + lookups + execs]
        chk.judge("R11.a", "utils:_eval_constexpr_cache:key unchanged between lookup, execution and store", len(set(sets)) == 1,
                  f"the key variable {kname} is reassigned between the cache lookup, the execution and the store", None, where)
        # the key text contains the function sources and the call expression
        defs = rd.at(lookups[0][0].id, kname)
        txt = " ".join(norm(d.value) for d in defs if d.value is not None)
        # local names used in the text are resolved one level (call_text = call_node.as_string())
        seen_defs = set()

        def gather(ds, depth=0):
            nonlocal txt
            for d in ds:
                if d.value is None or id(d) in seen_defs or depth > 4:
                    continue
                seen_defs.add(id(d))
                v_ = d.value.value if isinstance(d.value, ast.AugAssign) else d.value
                txt += " " + norm(v_)
                for x in ast.walk(v_):
                    if isinstance(x, ast.Name) and isinstance(x.ctx, ast.Load):
                        gather([d2 for d2 in rd.at(d.node, x.id) if d2.kind in ("assign", "aug")], depth + 1)
        gather(defs)
        ok = "constexpr_functions_code" in txt and "call_node.as_string()" in txt
        chk.judge("R11.a", "utils:_eval_constexpr_cache:key text contains function sources and call", ok,
                  "the program text no longer contains both the constexpr function sources and the call expression", None, where)


def r11b(repo, chk):
    cm = repo.mod("compiler")
    from .c15 import Scanner

    sc = Scanner(repo)
    for q in ("compile_code", "Compiler.compile"):
        fn = cm.func(q)
        chk.saw("compiler", q)
        cfg = CFG(fn)
        rd = ReachingDefs(cfg)
        params = [a.arg for a in fn.args.args if a.arg != "self"]
        for n in cfg.nodes:
            if n.ast is None or n.id not in cfg.reachable() or n.kind not in ("stmt", "test", "return", "iter"):
                continue
            for c in ast.walk(n.ast):
                recv, what = None, None
                if isinstance(c, ast.Call) and isinstance(c.func, ast.Attribute) and c.func.attr in MUTATORS:
                    recv, what = c.func.value, "." + c.func.attr + "()"
                elif isinstance(c, ast.Call) and norm(c.func) in ("setattr", "delattr") and c.args:
                    recv, what = c.args[0], norm(c.func)
                elif isinstance(c, (ast.Assign, ast.AugAssign, ast.Delete)):
                    tg = c.targets if isinstance(c, (ast.Assign, ast.Delete)) else [c.target]
                    for t in tg:
                        if isinstance(t, (ast.Subscript, ast.Attribute)):
                            recv, what = t.value, "store " + norm(t)
                if recv is None or not isinstance(recv, ast.Name) or recv.id not in params:
                    continue
                ds = rd.at(n.id, recv.id)
                shared = [d for d in ds if d.kind == "param" or (d.kind == "assign" and d.value is not None and not is_fresh_expr(d.value, rd, d.node))]
                chk.judge("R11.b", f"compiler:{q}:{what} on {recv.id}", not shared,
                          f"{what} is applied to {recv.id}, which on some path is still the object passed by the caller "
                          f"({[('parameter' if d.kind == 'param' else norm(d.value)[:40]) for d in shared]})", None, f"{cm.path}:{c.lineno} in {q}")
        # parameters handed on without mutation: list for the record
        chk.ok("R11.b", f"compiler:{q}:parameters {params} examined", {"params": params})


def r11cd(repo, chk):
    for mn in COMPILE_PATH:
        if not repo.has_mod(mn) or mn in ("intrinsics", "symbols"):
            continue
        m = repo.mod(mn)
        for q, fn in m.funcs.items():
            if q.endswith("__init__") or q.endswith("__post_init__"):
                init = True
            else:
                init = False
            try:
                cfg = CFG(fn)
            except AnalysisError:
                continue
            rd = ReachingDefs(cfg)
            params = {a.arg for a in fn.args.args + fn.args.kwonlyargs} - {"self", "cls"}
            for n in cfg.nodes:
                if n.ast is None or n.id not in cfg.reachable() or n.kind not in ("stmt", "test", "return", "iter"):
                    continue
                for c in ast.walk(n.ast):
                    if enclosing_def(c) is not fn:
                        continue
                    # R11.c attribute stores on structure objects
                    if isinstance(c, (ast.Assign, ast.AugAssign)) and not init:
                        tg = c.targets if isinstance(c, ast.Assign) else [c.target]
                        for t in tg:
                            if isinstance(t, ast.Attribute) and t.attr in STRUCT_ATTRS and not (isinstance(t.value, ast.Name) and t.value.id == "self"):
                                root = t.value
                                while isinstance(root, ast.Attribute):
                                    root = root.value
                                key = f"{mn}:{q}:store {norm(t)}"
                                where = f"{m.path}:{c.lineno} in {q}"
                                if isinstance(root, ast.Name) and is_fresh_expr(root, rd, n.id):
                                    chk.ok("R11.c", key + " [receiver is a fresh copy]", {"receiver": norm(root)})
                                elif isinstance(root, ast.Name) and (mn, q, "<v>" + norm(t)[len(root.id):]) in AUDITED_STRUCT_STORES:
                                    # re-prove the guard the audit relies on where it is syntactic (the local's name does not matter)
                                    reason = AUDITED_STRUCT_STORES[(mn, q, "<v>" + norm(t)[len(root.id):])]
                                    ok = True
                                    if "guarded by value._alias == True" in reason or "same guard" in reason:
                                        g = [(norm(tt), p) for tt, p in cfg.guards(n.id) if isinstance(tt, ast.expr)]
                                        ok = (f"{root.id}._alias == True", True) in g or (f"{root.id}._alias is True", True) in g
                                    chk.judge("R11.c", key + " [audited]", ok, f"audited store lost its guard ({reason})", {"reason": reason}, where)
                                else:
                                    chk.bad("R11.c", key, f"{norm(t)} is assigned on an object that may be a module-level singleton (d0..db, stack, structure "
                                                          f"singletons) shared by all compilations", None, where)
                    # R11.d container mutation through parameters / constants
                    recv, what = None, None
                    if isinstance(c, ast.Call) and isinstance(c.func, ast.Attribute) and c.func.attr in MUTATORS and isinstance(c.func.value, ast.Name):
                        recv, what = c.func.value, "." + c.func.attr + "()"
                    elif isinstance(c, (ast.Assign, ast.AugAssign, ast.Delete)):
                        tg = c.targets if isinstance(c, (ast.Assign, ast.Delete)) else [c.target]
                        for t in tg:
                            if isinstance(t, ast.Subscript) and isinstance(t.value, ast.Name):
                                recv, what = t.value, "item store"
                        if isinstance(c, ast.AugAssign) and isinstance(c.target, ast.Name) and isinstance(c.op, ast.Add) and isinstance(c.value, (ast.List, ast.ListComp)):
                            recv, what = c.target, "+= list"
                    if recv is None or recv.id in ("self", "cls"):
                        continue
                    ds = rd.at(n.id, recv.id)
                    if not ds:
                        continue  # module-level name: covered by the inventory
                    bad = []
                    for d in ds:
                        if d.kind == "param":
                            bad.append("parameter")
                        elif d.kind == "assign" and d.value is not None and not d.index:
                            v = d.value
                            if is_fresh_expr(v, rd, d.node) or per_compile_root(v):
                                continue
                            if isinstance(v, ast.Subscript) and isinstance(v.value, ast.Name) and is_fresh_or_percompile_name(v.value, rd, d.node):
                                continue
                            if isinstance(v, ast.BoolOp) and all(is_fresh_expr(x, rd, d.node) or (isinstance(x, ast.Name) and x.id in params) for x in v.values) \
                                    and any(isinstance(x, ast.Name) and x.id in params for x in v.values):
                                bad.append("parameter")
                                continue
                            if isinstance(v, ast.Name) and is_fresh_or_percompile_name(v, rd, d.node):
                                continue
                            bad.append(norm(v)[:40])
                        elif d.kind == "for" and d.value is not None and _elements_fresh(d.value, d.index, rd, d.node):
                            continue      # an element of a container that this function built itself out of fresh values
                        elif d.kind in ("for", "with", "except"):
                            bad.append(d.kind + " variable")
                    key = f"{mn}:{q}:{recv.id}{what if what.startswith('.') else ' ' + what}"
                    where = f"{m.path}:{c.lineno} in {q}"
                    if not bad:
                        chk.ok("R11.d", key, {"receiver_defs": len(ds)})
                    elif set(bad) == {"parameter"} and (mn, q, recv.id) in AUDITED_PARAM_MUTATIONS:
                        chk.ok("R11.d", key + " [audited]", {"reason": AUDITED_PARAM_MUTATIONS[(mn, q, recv.id)]})
                    else:
                        chk.bad("R11.d", key, f"in-place mutation of {recv.id}, which may be an object owned by the caller or a compile-time constant "
                                              f"shared through the constexpr cache ({sorted(set(bad))})", None, where)


def _elements_fresh(it, index, rd, nid, depth=0):
    """for k, v in D.items() / for v in D.values() / for v in L  where D / L is a local that this function builds from fresh values
    (dict / set / list displays and comprehensions, set(), dict(), .copy()): v is a fresh object, mutating it touches nothing shared."""
    if depth > 3:
        return False
    base, which = it, "elem"
    if isinstance(it, ast.Call) and isinstance(it.func, ast.Attribute) and it.func.attr in ("items", "values") and not it.args:
        base, which = it.func.value, it.func.attr
        if which == "items" and index != (1,):
            return False
    if not isinstance(base, ast.Name):
        return False
    ds = rd.at(nid, base.id)
    if not ds:
        return False

    def fresh_value(v):
        return isinstance(v, (ast.Set, ast.List, ast.Dict, ast.SetComp, ast.ListComp, ast.DictComp)) or \
            isinstance(v, ast.Call) and (norm(v.func) in ("set", "list", "dict") or isinstance(v.func, ast.Attribute) and v.func.attr == "copy") or \
            isinstance(v, ast.IfExp) and fresh_value(v.body) and fresh_value(v.orelse)
    for d in ds:
        if d.kind != "assign" or d.index or d.value is None:
            return False
        v = d.value
        if isinstance(v, ast.DictComp):
            if not fresh_value(v.value):
                return False
        elif isinstance(v, ast.Dict):
            if not all(fresh_value(x) for x in v.values):
                return False
        elif isinstance(v, (ast.ListComp, ast.SetComp)):
            if not fresh_value(v.elt):
                return False
        else:
            return False
    return True


def is_fresh_or_percompile_name(nm, rd, nid):
    ds = rd.at(nid, nm.id)
    return bool(ds) and all(d.kind == "assign" and d.value is not None and (is_fresh_expr(d.value, rd, d.node) or per_compile_root(d.value)) for d in ds)


# ---------------------------------------------------------------------- R11.e
def _set_typed(e, rd, nid, depth=0):
    """Is *e* statically a set (of names)?"""
    if depth > 4:
        return False
    if isinstance(e, (ast.Set, ast.SetComp)):
        return True
    if isinstance(e, ast.Call):
        f = norm(e.func)
        if f in ("set", "frozenset"):
            # a set of small integers iterates in value order; sets built from range()/ints are exempt
            return not (e.args and ("range(" in norm(e.args[0]) or "registers" in norm(e.args[0])))
        if isinstance(e.func, ast.Attribute) and e.func.attr in ("copy", "union", "difference", "intersection", "symmetric_difference"):
            return _set_typed(e.func.value, rd, nid, depth + 1)
        if isinstance(e.func, ast.Attribute) and e.func.attr == "get" and len(e.args) == 2:
            return _set_typed(e.args[1], rd, nid, depth + 1)
        return False
    if isinstance(e, ast.BinOp) and isinstance(e.op, (ast.Sub, ast.BitOr, ast.BitAnd, ast.BitXor)):
        return _set_typed(e.left, rd, nid, depth + 1) or _set_typed(e.right, rd, nid, depth + 1)
    if isinstance(e, ast.Name) and rd is not None:
        ds = rd.at(nid, e.id)
        return bool(ds) and all(d.kind == "assign" and d.value is not None and not d.index and _set_typed(d.value, rd, d.node, depth + 1) for d in ds)
    return False


def _int_elements(name, fn, cfg, rd):
    """Every element that enters the set *name* in fn is an integer (an enumerate index, a length, arithmetic on those)."""
    def is_int(e, nid, depth=0):
        if depth > 4:
            return False
        if isinstance(e, ast.Constant):
            return isinstance(e.value, int) and not isinstance(e.value, bool)
        if isinstance(e, ast.BinOp) and isinstance(e.op, (ast.Add, ast.Sub, ast.Mult, ast.FloorDiv, ast.Mod)):
            return is_int(e.left, nid, depth + 1) and is_int(e.right, nid, depth + 1)
        if isinstance(e, ast.Call) and norm(e.func) in ("len", "int"):
            return True
        if isinstance(e, ast.IfExp):
            return is_int(e.body, nid, depth + 1) and is_int(e.orelse, nid, depth + 1)
        if isinstance(e, ast.Name):
            ds = rd.at(nid, e.id)
            if not ds:
                return False
            for d in ds:
                if d.kind == "for" and isinstance(d.value, ast.Call) and norm(d.value.func) == "enumerate" and d.index == (0,):
                    continue
                if d.kind == "for" and isinstance(d.value, ast.Call) and norm(d.value.func) == "range" and not d.index:
                    continue
                if d.kind == "assign" and not d.index and d.value is not None and is_int(d.value, d.node, depth + 1):
                    continue
                return False
            return True
        return False

    def at(x):
        ids = [n.id for n in cfg.nodes_of(x) if n.id in cfg.reachable()]
        p = x
        while not ids and p is not None:
            p = getattr(p, "parent", None)
            ids = [n.id for n in cfg.nodes_of(p) if n.id in cfg.reachable()] if p is not None else []
        return ids[0] if ids else None
    adds, inits = [], []
    for x in ast.walk(fn):
        if isinstance(x, ast.Call) and isinstance(x.func, ast.Attribute) and isinstance(x.func.value, ast.Name) and x.func.value.id == name:
            nid = at(x)
            if x.func.attr == "add" and len(x.args) == 1:
                adds.append(nid is not None and is_int(x.args[0], nid))
            elif x.func.attr in ("update", "union"):
                adds.append(False)
        if isinstance(x, ast.Assign) and any(isinstance(t, ast.Name) and t.id == name for t in x.targets):
            v = x.value
            if isinstance(v, ast.Call) and norm(v.func) == "set" and not v.args:
                inits.append(True)
            else:
                inits.append(False)
    return bool(inits) and all(inits) and bool(adds) and all(adds)


def _order_insensitive(loop):
    """The loop body only accumulates into sets / does per-element updates that commute."""
    for st in ast.walk(ast.Module(body=loop.body, type_ignores=[])):
        if isinstance(st, (ast.Break, ast.Return)):
            return False
        if isinstance(st, ast.Call) and isinstance(st.func, ast.Attribute) and st.func.attr in ("append", "insert", "extend", "pop", "popitem"):
            return False
    # assignments that carry state from one iteration to the next:  x = f(x) with x not the loop's own element
    tgt = {n.id for n in ast.walk(loop.target) if isinstance(n, ast.Name)}
    for st in loop.body:
        for a in ast.walk(st):
            if isinstance(a, ast.Assign):
                for t in a.targets:
                    base = t
                    while isinstance(base, (ast.Subscript, ast.Attribute)):
                        base = base.value
                    if isinstance(t, ast.Subscript) and isinstance(base, ast.Name):
                        # d[elem] = <state carried across iterations>  (e.g. called_from[module] = added.copy())
                        used = {n.id for n in ast.walk(a.value) if isinstance(n, ast.Name)}
                        mutated = {norm(c.func.value) for c in ast.walk(ast.Module(body=loop.body, type_ignores=[])) if isinstance(c, ast.Call)
                                   and isinstance(c.func, ast.Attribute) and c.func.attr in ("add", "update", "append")}
                        if used & mutated:
                            return False
    return True


def r11e(repo, chk):
    n = 0
    for mn in COMPILE_PATH:
        if not repo.has_mod(mn) or mn in ("intrinsics", "symbols"):
            continue
        m = repo.mod(mn)
        for fn in m.funcs.values():
            if isinstance(fn, ast.Lambda):
                continue
            loops = [lp for lp in ast.walk(fn) if isinstance(lp, ast.For) and enclosing_def(lp) is fn]
            if not loops:
                continue
            cfg = CFG(fn)
            rd = ReachingDefs(cfg)
            for lp in loops:
                ids = [x.id for x in cfg.nodes_of(lp.iter) if x.id in cfg.reachable()]
                if not ids:
                    continue
                it = lp.iter
                if isinstance(it, ast.Call) and norm(it.func) in ("sorted", "enumerate", "reversed", "list", "tuple") and it.args:
                    if norm(it.func) == "sorted":
                        continue
                    it = it.args[0]
                if not _set_typed(it, rd, ids[0]):
                    continue
                if isinstance(it, ast.Name) and _int_elements(it.id, fn, cfg, rd):
                    continue    # a set of positions: integers hash to themselves, the order does not depend on the hash seed
                n += 1
                chk.saw(mn, fn.qual)
                ok = _order_insensitive(lp)
                chk.judge("R11.e", f"{mn}:{fn.qual}:for {norm(lp.target)} in {norm(lp.iter)[:50]}", ok,
                          f"the loop iterates the set {norm(lp.iter)} in hash order and its body depends on that order (it appends, breaks out at the first "
                          f"match or chains state from one element to the next): the order of a set of strings changes with the process's hash seed, so the "
                          f"compilation result differs between processes; iterate sorted(...) instead", None, f"{m.path}:{lp.lineno} in {fn.qual}")
    if n < 2:
        raise AnalysisError(f"R11.e: only {n} loops over sets found on the compile path")


# ---------------------------------------------------------------------- R11.f
def cache_values(repo, chk, R):
    """Every value stored in utils._eval_constexpr_cache is data decoded from the child's output."""
    u = repo.mod("utils")
    fn = u.anchor("eval_constexpr")
    cfg = CFG(fn)
    rd = ReachingDefs(cfg)
    where = f"{u.path}:{fn.lineno} in eval_constexpr"
    stores = [st for st in ast.walk(fn) if isinstance(st, ast.Assign) and any(isinstance(t, ast.Subscript) and norm(t.value) == "_eval_constexpr_cache" for t in st.targets)]
    if not stores:
        raise AnalysisError("eval_constexpr: no store into _eval_constexpr_cache found")

    def classify(e, at, depth=0):
        """'data' (decoded result / literal), 'exception' (an exception object), None unknown"""
        if depth > 5:
            return None
        if isinstance(e, ast.Constant) or isinstance(e, (ast.Dict, ast.List, ast.Tuple)):
            return "data"
        if isinstance(e, ast.Call):
            f = norm(e.func)
            if f in ("json.loads", "__json.loads", "vars.get", "float", "int", "str", "tuple", "list", "dict") or f.endswith(".loads") or f.endswith(".get"):
                return "data"
            if isinstance(e.func, ast.Name) and (e.func.id.endswith("Error") or e.func.id.endswith("Exception")):
                return "exception"
        if isinstance(e, ast.Subscript):
            return classify(e.value, at, depth + 1)
        if isinstance(e, ast.Name):
            ids = [n.id for n in cfg.nodes_of(at)] if not isinstance(at, int) else [at]
            ds = rd.at(ids[0], e.id) if ids else []
            kinds = set()
            for d in ds:
                if d.kind == "except":
                    kinds.add("exception")
                elif d.kind == "assign" and d.value is not None:
                    kinds.add(classify(d.value, d.node, depth + 1))
                else:
                    kinds.add(None)
            if "exception" in kinds:
                return "exception"
            return kinds.pop() if len(kinds) == 1 else None
        return None
    for st in stores:
        k = classify(st.value, st)
        key = f"utils:eval_constexpr:cached value {norm(st.value)[:40]}"
        if k == "exception":
            chk.bad(R, key, f"an exception object ({norm(st.value)}) is stored in the cache that outlives the compilation: it keeps the syntax-tree node (line, column, quoted source) of the "
                    f"text it was first raised for, and a later compilation of another text that contains the same call reports that stale position", None,
                    f"{u.path}:{st.lineno} in eval_constexpr")
        elif k == "data":
            chk.ok(R, key, {"kind": "decoded result"})
        else:
            raise AnalysisError(f"eval_constexpr: value stored in the cache not classified: {norm(st.value)[:60]}")


def sym_data_sources(repo, chk, R):
    cp = repo.mod("compile_pass")
    fn = cp.func("CodeData.get_sym_data")
    chk.saw("compile_pass", "CodeData.get_sym_data")
    cfg = CFG(fn)
    rd = ReachingDefs(cfg)
    MODULE_ROOTS = {"symbols", "types", "utils", "intrinsics"}

    def origin(e, at, depth=0):
        """'fresh' | 'per-compile' | 'module' | None"""
        if depth > 5:
            return None
        if isinstance(e, ast.Call):
            if isinstance(e.func, ast.Name) and e.func.id == "getattr" and e.args and isinstance(e.args[0], ast.Name) and e.args[0].id in MODULE_ROOTS:
                return "module"
            if isinstance(e.func, ast.Name) and e.func.id[:1].isupper() or norm(e.func) in ("copy.copy", "copy.deepcopy"):
                return "fresh"
            if isinstance(e.func, ast.Attribute) and e.func.attr in ("get", "setdefault"):
                return origin(e.func.value, at, depth + 1)
            return None
        if isinstance(e, (ast.Attribute, ast.Subscript)):
            root = e
            while isinstance(root, (ast.Attribute, ast.Subscript)):
                root = root.value
            if isinstance(root, ast.Name) and root.id in ("self",):
                return "per-compile"
            if isinstance(root, ast.Name) and root.id in MODULE_ROOTS:
                return "module"
            if isinstance(root, ast.Name):
                return origin(root, at, depth + 1)
            if isinstance(root, ast.Call):
                return origin(root, at, depth + 1)
            return None
        if isinstance(e, ast.Name):
            if e.id in MODULE_ROOTS:
                return "module"
            ds = rd.at(at, e.id)
            kinds = set()
            for d in ds:
                if d.kind == "assign" and d.value is not None:
                    kinds.add(origin(d.value, d.node, depth + 1))
                elif d.kind == "param":
                    kinds.add("per-compile")
                else:
                    kinds.add(None)
            if "module" in kinds:
                return "module"
            kinds.discard("fresh")
            if not kinds:
                return "fresh"
            return kinds.pop() if len(kinds) == 1 else None
        if isinstance(e, ast.Constant) and e.value is None:
            return "fresh"
        return None
    n = 0
    for node in cfg.nodes:
        if node.kind != "return" or node.id not in cfg.reachable() or node.ast.value is None:
            continue
        n += 1
        o = origin(node.ast.value, node.id)
        key = f"compile_pass:CodeData.get_sym_data:returns {norm(node.ast.value)[:50]}"
        where = f"{cp.path}:{node.ast.lineno} in CodeData.get_sym_data"
        if o == "module":
            chk.bad(R, key, f"get_sym_data hands out {norm(node.ast.value)}, an object that lives at module level: the code generator writes code_expr, nodes_reading/nodes_writing "
                    f"on what it gets from here, so one program that assigns to it changes how every later program of the process is compiled", None, where)
        elif o in ("fresh", "per-compile"):
            chk.ok(R, key, {"origin": o})
        else:
            raise AnalysisError(f"get_sym_data: origin of the returned {norm(node.ast.value)[:60]} not determined")
    if n == 0:
        raise AnalysisError("get_sym_data: no return found")


def r11f(repo, chk, R="R11.f"):
    chk.guarded(cache_values, repo, chk, R)
    chk.guarded(sym_data_sources, repo, chk, R)
